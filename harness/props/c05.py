"""C05 — an atomic grid is exactly the product of its radial grid and per-shell spheres."""
import importlib
import math
import re
from fractions import Fraction

import numpy as np

from ..common import SRC, Ctx, driver_batch, f2b, fvec, vec

LEVEL = "proof"
LEVEL_TEXT = (
    "Lean theorems, unbounded in the number of shells and points: the index table is the prefix-sum table of the "
    "shell sizes; the slice of points/weights it delimits is exactly centre + r_i (u_ij R_i) and w_i r_i^2 omega_ij; "
    "the quadrature of g(|p-c|) Y(direction) factorises into the radial sum times the per-shell angular sums (and into "
    "radial sum x exact angular integral under the named hypothesis that each shell with r_i != 0 integrates the rotated Y "
    "exactly = C02 + rotation closure); moving the centre translates the points and nothing else; an orthogonal matrix "
    "preserves radii, weights/indices/degrees do not depend on rotation or centre, the grid depends on the rotation "
    "source only through the seeds rotate+i; get_shell_grid returns the slice relative to the centre; sector lookup over "
    "ascending bounds; with C12 no built shell is coarser than requested. The shipped preset tables (regenerated) are "
    "decided in the kernel: the branch from_preset takes fits the data shape for every (preset, element) except three "
    "defective table entries, whose negations are proved. Tie: arithmetic of the assembly loop and the branch predicate "
    "are regenerated from the source; the hand model is compared with the implementation on random grids. "
    "Round 2: `_find_degrees_for_radial_points`, `_generate_degree_from_radius`, `_input_type_check`, the constructor's "
    "handling of degrees / sizes / rotate / centre and `from_pruned` are translated statement by statement from the AST "
    "(Gen/AtomGrid.lean) and proved equal to the hand model (gen_*_eq_model, for every argument kind: None / list-or-array "
    "/ other, int / NumPy integer / bool seeds); sector_degree and the sector clause of preset_builds are restated over "
    "the generated lookup (sector_degree_gen: the degree at position i is that of the sector in which the radius "
    "rpoints[i] itself lies, whatever the order of the radial array; preset_request_sector_gen); pruned_builds: "
    "from_pruned builds a product grid whose shell at radius r has the least supported degree not below the degree "
    "requested for r's sector; _input_type_check accepts exactly the OneDGrids with a non-negative domain start, at "
    "least one node and no negative node, and centres of shape (3,); rotate=True/False act as the seeds 1/0, a "
    "NumPy-integer seed is rejected by the shell loop (gen_init_bool, gen_init_npInt_rejected). "
    "Round 3: `get_shell_grid`, `_generate_atomic_grid` (the shell loop as a body function over the loop-carried variables "
    "+ an enumerate fold, `np.vstack` / `np.hstack`, the returned tuple) and `from_preset` (default radial grid with the "
    "angstrom -> bohr arithmetic, table reads, the if / elif / else chain with the shell-count comprehension or the sector "
    "lookup) are translated statement by statement as well, and the declared default value of every parameter is a "
    "regenerated definition: gen_get_shell_grid_eq_model, loop_body_ok / loop_spec / gen_generate_atomic_grid_eq_model "
    "(the regenerated loop is the hand model's assembly, for every seed kind), gen_from_preset_eq_model, and the clauses "
    "restated over the generated text: preset_builds_gen (the flagship preset clause for the entry the code's own table read "
    "finds), shell_grid_default_is_slice (get_shell_grid with the declared default r_sq is the slice of points and weights), "
    "shell_grid_gen_rejects, default_arguments."
)
TECHNIQUE = "Lean 4 proof (structure theorems + kernel-decided regenerated preset table) + differential correspondence + implementation-side oracle"
GEN = ["angular_tables", "presets", "atomgrid"]
LEAN_MODULES = ["GridVerif.Props.C05", "GridVerif.Props.C05.Gen", "GridVerif.Props.C05.Gen3", "GridVerif.Props.C05.Gen6"]
THEOREMS = [
    "GridVerif.C05.indices_spec",
    "GridVerif.C05.slice_shell",
    "GridVerif.C05.init_spec",
    "GridVerif.C05.integral_factorises",
    "GridVerif.C05.integral_factorises_exact",
    "GridVerif.C05.centre_translates",
    "GridVerif.C05.rotation_preserves_radii",
    "GridVerif.C05.point_radius",
    "GridVerif.C05.weights_independent_of_rotation_and_centre",
    "GridVerif.C05.reproducible_from_seed",
    "GridVerif.C05.shell_grid_spec",
    "GridVerif.C05.shell_grid_rejects",
    "GridVerif.C05.sector_degree",
    "GridVerif.C05.built_degree_not_below_request",
    "GridVerif.C05.built_size_not_below_request",
    "GridVerif.C05.init_succeeds",
    "GridVerif.C05.preset_builds",
    "GridVerif.C05.preset_table_partial",
    "GridVerif.C05.preset_shape_fails_at_sg3_14",
    "GridVerif.C05.preset_shape_fails_at_sg0_7",
    "GridVerif.C05.preset_shape_fails_at_sg0_15",
    "GridVerif.C05.preset_request_ok",
    "GridVerif.C05.preset_request_fails_at_sg3_14",
    "GridVerif.C05.preset_sizes_supported",
    "GridVerif.C05.preset_prescribed_size",
    "GridVerif.C05.gen_find_degrees_eq_model",
    "GridVerif.C05.gen_generate_degree_eq_model",
    "GridVerif.C05.gen_input_type_check_spec",
    "GridVerif.C05.gen_init_eq_model",
    "GridVerif.C05.gen_init_int_eq_model",
    "GridVerif.C05.gen_init_bool",
    "GridVerif.C05.gen_init_npInt_rejected",
    "GridVerif.C05.gen_from_pruned_eq_model",
    "GridVerif.C05.sector_degree_gen",
    "GridVerif.C05.preset_request_sector_gen",
    "GridVerif.C05.pruned_builds",
    # round 3: get_shell_grid, _generate_atomic_grid (loop included), from_preset, default values — regenerated
    "GridVerif.C05.gen_get_shell_grid_eq_model",
    "GridVerif.C05.loop_body_ok",
    "GridVerif.C05.loop_spec",
    "GridVerif.C05.gen_generate_atomic_grid_eq_model",
    "GridVerif.C05.flatMap_expand",
    "GridVerif.C05.entries_rad_wellformed",
    "GridVerif.C05.gen_from_preset_eq_model",
    "GridVerif.C05.preset_builds_gen",
    "GridVerif.C05.shell_grid_default_is_slice",
    "GridVerif.C05.shell_grid_gen_rejects",
    "GridVerif.C05.default_arguments",
    # round 6: clauses that only the generators watched, over the regenerated text
    "GridVerif.C05.gen_shell_independent",
    "GridVerif.C05.gen_shell_unaffected_by_other_shells",
    "GridVerif.C05.gen_get_shell_grid_reads_only",
    "GridVerif.C05.gen_init_sizes_route",
]
RULE = (
    "correspondence: AtomGrid(...) / from_pruned / from_preset / get_shell_grid / _find_degrees_for_radial_points / "
    "_generate_degree_from_radius on random radial grids (unsorted, with r=0 nodes), constant / per-shell / pruned / "
    "preset degree and size sequences, 4 angular methods, random centres and rotation seeds, against the Lean model fed "
    "with the angular data AngularGrid hands out and SciPy's matrices for the seeds rotate+i; every preset x tabulated "
    "element through the model's table reader. non-trivial = at least 2 distinct shell degrees, or a non-zero seed, or a "
    "non-zero centre, or an error outcome. Round 2: every construction runs the *regenerated* constructor / from_pruned / "
    "sector lookup (Gen/AtomGrid.lean) in the driver; argument kinds: degrees / sizes as list, int64 / int32 array, tuple, "
    "None, both given; rotate as int, np.int64, True / False, float; centre as None, list of floats / ints, tuple, int / "
    "float32 array, wrong length; radial grids ascending, reversed, two rules back to back, unsorted, with repeated and "
    "r = 0 nodes, as float64 / float32 / int64 / non-contiguous / read-only arrays, with domain (0, inf), (0, rmax), None, "
    "a negative domain start, a negative node, or not a OneDGrid at all; every successful construction is repeated later "
    "in the run (other constructions in between) and compared bit for bit. Round 3: the regenerated static method "
    "_generate_atomic_grid (direct calls: rotate omitted / int incl. negative and >= 2**32 seeds / bool / NumPy integer / float, "
    "degrees as list / int64 / int32, wrong lengths, unsupported degrees, radial nodes and weights of extreme magnitude 1e-160 .. "
    "1e150 / 1e-12 .. 1e12), the regenerated from_preset (sampled (preset, Z) pairs incl. the defective and non-tabulated ones, rgrid "
    "given / None / omitted with the default radial grid, centre and rotate given or omitted) and the regenerated get_shell_grid "
    "(every construction: r_sq True / False / omitted, alternating on one index, first request with the non-default option), "
    "arguments omitted by the caller run through the regenerated default values, centres 2^10 .. 2^20 from the origin. Round 4 "
    "(oracle, each scenario a self-contained replay source): arrays of every kind inside the radial grid object and the array arguments "
    "(float32, narrow ints, uint8, bool weights, read-only, strided, negative stride, column of a Fortran array) against the float64 "
    "computation through all constructors and get_shell_grid; every documented argument combination (both alternatives given, positional / "
    "keyword, omitted / None / explicit default); one argument object (views into larger caller arrays, guard bytes) for several requests; "
    "kinds of function values for integrate (complex, float32, int, bool, longdouble); 26 kinds of rejected calls leaving no trace on the object, "
    "its radial grid and the process; radial grids from the library's transforms with trimmed ends / zero / negative / 1e14 weights and the "
    "Lebedev grids with negative weights; one and two shells, 2-point spheres, all shell sizes different; r = 0, denormal and r^2-underflowing "
    "shells with r_sq True / False / omitted in every run; corr and oracle run as independent parts"
)
TRUSTED_BASE = [
    "Lean 4.33 kernel; axioms propext, Classical.choice, Quot.sound only (audited per theorem)",
    "translator harness/translate/presets.py (branch predicate, loop arithmetic, npz tables)",
    "translator harness/translate/atomgrid.py (statement-wise AST translation of __init__ / from_pruned / _input_type_check / "
    "_generate_degree_from_radius / _find_degrees_for_radial_points over the typing context stated in its docstring; the "
    "NumPy / Python primitives it targets are hand-written in Model/AtomGrid.lean)",
    "hand model Model/AtomGrid.lean (list/flatten structure of the assembly loop), tied by correspondence and, since round 3, "
    "proved equal to the regenerated `_generate_atomic_grid` (gen_generate_atomic_grid_eq_model)",
    "round-3 primitives of Model/AtomGrid.lean (pyItem, npSetItem, npVstack / npHstack, pyForEnumerate, pyFlatMapM, pyRangeOfItem, "
    "angularGrid, rRandomMatrix, PresetWorld = _DEFAULT_POWER_RTRANSFORM_PARAMS + the two SciPy constants + the default radial transform)",
    "NumPy vstack/hstack/broadcast/slice semantics as modelled by List.flatten/map/take/drop",
]
ASSUMPTIONS = [
    "Rotation.random(random_state=s).as_matrix() is a function of s returning an orthogonal matrix (checked numerically by the oracle)",
    "AngularGrid(degree=d) hands out unit points and one weight per point (C02/C12/C19)",
    "each shell integrates the rotated harmonic exactly (C02 + closure of degree<=l harmonics under rotation): hypothesis of integral_factorises_exact",
    "radial nodes are >= 0 (negative nodes are rejected by _input_type_check)",
]

METHODS = ["lebedev", "spherical", "maxdet", "ahrens_beylkin"]
PREFIX = {"lebedev": "LEBEDEV", "spherical": "SPHERICAL", "maxdet": "MAX_DET", "ahrens_beylkin": "AHRENS_BEYLKIN"}
MAXDEG = {"lebedev": 29, "spherical": 21, "maxdet": 17, "ahrens_beylkin": 23}
RTOL = 1e-12


# ----------------------------------------------------------------------------
# helpers
# ----------------------------------------------------------------------------
def _mods():
    return (importlib.import_module("grid.atomgrid"), importlib.import_module("grid.angular"),
            importlib.import_module("grid.basegrid"))


def _supported(ang, method):
    """[(degree, size)] ascending, read from the table (no bisect)."""
    return sorted((int(d), int(s)) for s, d in getattr(ang, PREFIX[method] + "_NPOINTS").items())


def _least_degree(pairs, d):
    c = [p for p in pairs if p[0] >= d]
    return min(c) if c else None


def _least_size(pairs, s):
    c = [p for p in pairs if p[1] >= s]
    return min(c, key=lambda p: p[1]) if c else None


def _rotmat(seed):
    from scipy.spatial.transform import Rotation

    return Rotation.random(random_state=int(seed)).as_matrix()


def _rand_rgrid(ctx: Ctx, n=None):
    rng = ctx.rng
    if n is None:
        n = rng.choice([1, 1, 2, 2, 3, 3, 4, 5, 6, 8, 11])
    pts = [rng.choice([rng.uniform(0.0, 3.0), rng.uniform(0, 30.0), 10 ** rng.uniform(-6, 1.5)]) for _ in range(n)]
    style = rng.random()
    if style < 0.5:
        pts.sort()
    if rng.random() < 0.3:
        pts[rng.randrange(n)] = 0.0
    if rng.random() < 0.1 and n > 1:
        pts[1] = pts[0]
    wts = [rng.choice([rng.uniform(0.0, 2.0), rng.uniform(-0.5, 0.5), 0.0 if rng.random() < 0.2 else rng.uniform(1e-3, 1)]) for _ in range(n)]
    return np.array(pts, dtype=float), np.array(wts, dtype=float)


def _onedgrid(bg, pts, wts):
    return bg.OneDGrid(np.array(pts, dtype=float), np.array(wts, dtype=float), (0, np.inf))


def _rand_center(ctx: Ctx):
    r = ctx.rng.random()
    if r < 0.3:
        return None
    if r < 0.4:
        return np.zeros(3)
    if r < 0.52:  # far from the origin: exactly representable coordinates of magnitude 2^10 .. 2^20 (classes 8, 12)
        return np.array([float(ctx.rng.choice([-1, 1]) * 2 ** ctx.rng.randrange(10, 21) + ctx.rng.randrange(0, 4)) for _ in range(3)])
    return np.array([ctx.rng.uniform(-5, 5) for _ in range(3)])


def _rand_rotate(ctx: Ctx, n):
    r = ctx.rng.random()
    if r < 0.35:
        return 0
    if r < 0.8:
        return ctx.rng.randrange(1, 100000)
    if r < 0.9:
        return 2 ** 32 - n - 1  # largest admissible
    return ctx.rng.randrange(1, 2 ** 32 - n)


def _seq_tok(x):
    """None -> none, a str -> other (tuple, int, ...), a list -> seq"""
    if x is None:
        return "none"
    if isinstance(x, str):
        return "default" if x == "default" else "other"
    return "seq " + vec([int(v) for v in x])


def _rot_tok(kind, val):
    if kind == "default":  # argument omitted: the regenerated default value is used by the driver
        return "default"
    return {"int": f"int {int(val)}", "npint": f"npint {int(val)}", "bool": f"bool {int(bool(val))}", "other": "other"}[kind]


def _center_tok(c):
    if isinstance(c, str):
        return "default"
    return "none" if c is None else "vec " + fvec([float(v) for v in c])


def _rgrid_tok(pts, wts, is_onedgrid=True, domain=(0.0, np.inf)):
    dom = "nodom" if domain is None else f"dom {f2b(domain[0])} {f2b(domain[1])}"
    return f"{1 if is_onedgrid else 0} {dom} {fvec([float(v) for v in pts])} {fvec([float(v) for v in wts])}"


def _world(ang, method, kind, reqs, rotate, n, shellreqs):
    """The outside world handed to the model: the angular data of every degree the request can resolve to
    (brute-force minimum over the table, not the implementation's bisect), SciPy's matrices for rotate+i,
    the shell-grid requests."""
    pairs = _supported(ang, method)
    degs = set()
    for q in reqs:
        p = _least_degree(pairs, q) if kind == "deg" else _least_size(pairs, q)
        if p is not None:
            degs.add(p[0])
    data = []
    for d in sorted(degs):
        g = ang.AngularGrid(degree=d, method=method)
        data.append(f"{d} {g.size} " + " ".join(map(f2b, g.points.ravel())) + " " + " ".join(map(f2b, g.weights)))
    seeds = [rotate + i for i in range(n)] if rotate != 0 else []
    mats = [f"{s} " + " ".join(map(f2b, _rotmat(s).ravel())) for s in seeds if 0 <= s < 2 ** 32]
    return " ".join([str(len(data))] + data + [str(len(mats))] + mats
                    + [str(len(shellreqs))] + [f"{i} {'d' if b is None else 1 if b else 0}" for i, b in shellreqs])


def _ginit_line(ang, method, degrees, sizes, rot_kind, rot_val, center, pts, wts, shellreqs, is_onedgrid=True,
                domain=(0.0, np.inf)):
    """One C05.ginit line = the regenerated `AtomGrid.__init__` on Python-level arguments ("default" = argument omitted:
    the driver uses the regenerated default; the angular data / matrices are supplied for the implementation's default)."""
    if isinstance(sizes, list):
        kind, reqs = "size", sizes
    elif isinstance(degrees, list):
        kind, reqs = "deg", degrees
    elif degrees == "default" and sizes in (None, "default"):
        kind, reqs = "deg", [int(d) for d in _sig_default("__init__", "degrees")]
    else:
        kind, reqs = "deg", []
    rv = int(rot_val) if rot_kind in ("int", "npint", "bool") else int(_sig_default("__init__", "rotate")) if rot_kind == "default" else 0
    return " ".join(["C05.ginit", method, _seq_tok(degrees), _seq_tok(sizes), _center_tok(center), _rot_tok(rot_kind, rot_val),
                     _rgrid_tok(pts, wts, is_onedgrid, domain), _world(ang, method, kind, reqs, rv, len(pts), shellreqs)])


def _sig_default(fn, param):
    """the default value the implementation declares (read from the signature, never typed in here)"""
    import inspect

    ag = importlib.import_module("grid.atomgrid")
    return inspect.signature(getattr(ag.AtomGrid, fn)).parameters[param].default


def _build_line(ang, method, kind, reqs, rotate, center, pts, wts, shellreqs):
    """plain call `AtomGrid(rgrid, degrees=reqs | None, sizes=reqs | None, center, rotate: int)`"""
    return _ginit_line(ang, method, list(reqs) if kind == "deg" else None, list(reqs) if kind == "size" else None,
                       "int", rotate, center, pts, wts, shellreqs)


def _gpruned_line(ang, method, dsec, ssec, radius, rsect, center, rotate, pts, wts, degs_for_data, shellreqs):
    """One C05.gpruned line = the regenerated `AtomGrid.from_pruned`."""
    opt = lambda x: "none" if x is None else "seq " + vec([int(v) for v in x])  # noqa: E731
    return " ".join(["C05.gpruned", method, opt(dsec), opt(ssec), f2b(radius), fvec(rsect), _center_tok(center),
                     _rot_tok("int", rotate), _rgrid_tok(pts, wts), _world(ang, method, "deg", degs_for_data, rotate, len(pts), shellreqs)])


class Ans:
    """Parsed answer of C05.build."""

    def __init__(self, line):
        t = line.split()
        self.tag = t[0]
        self.shell = []
        if self.tag != "ok":
            return
        self.t, self.i = t, 1
        self.indices = self._nats()
        self.degrees = self._nats()
        self.size = int(self._tok())
        self.points = self._mat()
        self.weights = self._floats()
        while self.i < len(self.t):
            tg = self._tok()
            if tg == "sg-ok":
                p = self._mat()
                w = self._floats()
                self.shell.append(("ok", p, w))
            else:
                self.shell.append((tg[3:], None, None))

    def _tok(self):
        v = self.t[self.i]
        self.i += 1
        return v

    def _nats(self):
        n = int(self._tok())
        v = [int(x) for x in self.t[self.i:self.i + n]]
        self.i += n
        return v

    def _floats(self, n=None):
        if n is None:
            n = int(self._tok())
        v = np.array([int(x) for x in self.t[self.i:self.i + n]], dtype=np.uint64).view(np.float64)
        self.i += n
        return v

    def _mat(self):
        r = int(self._tok())
        c = int(self._tok())
        return self._floats(r * c).reshape(r, c)


def _arr_close(a, b, scale, rtol=RTOL):
    a = np.asarray(a, dtype=float)
    b = np.asarray(b, dtype=float)
    if a.shape != b.shape:
        return False
    if a.size == 0:
        return True
    return bool(np.all(np.abs(a - b) <= rtol * scale + 1e-300))


def _exc_tag(e):
    return {ValueError: "value-error", IndexError: "index-error", TypeError: "type-error", KeyError: "key-error"}.get(type(e), type(e).__name__)


def _compare_grid(ctx, key, case, impl_fn, ans: Ans, pts, center, shellreqs):
    """impl_fn() -> AtomGrid or raises; compare with the model's answer."""
    try:
        g = impl_fn()
        impl = "ok"
    except (ValueError, IndexError, TypeError, KeyError) as e:
        g, impl = None, _exc_tag(e)
    if impl != ans.tag:
        ctx.fail("corr", key, f"{case}: implementation {impl}, model {ans.tag}", witness=case)
        return None
    if g is None:
        return None
    bad = []
    if [int(x) for x in g.indices] != ans.indices:
        bad.append(f"indices {list(map(int, g.indices))[:8]} vs model {ans.indices[:8]}")
    if [int(x) for x in g.degrees] != ans.degrees:
        bad.append(f"degrees {list(map(int, g.degrees))[:8]} vs model {ans.degrees[:8]}")
    if int(g.size) != ans.size:
        bad.append(f"size {g.size} vs model {ans.size}")
    cn = 0.0 if center is None else float(np.max(np.abs(center)))
    pscale = max(float(np.max(np.abs(pts))) if len(pts) else 0.0, cn, 1e-300)
    if not _arr_close(g.points, ans.points, pscale):
        bad.append("points differ" + _first_diff(g.points, ans.points))
    if not _arr_close(g.weights, ans.weights, np.maximum(np.abs(ans.weights), np.abs(g.weights)) if g.weights.shape == ans.weights.shape else 1.0):
        bad.append("weights differ" + _first_diff(g.weights, ans.weights))
    for (idx, rsq), (tag, mp, mw) in zip(shellreqs, ans.shell):
        try:
            sg = g.get_shell_grid(idx) if rsq is None else g.get_shell_grid(idx, r_sq=rsq)  # None: r_sq left at its default
            itag = "ok"
        except (ValueError, IndexError, TypeError) as e:
            sg, itag = None, _exc_tag(e)
        if itag != tag:
            bad.append(f"get_shell_grid({idx}, r_sq={rsq}): implementation {itag}, model {tag}")
        elif sg is not None:
            if not _arr_close(sg.points, mp, pscale):
                bad.append(f"get_shell_grid({idx}).points differ" + _first_diff(sg.points, mp))
            if not _arr_close(sg.weights, mw, np.maximum(np.abs(mw), np.abs(sg.weights)) if sg.weights.shape == mw.shape else 1.0):
                bad.append(f"get_shell_grid({idx}, r_sq={rsq}).weights differ" + _first_diff(sg.weights, mw))
    if len(ans.shell) != len(shellreqs):
        bad.append("model answered a different number of shell grids")
    for b in bad[:2]:
        ctx.fail("corr", key, f"{case}: {b}", witness=case)
    return g


def _first_diff(a, b):
    a, b = np.asarray(a), np.asarray(b)
    if a.shape != b.shape:
        return f" (shape {a.shape} vs {b.shape})"
    d = np.abs(a - b)
    k = np.unravel_index(np.argmax(d), d.shape)
    return f" (largest at {tuple(int(x) for x in k)}: implementation {a[k]!r}, model {b[k]!r})"


def _shellreqs(ctx, n):
    # first request of a fresh object: r_sq False / omitted / True in turn (class 11), then alternating options on one
    # index (class 10: a memo keyed by the index only would show)
    first = ctx.rng.choice([False, None, True])
    k = ctx.rng.randrange(n)
    rq = [(k, first), (k, not first if first is not None else False), (k, first), (n - 1, True), (0, False), (0, None)]
    if ctx.rng.random() < 0.4:
        rq.append((ctx.rng.choice([-1, n, n + 3, -n]), True))
    return rq


# ----------------------------------------------------------------------------
# round 4: independent parts (an exception in one part must not hide what the others find)
# ----------------------------------------------------------------------------
class _Parts:
    """Runs the parts of `corr` / `oracle` one after the other.  An exception raised *by the library* inside a part (its
    inputs are inside the envelope the part documents) is recorded as a failure `<part>:raises` with the traceback as
    witness; any other exception (harness, driver, translator) is kept and the first one is re-raised after every part
    has run, so that the runner still sees it."""

    def __init__(self, ctx: Ctx, stage: str, prefix: str):
        self.ctx, self.stage, self.prefix, self.first = ctx, stage, prefix, None

    def run(self, name, fn, *args):
        import traceback
        from ..common import DriverError

        try:
            fn(*args)
        except DriverError as e:
            self.first = self.first or e
        except Exception as e:  # noqa: BLE001
            frames = traceback.extract_tb(e.__traceback__)
            in_lib = any(("/grid/" in f.filename or "site-packages" in f.filename) and "/harness/" not in f.filename for f in frames) \
                and not isinstance(e, (NameError, UnboundLocalError))
            if in_lib:
                key = f"{self.prefix}:{_slug(name)}:raises"
                self.ctx.fail(self.stage, key, f"{name}: the library raised {type(e).__name__}: {str(e)[:300]} on an input inside the documented envelope",
                              witness="".join(traceback.format_exception(type(e), e, e.__traceback__))[-2500:])
            else:
                self.first = self.first or e

    def finish(self):
        if self.first is not None:
            raise self.first


def _slug(name):
    return re.sub(r"[^a-z0-9]+", "-", name.lower()).strip("-")[:60]


# ----------------------------------------------------------------------------
# correspondence
# ----------------------------------------------------------------------------
def _preset_tables():
    """{preset: {Z: (rad, npt, nshell)}} read straight from the npz files."""
    out = {}
    for f in sorted((SRC / "data" / "prune_grid").glob("prune_grid_*.npz")):
        p = re.fullmatch(r"prune_grid_(\w+)\.npz", f.name).group(1)
        with np.load(f) as z:
            keys = list(z.keys())
            tab = {}
            for k in keys:
                m = re.fullmatch(r"(\d+)_rad", k)
                if m:
                    at = int(m.group(1))
                    tab[at] = (np.array(z[k]), np.array(z[f"{at}_npt"]),
                               int(z[f"{at}_nshell"]) if f"{at}_nshell" in keys else None)
            out[p] = (tab, {k: np.array(z[k]) for k in keys if not re.fullmatch(r"\d+_(rad|npt|nshell)", k)})
    return out


def _preset_rgrid_points(ctx, rad, nshell, exact=True):
    if rad.dtype.kind == "i":
        n = int(rad.sum()) if exact else max(1, int(rad.sum()) + ctx.rng.choice([-1, 1]))
        hi = ctx.rng.choice([12.0, 90.0])  # radial grids reach far out (a shell count read as a radius must show)
    else:
        n = nshell if nshell else 20
        hi = float(rad.max()) * 1.3
    pts = np.sort(np.array([ctx.rng.uniform(0, hi) for _ in range(n)]))
    if rad.dtype.kind == "i" and ctx.rng.random() < 0.8:
        pts[-1] = max(pts[-1], 1.5 * float(rad.max()))  # beyond every shell count, should one be read as a radius
    if rad.dtype.kind != "i" and ctx.rng.random() < 0.5 and n > 2:
        pts[ctx.rng.randrange(n)] = float(rad[ctx.rng.randrange(len(rad))])  # a node on a sector bound
        pts = np.sort(pts)
    return pts


def corr(ctx: Ctx):
    ag, ang, bg = _mods()
    AtomGrid = ag.AtomGrid
    rng = ctx.rng

    parts = _Parts(ctx, 'corr', 'corr')
    # ---- 1. constructor on random inputs -------------------------------------------------
    def _part0():
        cases = []
        for k in range(ctx.n(300, 5000)):
            method = METHODS[k % 4] if k < 40 else rng.choice(METHODS)
            pts, wts = _rand_rgrid(ctx, n=(1 + k % 3) if k < 24 else None)
            if k % 10 == 9:  # r = 0, denormal, r^2 underflowing / denormal, huge nodes (each with r_sq False / omitted / True shell requests)
                pts, wts = _extreme_rgrid(ctx)
            n = len(pts)
            pairs = _supported(ang, method)
            dmax = MAXDEG[method] if rng.random() < 0.93 else 41
            smax = max(s for d, s in pairs if d <= dmax)
            shape = rng.choice(["const", "list", "list", "sizes", "sizes-const", "badlen", "toolarge"] if k >= 12 else ["const", "list", "sizes"])
            kind = "size" if shape.startswith("sizes") else "deg"
            if shape == "const":
                reqs = [rng.randrange(0, dmax + 1)]
            elif shape == "list":
                pool = [rng.randrange(0, dmax + 1) for _ in range(rng.randrange(1, 4))]
                reqs = [rng.choice(pool) for _ in range(n)]
            elif shape == "sizes":
                pool = [rng.randrange(0, smax + 1) for _ in range(rng.randrange(1, 4))]
                reqs = [rng.choice(pool) for _ in range(n)]
            elif shape == "sizes-const":
                reqs = [rng.randrange(0, smax + 1)]
            elif shape == "badlen":
                L = rng.choice([x for x in (n + 1, n + 2, n - 1, 0) if x not in (1, n) and x >= 0])
                reqs = [rng.randrange(0, 12) for _ in range(L)]
            else:
                kind = rng.choice(["deg", "size"])
                big = (max(d for d, _ in pairs) if kind == "deg" else max(s for _, s in pairs)) + rng.randrange(1, 5)
                reqs = [rng.randrange(0, 8) for _ in range(n)]
                reqs[rng.randrange(n)] = big
            center = _rand_center(ctx)
            rotate = _rand_rotate(ctx, n)
            if rng.random() < 0.04:
                rotate = 2 ** 32 - n + rng.randrange(0, 3)  # rejected
            sreq = _shellreqs(ctx, n)
            cases.append((method, kind, reqs, rotate, center, pts, wts, sreq, shape))
        lines = [_build_line(ang, m, kd, rq, rot, c, p, w, sr) for (m, kd, rq, rot, c, p, w, sr, _) in cases]
        answers = driver_batch(lines)
        for (m, kd, rq, rot, c, p, w, sr, shape), line in zip(cases, answers):
            case = {"op": "AtomGrid", "method": m, ("degrees" if kd == "deg" else "sizes"): rq, "rotate": rot,
                    "center": None if c is None else c.tolist(), "rgrid_points": p.tolist(), "rgrid_weights": w.tolist()}
            if line == "bad-op":
                ctx.fail("corr", "AtomGrid.__init__", f"{case}: the model could not run (bad-op)", witness=case)
                continue
            a = Ans(line)

            def impl(m=m, kd=kd, rq=rq, rot=rot, c=c, p=p, w=w):
                rgrid = _onedgrid(bg, p, w)
                if kd == "deg":
                    return AtomGrid(rgrid, degrees=list(rq), center=c, rotate=rot, method=m)
                return AtomGrid(rgrid, None, sizes=list(rq), center=c, rotate=rot, method=m)

            _compare_grid(ctx, "AtomGrid.__init__", case, impl, a, p, c, sr)
            nontriv = a.tag != "ok" or len(set(a.degrees)) >= 2 or rot != 0 or (c is not None and np.any(c != 0))
            ctx.count(case, nontrivial=nontriv,
                      tag=f"init:{m}:{shape}:" + ("rot" if rot else "norot") + (":r0" if np.any(p == 0) else "") + (":" + a.tag if a.tag != "ok" else ""))
    parts.run('constructor on random inputs', _part0)

    # ---- 2. sector lookup ------------------------------------------------------------------
    def _part1():
        sect_cases = []
        for k in range(ctx.n(300, 6000)):
            S = rng.randrange(0, 6)
            bounds = sorted(rng.uniform(0, 10) for _ in range(S))
            if rng.random() < 0.15:
                rng.shuffle(bounds)
            if S >= 2 and rng.random() < 0.1:
                bounds[1] = bounds[0]
            n = rng.randrange(1, 8)
            rp = [rng.choice(bounds) if bounds and rng.random() < 0.35 else rng.uniform(0, 12) for _ in range(n)]
            L = S + 1 if rng.random() < 0.85 else rng.randrange(1, S + 3)
            ds = [rng.randrange(1, 60) for _ in range(L)]
            sect_cases.append((rp, bounds, ds))
        answers = driver_batch([f"C05.sectors {fvec(rp)} {fvec(b)} {vec(ds)}" for rp, b, ds in sect_cases])
        for (rp, b, ds), line in zip(sect_cases, answers):
            try:
                v = AtomGrid._find_degrees_for_radial_points(np.array(rp), np.array(b, dtype=float), np.array(ds))
                impl = "ok " + vec(int(x) for x in v)
            except IndexError:
                impl = "index-error"
            case = {"op": "_find_degrees_for_radial_points", "radial_points": rp, "r_sectors": b, "d_sectors": ds}
            ctx.count(case, nontrivial=len(b) >= 1, tag="sectors:" + ("ok" if impl.startswith("ok") else impl) + (":on-bound" if set(rp) & set(b) else ""))
            if impl != line:
                ctx.fail("corr", "AtomGrid._find_degrees_for_radial_points", f"{case}: implementation {impl}, model {line}", witness=case)
    parts.run('sector lookup', _part1)

    # ---- 3. from_pruned ----------------------------------------------------------------------
    def _part2():
        pr_cases = []
        for k in range(ctx.n(120, 2400)):
            method = rng.choice(METHODS)
            pairs = _supported(ang, method)
            pts, wts = _rand_rgrid(ctx)
            S = rng.randrange(0, 5)
            rsect = sorted(rng.uniform(0.05, 4) for _ in range(S))
            radius = rng.choice([1.0, rng.uniform(0.3, 3.0)])
            if S and rng.random() < 0.4:
                pts[rng.randrange(len(pts))] = rsect[rng.randrange(S)] * radius
            kind = rng.choice(["deg", "deg", "size"])
            L = S + 1 if rng.random() < 0.85 else max(0, S + rng.choice([0, 2]))
            dmax = MAXDEG[method]
            smax = max(s for d, s in pairs if d <= dmax)
            sect = [rng.randrange(0, (dmax if kind == "deg" else smax) + 1) for _ in range(L)]
            if rng.random() < 0.06 and L:
                sect[rng.randrange(L)] = (max(d for d, _ in pairs) if kind == "deg" else max(s for _, s in pairs)) + 1
            pr_cases.append((method, kind, sect, radius, rsect, pts, wts, _rand_center(ctx), _rand_rotate(ctx, len(pts))))
        answers = driver_batch([f"C05.pruned {m} {kd} {vec(s)} {f2b(rad)} {fvec(rs)} {fvec(p)}" for m, kd, s, rad, rs, p, w, c, rot in pr_cases])
        follow = []
        for (m, kd, s, rad, rs, p, w, c, rot), line in zip(pr_cases, answers):
            case = {"op": "from_pruned", "method": m, ("d_sectors" if kd == "deg" else "s_sectors"): s, "radius": rad,
                    "r_sectors": rs, "rgrid_points": p.tolist(), "rgrid_weights": w.tolist(), "rotate": rot,
                    "center": None if c is None else c.tolist()}
            try:
                rgrid = _onedgrid(bg, p, w)
                dsec = s if kd == "deg" else ang.AngularGrid.convert_angular_sizes_to_degrees(np.array(s, dtype=int), m)
                v = AtomGrid._generate_degree_from_radius(rgrid, rad, rs, dsec, m)
                impl = "ok " + vec(int(x) for x in v)
            except (ValueError, IndexError) as e:
                impl = _exc_tag(e)
            ctx.count(case, nontrivial=True, tag=f"pruned:{m}:{kd}:" + ("ok" if impl.startswith("ok") else impl))
            if impl != line:
                ctx.fail("corr", "AtomGrid._generate_degree_from_radius", f"{case}: implementation {impl}, model {line}", witness=case)
            elif impl.startswith("ok") and len(follow) < ctx.n(25, 300):
                follow.append(((m, kd, s, rad, rs, p, w, c, rot), [int(x) for x in line.split()[2:]], case))
        lines = [_gpruned_line(ang, m, s if kd == "deg" else None, s if kd == "size" else None, rad, rs, c, rot, p, w, degs, [(0, True)])
                 for (m, kd, s, rad, rs, p, w, c, rot), degs, _ in follow]
        answers = driver_batch(lines)
        for ((m, kd, s, rad, rs, p, w, c, rot), degs, case), line in zip(follow, answers):
            if line == "bad-op":
                ctx.fail("corr", "AtomGrid.from_pruned", f"{case}: the model could not run (bad-op)", witness=case)
                continue

            def impl(m=m, kd=kd, s=s, rad=rad, rs=rs, p=p, w=w, c=c, rot=rot):
                rgrid = _onedgrid(bg, p, w)
                if kd == "deg":
                    return AtomGrid.from_pruned(rgrid, rad, r_sectors=rs, d_sectors=s, center=c, rotate=rot, method=m)
                return AtomGrid.from_pruned(rgrid, rad, r_sectors=rs, d_sectors=None, s_sectors=s, center=c, rotate=rot, method=m)

            a = Ans(line)
            _compare_grid(ctx, "AtomGrid.from_pruned", case, impl, a, p, c, [(0, True)])
            ctx.count(dict(case, full=True), nontrivial=True, tag="pruned:full-grid")
    parts.run('from_pruned', _part2)

    # ---- 4. presets: every (preset, element) through the table reader ---------------------------
    def _part3():
        tabs = _preset_tables()
        pairs_pz = [(p, z) for p in sorted(tabs) for z in sorted(tabs[p][0])]
        defective = [("sg_3", 14), ("sg_0", 7), ("sg_0", 15)]
        pcases = []
        for p, z in pairs_pz:
            rad, npt, nshell = tabs[p][0][z]
            for method in (METHODS if ctx.thorough else [rng.choice(METHODS) if rng.random() < 0.3 else "lebedev"]):
                exact = rng.random() < 0.93
                pcases.append((p, z, method, _preset_rgrid_points(ctx, rad, nshell, exact)))
        # a name / element that is not tabulated
        pcases.append(("sg_1", 85, "lebedev", np.linspace(0.1, 5, 50)))
        answers = driver_batch([f"C05.preset {p} {z} {m} {fvec(rp)}" for p, z, m, rp in pcases]
                               + [f"C05.branch {p} {z}" for p, z, m, rp in pcases]
                               + [f"C05.prescribed {p} {z}" for p, z, m, rp in pcases]
                               + [f"C05.entry {p} {z}" for p, z, m, rp in pcases])
        npc = len(pcases)
        full = []
        for k, (p, z, m, rp) in enumerate(pcases):
            line, branch, presc, entry = answers[k], answers[npc + k], answers[2 * npc + k], answers[3 * npc + k]
            case = {"op": "from_preset", "preset": p, "atnum": z, "method": m, "rgrid_points": rp.tolist()}
            rgrid = _onedgrid(bg, rp, np.ones(len(rp)))
            try:
                g = AtomGrid.from_preset(z, p, rgrid, method=m)
                impl = "ok"
            except (ValueError, IndexError, TypeError, KeyError) as e:
                g, impl = None, _exc_tag(e)
            ctx.count(case, nontrivial=True, tag=f"preset:{p}:" + (branch.split()[-1] if branch.startswith("ok") else branch) + (":" + impl if impl != "ok" else ""))
            # the table as the translator carried it
            if p in tabs and z in tabs[p][0]:
                rad, npt, nshell = tabs[p][0][z]
                et = entry.split()
                want = ["ok", str(len(rad)), str(len(npt)), "1" if rad.dtype.kind == "i" else "0",
                        str(int(rad.sum()) if rad.dtype.kind == "i" else 0)] + vec(int(x) for x in npt).split() + fvec(rad.astype(float)).split()
                if et != want:
                    ctx.fail("corr", f"prune_grid:{p}:table", f"Gen/Presets entry of ({p}, Z={z}) differs from the data file", witness={"entry": entry[:300]})
                # prescribed radial size = _get_rgrid_size
                try:
                    ps = "ok " + str(int(ag._get_rgrid_size(p, z)[0]))
                except ValueError:
                    ps = "ok none"
                if ps != presc:
                    ctx.fail("corr", "atomgrid._get_rgrid_size", f"_get_rgrid_size({p!r}, {z}) = {ps}, model {presc}", witness=case)
            mtag = line.split()[0] if line != "bad-op" else "bad-op"
            if mtag == "ok":
                req_kind, req = line.split()[1], [int(x) for x in line.split()[3:]]
                # the model's request goes through the model constructor: degrees only here
                full.append((p, z, m, rp, req_kind, req, g, impl, case))
            elif mtag != impl:
                ctx.fail("corr", "AtomGrid.from_preset", f"{case}: implementation {impl}, model {mtag}", witness=case)
        # model constructor on the requests the table reader produced; full grids compared for small
        # ones, degrees/indices for all (the angular data is only needed for the sizes of the shells)
        nfull = ctx.n(10, 120)
        order = sorted(range(len(full)), key=lambda i: (len(full[i][5]) * max(full[i][5] + [1]), i))
        pick = set(order[:nfull // 2]) | set(rng.sample(range(len(full)), min(len(full), nfull - nfull // 2)))
        lines, meta = [], []
        for i, (p, z, m, rp, rk, req, g, impl, case) in enumerate(full):
            kind = "deg" if rk == "degrees" else "size"
            big = sum(req) if kind == "size" else 0
            if i in pick and big < 15000 and (g is None or g.size < 15000):
                lines.append(_build_line(ang, m, kind, req, 0, None, rp, np.ones(len(rp)), [(0, True)]))
                meta.append((i, True))
            else:
                meta.append((i, False))
        answers = driver_batch(lines)
        ai = 0
        for (i, isfull) in meta:
            p, z, m, rp, rk, req, g, impl, case = full[i]
            if isfull:
                line = answers[ai]
                ai += 1
                if line == "bad-op":
                    ctx.fail("corr", "AtomGrid.from_preset", f"{case}: the model could not run (bad-op)", witness=case)
                    continue
                a = Ans(line)
                _compare_grid(ctx, "AtomGrid.from_preset", case, (lambda g=g, impl=impl: g if g is not None else _raise(impl)), a, rp, None, [(0, True)])
                ctx.count(dict(case, full=True), nontrivial=True, tag="preset:full-grid")
            else:
                # degrees through the brute-force resolution of the model's request
                pairs = _supported(ang, m)
                if rk == "sizes":
                    res = [_least_size(pairs, s) for s in req]
                else:
                    res = [_least_degree(pairs, d) for d in req]
                if len(req) == 1:
                    res = res * len(rp)
                if any(r is None for r in res) or len(res) != len(rp):
                    mt = "value-error"
                else:
                    mt = "ok"
                if mt != impl:
                    ctx.fail("corr", "AtomGrid.from_preset", f"{case}: implementation {impl}, model request {rk} gives {mt}", witness=case)
                elif g is not None:
                    if [int(d) for d in g.degrees] != [r[0] for r in res]:
                        ctx.fail("corr", "AtomGrid.from_preset", f"{case}: degrees differ from the model's table reading", witness=case)
                    if [int(x) for x in np.diff(g.indices)] != [r[1] for r in res]:
                        ctx.fail("corr", "AtomGrid.from_preset", f"{case}: shell sizes differ from the model's table reading", witness=case)
        ctx.extra["presets_pairs_checked"] = len(pairs_pz)
    parts.run('presets: every (preset, element) through the table reader', _part3)

    # ---- 5. argument kinds, radial orders, repeated constructions (round 2)
    def _part4():
        _corr_kinds(ctx, ag, ang, bg)
    parts.run('argument kinds, radial orders, repeated constructions (round 2)', _part4)

    # ---- 6. the regenerated static method / from_preset / default values (round 3)
    def _part5():
        _corr_round3(ctx, ag, ang, bg)
    parts.run('the regenerated static method / from_preset / default values (round 3)', _part5)

    parts.finish()

# ----------------------------------------------------------------------------
# round 2: argument kinds, radial orders, repeated constructions
# ----------------------------------------------------------------------------
ORDERS = ["ascending", "reversed", "two-rules", "unsorted", "repeated"]


def _ordered_rgrid(ctx: Ctx, order):
    """radial nodes in an explicit order (the API does not require any) with positive weights"""
    rng = ctx.rng
    n = rng.choice([2, 3, 4, 5, 7])
    pts = sorted(rng.choice([rng.uniform(0.0, 3.0), rng.uniform(0, 12.0)]) for _ in range(n))
    if rng.random() < 0.25:
        pts[0] = 0.0
    if order == "reversed":
        pts = pts[::-1]
    elif order == "two-rules":  # e.g. two quadrature rules glued: ascending, then ascending again from below
        k = rng.randrange(1, n)
        pts = pts[k:] + pts[:k]
    elif order == "unsorted":
        rng.shuffle(pts)
    elif order == "repeated":
        pts[rng.randrange(n)] = pts[rng.randrange(n)]
        rng.shuffle(pts)
    wts = [rng.uniform(0.05, 2.0) for _ in range(n)]
    return np.array(pts, dtype=float), np.array(wts, dtype=float)


def _exact32(ctx, lo, hi):
    """a value exactly representable in float32 (so that float32 / int inputs equal their float64 value)"""
    return round(ctx.rng.uniform(lo, hi) * 64) / 64


def _py_seq(ctx: Ctx, xs, kind):
    return {"list": list(xs), "int64": np.array(xs, dtype=np.int64), "int32": np.array(xs, dtype=np.int32),
            "tuple": tuple(xs), "readonly": _readonly(np.array(xs, dtype=np.int64))}[kind]


def _readonly(a):
    a.flags.writeable = False
    return a


def _py_rgrid(ctx: Ctx, bg, pts, wts, dkind, domain):
    """OneDGrid over arrays of the requested dtype / layout; the model sees the float64 values"""
    if dkind == "float32":
        P, W = np.array(pts, dtype=np.float32), np.array(wts, dtype=np.float32)
    elif dkind == "int64":
        P, W = np.array(pts, dtype=np.int64), np.array(wts, dtype=np.int64)
    elif dkind == "noncontig":
        P, W = np.repeat(np.array(pts, dtype=float), 2)[::2], np.repeat(np.array(wts, dtype=float), 3)[::3]
    elif dkind == "readonly":
        P, W = _readonly(np.array(pts, dtype=float)), _readonly(np.array(wts, dtype=float))
    elif dkind == "negstride":  # views with a negative stride
        P, W = np.array(pts, dtype=float)[::-1].copy()[::-1], np.array(wts, dtype=float)[::-1].copy()[::-1]
    else:
        P, W = np.array(pts, dtype=float), np.array(wts, dtype=float)
    return bg.OneDGrid(P, W, domain)


def _corr_kinds(ctx: Ctx, ag, ang, bg):
    """AGENT_ROUND2 classes 1 (state), 2 (dtype / container), 3 (identity), 5 (order), 6 (call paths) for the
    constructor and from_pruned: the model is the *regenerated* code run on the same Python-level arguments."""
    AtomGrid = ag.AtomGrid
    rng = ctx.rng
    parts = _Parts(ctx, 'corr', 'corr-kinds')
    # ---- the constructor on every argument kind, then every successful construction again ---------------------------
    def _part0():
        cases = []
        for k in range(ctx.n(220, 3000)):
            method = METHODS[k % 4] if k < 16 else rng.choice(METHODS)
            pairs = _supported(ang, method)
            order = ORDERS[k % len(ORDERS)] if k < 40 else rng.choice(ORDERS)
            pts, wts = _ordered_rgrid(ctx, order)
            dkind = rng.choice(["float64", "float64", "float32", "int64", "noncontig", "readonly", "negstride"])
            if dkind in ("float32", "int64"):
                q = 1 if dkind == "int64" else 64
                pts = np.array([round(v * q) / q for v in pts])
                wts = np.array([max(1, round(v * q)) / q for v in wts])
            n = len(pts)
            # domain / acceptance of the radial grid
            rk = rng.random()
            is_one, domain, rkind = True, (0.0, np.inf), "dom0inf"
            if rk < 0.12:
                domain, rkind = None, "nodom"
            elif rk < 0.22:
                domain, rkind = (0.0, float(np.max(pts)) + 1.0), "dom0max"
            elif rk < 0.25:
                domain, rkind = (-1.0, float(np.max(pts)) + 1.0), "domneg"
            elif rk < 0.28:
                domain, rkind = None, "negnode"
                pts = pts.copy()
                pts[rng.randrange(n)] = -float(rng.randrange(1, 3)) if dkind == "int64" else rng.choice([-0.015625, -0.5, -1.0, -float(_exact32(ctx, 0.1, 2.0))])
            elif rk < 0.30:
                is_one, rkind = False, "notonedgrid"
            dmax = MAXDEG[method]
            smax = max(s for d, s in pairs if d <= dmax)
            # request
            form = rng.choice(["deg", "deg", "deg", "deg1", "size", "size", "size1", "both", "both", "default+size"] + (["none", "empty"] if rng.random() < 0.2 else [])
                              + (["default"] if rng.random() < 0.08 and n <= 3 and method == "lebedev" else []))
            degrees = sizes = None
            if form == "deg":
                degrees = [rng.randrange(0, dmax + 1) for _ in range(n)]
            elif form == "deg1":
                degrees = [rng.randrange(0, dmax + 1)]
            elif form == "size":
                sizes = [rng.randrange(0, smax + 1) for _ in range(n)]
            elif form == "size1":
                sizes = [rng.randrange(0, smax + 1)]
            elif form == "both":  # sizes win, whatever the degrees are (even of a wrong length)
                degrees = [rng.randrange(0, dmax + 1) for _ in range(rng.choice([n, 1, n + 1]))]
                sizes = [rng.randrange(0, smax + 1) for _ in range(rng.choice([n, n, 1]))]
            elif form == "default+size":
                degrees, sizes = "default", [rng.randrange(0, smax + 1) for _ in range(n)]
            elif form == "empty":
                degrees = []
            elif form == "default":  # neither degrees nor sizes given
                degrees = "default"
            dk = rng.choice(["list", "list", "int64", "int64", "int32", "int32", "readonly", "readonly", "tuple"])
            sk = rng.choice(["list", "list", "int64", "int64", "int32", "int32", "readonly", "readonly", "tuple"])
            # rotate
            rot_kind = rng.choice(["int"] * 7 + ["bool", "bool", "bool", "npint", "other", "default", "default"])
            if rot_kind == "bool":
                rot_val = rng.random() < 0.6
            elif rot_kind == "other":
                rot_val = 3.0
            elif rot_kind == "default":  # rotate omitted
                rot_val = None
            else:
                rot_val = rng.choice([0, 0, rng.randrange(1, 100000), rng.randrange(1, 100000), 2 ** 32 - n - 1, 2 ** 32 - n])
            # centre
            ck = rng.choice(["none", "omitted", "list", "intlist", "tuple", "intarray", "float32", "array", "readonly"] * 3 + ["short", "long"])
            cvals = [float(_exact32(ctx, -4, 4)) for _ in range(3)]
            if ck in ("intlist", "intarray"):
                cvals = [float(rng.randrange(-4, 5)) for _ in range(3)]
            if ck == "short":
                cvals = cvals[:2]
            if ck == "long":
                cvals = cvals + [1.0]
            center = None if ck == "none" else "omitted" if ck == "omitted" else cvals
            cases.append(dict(method=method, order=order, pts=pts, wts=wts, dkind=dkind, is_one=is_one, domain=domain, rkind=rkind,
                              form=form, degrees=degrees, sizes=sizes, dk=dk, sk=sk, rot_kind=rot_kind, rot_val=rot_val, ck=ck,
                              center=center, sreq=_shellreqs(ctx, n)))

        def tok_seq(x, kind):
            if x is None:
                return None
            if x == "default":
                return "default"
            return "tuple" if kind == "tuple" else list(x)

        lines = [_ginit_line(ang, c["method"], tok_seq(c["degrees"], c["dk"]), tok_seq(c["sizes"], c["sk"]), c["rot_kind"], c["rot_val"],
                             c["center"], c["pts"], c["wts"], c["sreq"], c["is_one"], c["domain"]) for c in cases]
        answers = driver_batch(lines)
        rebuilt = []
        for c, line in zip(cases, answers):
            case = {"op": "AtomGrid", "method": c["method"], "radial_order": c["order"], "rgrid_dtype": c["dkind"], "rgrid_kind": c["rkind"],
                    "rgrid_points": c["pts"].tolist(), "rgrid_weights": c["wts"].tolist(), "degrees": c["degrees"], "degrees_as": c["dk"],
                    "sizes": c["sizes"], "sizes_as": c["sk"], "rotate": [c["rot_kind"], c["rot_val"]], "center": c["center"], "center_as": c["ck"]}
            if line == "bad-op":
                ctx.fail("corr", "AtomGrid.__init__:kinds", f"{case}: the model could not run (bad-op)", witness=case)
                continue
            a = Ans(line)

            def impl(c=c):
                if not c["is_one"]:
                    rgrid = bg.Grid(np.array(c["pts"], dtype=float), np.array(c["wts"], dtype=float))
                else:
                    rgrid = _py_rgrid(ctx, bg, c["pts"], c["wts"], c["dkind"], c["domain"])
                kw = {}
                if c["degrees"] != "default":
                    kw["degrees"] = None if c["degrees"] is None else _py_seq(ctx, c["degrees"], c["dk"])
                if c["sizes"] is not None:
                    kw["sizes"] = _py_seq(ctx, c["sizes"], c["sk"])
                cen = c["center"]
                if c["ck"] == "omitted":
                    cen = None
                elif cen is not None:
                    cen = {"list": list(cen), "intlist": [int(v) for v in cen], "tuple": tuple(cen), "intarray": np.array(cen, dtype=np.int64),
                           "float32": np.array(cen, dtype=np.float32), "array": np.array(cen), "short": list(cen), "long": list(cen),
                           "readonly": _readonly(np.array(cen))}[c["ck"]]
                if c["ck"] != "omitted":
                    kw["center"] = cen
                if c["rot_kind"] != "default":
                    kw["rotate"] = {"int": lambda v: int(v), "npint": np.int64, "bool": bool, "other": lambda v: v}[c["rot_kind"]](c["rot_val"])
                return AtomGrid(rgrid, method=c["method"], **kw)

            cen_arr = None if c["center"] is None or isinstance(c["center"], str) or len(c["center"]) != 3 else np.array(c["center"])
            g = _compare_grid(ctx, "AtomGrid.__init__:kinds", case, impl, a, np.abs(c["pts"]), cen_arr, c["sreq"])
            tag = (f"kinds:{c['order']}:{c['dkind']}:{c['rkind']}:{c['form']}:deg-{c['dk']}:size-{c['sk']}:rot-{c['rot_kind']}:center-{c['ck']}"
                   + (":" + a.tag if a.tag != "ok" else ""))
            ctx.count(case, nontrivial=True, tag=tag)
            if g is not None:
                if g.points.dtype != np.float64 or g.weights.dtype != np.float64:
                    ctx.fail("corr", "AtomGrid.__init__:dtype", f"{case}: points / weights are {g.points.dtype} / {g.weights.dtype}, not float64", witness=case)
                rebuilt.append((impl, g, case))
        # class 1 (state carried between calls): every successful construction again, in reverse order, after all the
        # others (same degrees under other methods / seeds / centres in between): bit for bit the same grid
        for impl, g, case in reversed(rebuilt):
            try:
                g2 = impl()
            except Exception as e:  # noqa: BLE001
                ctx.fail("corr", "AtomGrid.__init__:rebuild", f"{case}: the second construction raises {type(e).__name__}: {e}", witness=case)
                continue
            same = (np.array_equal(g2.points, g.points) and np.array_equal(g2.weights, g.weights)
                    and list(map(int, g2.indices)) == list(map(int, g.indices)) and list(map(int, g2.degrees)) == list(map(int, g.degrees)))
            ctx.count(dict(case, rebuild=True), nontrivial=True, tag="kinds:rebuild")
            if not same:
                ctx.fail("corr", "AtomGrid.__init__:rebuild", f"{case}: the same construction repeated later in the process gives another grid", witness=case)
    parts.run('the constructor on every argument kind, then every successful construction again', _part0)

    # ---- from_pruned on explicit radial orders and argument kinds --------------------------------------------
    def _part1():
        pr = []
        for k in range(ctx.n(100, 1500)):
            method = rng.choice(METHODS)
            pairs = _supported(ang, method)
            order = ORDERS[k % len(ORDERS)]
            pts, wts = _ordered_rgrid(ctx, order)
            S = rng.randrange(1, 4)
            rsect = sorted(rng.uniform(0.05, 4) for _ in range(S))
            radius = rng.choice([1.0, rng.uniform(0.3, 3.0)])
            if rng.random() < 0.5:
                pts[rng.randrange(len(pts))] = rsect[rng.randrange(S)] * radius  # a node on a bound
            dmax = MAXDEG[method]
            smax = max(s for d, s in pairs if d <= dmax)
            form = rng.choice(["d", "d", "d", "s", "both", "neither"])
            dsec = [rng.randrange(0, dmax + 1) for _ in range(S + 1)] if form in ("d", "both") else None
            ssec = [rng.randrange(0, smax + 1) for _ in range(S + 1)] if form in ("s", "both") else None
            ckind = rng.choice(["list", "int64", "tuple"])
            rot = rng.choice([0, rng.randrange(1, 10 ** 5)])
            cen = rng.choice([None, [float(_exact32(ctx, -3, 3)) for _ in range(3)]])
            pr.append((method, order, pts, wts, rsect, radius, form, dsec, ssec, ckind, rot, cen))
        # the degrees the shells can get (for the angular data handed to the model)
        lines = []
        for (m, order, pts, wts, rsect, radius, form, dsec, ssec, ckind, rot, cen) in pr:
            pairs = _supported(ang, m)
            if ssec is not None:
                poss = [(_least_size(pairs, x) or (0, 0))[0] for x in ssec]
            elif dsec is not None:
                poss = list(dsec)
            else:
                poss = []
            lines.append(_gpruned_line(ang, m, dsec, ssec, radius, rsect, cen, rot, pts, wts, poss, [(len(pts) - 1, True)]))
        answers = driver_batch(lines)
        for (m, order, pts, wts, rsect, radius, form, dsec, ssec, ckind, rot, cen), line in zip(pr, answers):
            case = {"op": "from_pruned", "method": m, "radial_order": order, "rgrid_points": pts.tolist(), "rgrid_weights": wts.tolist(),
                    "radius": radius, "r_sectors": rsect, "d_sectors": dsec, "s_sectors": ssec, "sectors_as": ckind, "rotate": rot, "center": cen}
            if line == "bad-op":
                ctx.fail("corr", "AtomGrid.from_pruned:kinds", f"{case}: the model could not run (bad-op)", witness=case)
                continue

            def impl(m=m, pts=pts, wts=wts, rsect=rsect, radius=radius, dsec=dsec, ssec=ssec, ckind=ckind, rot=rot, cen=cen):
                conv = {"list": list, "int64": lambda x: np.array(x, dtype=np.int64), "tuple": tuple}[ckind]
                rconv = {"list": list, "int64": np.array, "tuple": tuple}[ckind]
                if rot % 2:  # r_sectors / d_sectors positionally
                    return AtomGrid.from_pruned(_onedgrid(bg, pts, wts), radius, rconv(rsect), None if dsec is None else conv(dsec),
                                                s_sectors=None if ssec is None else conv(ssec), center=cen, rotate=rot, method=m)
                return AtomGrid.from_pruned(_onedgrid(bg, pts, wts), radius, r_sectors=rconv(rsect), d_sectors=None if dsec is None else conv(dsec),
                                            s_sectors=None if ssec is None else conv(ssec), center=cen, rotate=rot, method=m)

            a = Ans(line)
            _compare_grid(ctx, "AtomGrid.from_pruned:kinds", case, impl, a, pts, None if cen is None else np.array(cen), [(len(pts) - 1, True)])
            ctx.count(case, nontrivial=True, tag=f"pruned-kinds:{order}:{form}:{ckind}" + (":" + a.tag if a.tag != "ok" else ""))
    parts.run('from_pruned on explicit radial orders and argument kinds', _part1)

    # ---- _input_type_check on its own ------------------------------------------------------------------------
    def _part2():
        chk = []
        NEG = [-1e-300, -1e-9, -0.5, -1.0, -1.5, -2.0]  # just below the threshold 0.0 and further away
        for k in range(ctx.n(120, 1200)):
            n = rng.randrange(0, 4) if k >= 12 else 1 + k % 3
            pts = [rng.choice([0.0, 1e-300, rng.uniform(0, 5)]) if rng.random() < 0.3 else rng.uniform(0, 5) for _ in range(n)]
            if n and (k < 12 or rng.random() < 0.4):
                pts[rng.randrange(n)] = NEG[k % len(NEG)]
            dom = rng.choice([None, None, (0.0, np.inf), (-1.0, 10.0), (-1e-300, 10.0), (0.0, 10.0)])
            cl = [0.0] * rng.choice([3, 3, 3, 2, 4, 0])
            chk.append((pts, dom, cl))
        answers = driver_batch([f"C05.gcheck {_rgrid_tok(p, [1.0] * len(p), True, d)} {fvec(c)}" for p, d, c in chk])
        for (p, d, c), line in zip(chk, answers):
            case = {"op": "_input_type_check", "rgrid_points": p, "domain": d, "center_len": len(c)}
            try:
                if d is not None and d[0] >= 0 and any(v < 0 or v > d[1] for v in p):
                    continue  # OneDGrid itself rejects nodes outside the domain
                rg = bg.OneDGrid(np.array(p, dtype=float), np.ones(len(p)), d)
            except Exception:  # noqa: BLE001
                continue
            try:
                AtomGrid._input_type_check(rg, np.array(c, dtype=float))
                impl = "ok"
            except (TypeError, ValueError) as e:
                impl = _exc_tag(e)
            ctx.count(case, nontrivial=True, tag="input-type-check:" + impl)
            if impl != line:
                ctx.fail("corr", "AtomGrid._input_type_check", f"{case}: implementation {impl}, model {line}", witness=case)
    parts.run('_input_type_check on its own', _part2)

    parts.finish()

# ----------------------------------------------------------------------------
# round 3: the regenerated `_generate_atomic_grid`, `from_preset`, default values
# ----------------------------------------------------------------------------
def _extreme_rgrid(ctx: Ctx):
    """class 8: radial nodes / weights of extreme but legal magnitude (squares stay finite; r**2 may be denormal)"""
    rng = ctx.rng
    n = rng.choice([1, 2, 3, 4])
    pts = [rng.choice([10.0 ** rng.uniform(-160, -20), 10.0 ** rng.uniform(-12, 12), 10.0 ** rng.uniform(20, 150), 0.0, rng.uniform(0, 3),
                       10.0 ** rng.uniform(-300, -170), rng.choice([5e-324, 1e-310, 2.2250738585072014e-308])]) for _ in range(n)]
    scale = 10.0 ** rng.choice([-12, -6, 0, 6, 12])
    wts = [scale * rng.uniform(0.1, 2.0) * rng.choice([1, 1, -1]) for _ in range(n)]
    return np.array(pts, dtype=float), np.array(wts, dtype=float)


def _corr_round3(ctx: Ctx, ag, ang, bg):
    AtomGrid = ag.AtomGrid
    rng = ctx.rng
    utils = importlib.import_module("grid.utils")
    import scipy.constants as sc

    parts = _Parts(ctx, 'corr', 'corr-round3')
    # ---- the regenerated static method `_generate_atomic_grid(rgrid, degrees, rotate=…, method=…)` (loop included) ----
    def _part0():
        cases = []
        for k in range(ctx.n(70, 900)):
            method = METHODS[k % 4]
            pts, wts = _extreme_rgrid(ctx) if k % 5 == 4 else _rand_rgrid(ctx, n=(1 + k % 3) if k < 12 else None)
            n = len(pts)
            pairs = _supported(ang, method)
            dmax = MAXDEG[method]
            shape = rng.choice(["ok"] * 8 + ["badlen", "toolarge", "one-for-many"]) if k >= 8 else "ok"
            degs = [rng.randrange(0, dmax + 1) for _ in range(n)]
            if shape == "badlen":
                degs = [rng.randrange(0, 12) for _ in range(rng.choice([x for x in (n + 1, n - 1, 0, n + 2) if x >= 0 and x != n]))]
            elif shape == "toolarge":
                degs[rng.randrange(n)] = max(d for d, _ in pairs) + rng.randrange(1, 4)
            elif shape == "one-for-many":  # the static method does not broadcast a single degree
                degs = degs[:1]
            dkind = rng.choice(["list", "int64", "int32"])
            rot_kind = rng.choice(["default", "default", "int", "int", "int", "int", "int", "int", "bool", "bool", "npint", "other"])
            if rot_kind == "int":
                rot_val = rng.choice([0, 1, 1, rng.randrange(2, 10 ** 5), rng.randrange(2, 10 ** 5), rng.randrange(2, 10 ** 5), 2 ** 32 - n - 1,
                                      2 ** 32 - n, 2 ** 32 - 1, -1, -rng.randrange(2, 50)])
            elif rot_kind == "bool":
                rot_val = rng.random() < 0.6
            elif rot_kind == "npint":
                rot_val = rng.choice([0, 3])
            else:
                rot_val = None if rot_kind == "default" else 2.0
            cases.append((method, pts, wts, degs, dkind, rot_kind, rot_val, shape))
        lines = []
        for (m, p, w, degs, dkind, rk, rv, shape) in cases:
            seed = int(rv) if rk in ("int", "bool", "npint") else int(_sig_default("_generate_atomic_grid", "rotate")) if rk == "default" else 0
            lines.append(" ".join(["C05.ggen", m, vec(degs), _rot_tok(rk, rv), _rgrid_tok(p, w), _world(ang, m, "deg", degs, seed, len(degs), [])]))
        answers = driver_batch(lines)
        for (m, p, w, degs, dkind, rk, rv, shape), line in zip(cases, answers):
            case = {"op": "_generate_atomic_grid", "method": m, "degrees": degs, "degrees_as": dkind, "rotate": [rk, rv],
                    "rgrid_points": p.tolist(), "rgrid_weights": w.tolist()}
            if line == "bad-op":
                ctx.fail("corr", "AtomGrid._generate_atomic_grid", f"{case}: the model could not run (bad-op)", witness=case)
                continue
            kw = {}
            if rk != "default":
                kw["rotate"] = {"int": int, "bool": bool, "npint": np.int64, "other": float}[rk](rv)
            if not (m == "lebedev" and rng.random() < 0.5):
                kw["method"] = m  # otherwise the method is left at its default
            dd = {"list": list, "int64": lambda x: np.array(x, dtype=np.int64), "int32": lambda x: np.array(x, dtype=np.int32)}[dkind](degs)
            try:
                P, W, I, D = AtomGrid._generate_atomic_grid(_onedgrid(bg, p, w), dd, **kw)
                impl = "ok"
            except (ValueError, IndexError, TypeError) as e:
                impl = _exc_tag(e)
            t = line.split()
            ctx.count(case, nontrivial=True, tag=f"ggen:{m}:{shape}:rot-{rk}" + (":extreme" if np.any((p > 1e15) | ((p < 1e-15) & (p > 0))) else "") + (":" + impl if impl != "ok" else ""))
            if impl != t[0]:
                ctx.fail("corr", "AtomGrid._generate_atomic_grid", f"{case}: implementation {impl}, regenerated code {t[0]}", witness=case)
                continue
            if impl != "ok":
                continue
            a = Ans.__new__(Ans)
            a.t, a.i = t, 1
            mp = a._mat()
            mw = a._floats()
            mi = a._nats()
            md = a._nats()
            bad = []
            pscale = max(float(np.max(np.abs(p))), 1e-300)
            if not _arr_close(P, mp, pscale):
                bad.append("points differ" + _first_diff(P, mp))
            if not _arr_close(W, mw, np.maximum(np.abs(mw), np.abs(W)) if np.shape(W) == np.shape(mw) else 1.0):
                bad.append("weights differ" + _first_diff(W, mw))
            if [int(x) for x in I] != mi:
                bad.append(f"indices {list(map(int, I))[:8]} vs {mi[:8]}")
            if [int(x) for x in D] != md:
                bad.append(f"actual degrees {list(map(int, D))[:8]} vs {md[:8]}")
            for b in bad[:2]:
                ctx.fail("corr", "AtomGrid._generate_atomic_grid", f"{case}: {b}", witness=case)
    parts.run('the regenerated static method `_generate_atomic_grid(rgrid, degrees, rotate=…, method=…)` ', _part0)

    # ---- the regenerated `from_preset` ---------------------------------------------------------------------------------
    def _part1():
        tabs = _preset_tables()
        allpairs = [(p, z) for p in sorted(tabs) for z in sorted(tabs[p][0])]
        npick = ctx.n(40, 500)
        pick = [("sg_3", 14), ("sg_0", 7), ("sg_0", 15), ("sg_1", 18), ("sg_1", 19), ("coarse", 1), ("sg_1", 85), ("g1", 1)]
        pick += rng.sample(allpairs, min(len(allpairs), npick))
        ang2bohr = sc.angstrom / sc.value("atomic unit of length")
        defaults = utils._DEFAULT_POWER_RTRANSFORM_PARAMS
        rt = importlib.import_module("grid.rtransform")
        od = importlib.import_module("grid.onedgrid")
        pc = []
        for k, (p, z) in enumerate(pick):
            method = rng.choice(METHODS) if rng.random() < 0.35 else "lebedev"
            pairs = _supported(ang, method)
            tab = tabs.get(p, ({}, {}))[0]
            rk = rng.choice(["given"] * 6 + ["none", "omitted"]) if k >= 8 else ("given" if k != 5 else "omitted")
            if z not in tab:
                rad = npt = None
            else:
                rad, npt, nshell = tab[z]
            zz = z
            if rk != "given" and rng.random() < 0.25:
                zz = rng.choice([z, 83, 90, 104])  # an element without default radial parameters (ValueError before anything else)
                if zz not in tab:
                    rad = npt = None
            if rk == "given":
                if rad is None:
                    rp = np.linspace(0.1, 5, 12)
                else:
                    rp = _preset_rgrid_points(ctx, rad, nshell, rng.random() < 0.93)
                rw = np.array([rng.uniform(0.1, 1.0) for _ in rp])
                dom = (0.0, np.inf)
                rg_tok, wgrid = "some " + _rgrid_tok(rp, rw, True, dom), "nogrid"
            else:
                rg_tok = "none" if rk == "none" else "default"
                if zz in defaults:
                    rmin, rmax, n0 = defaults[zz]
                    x, y = rmin * ang2bohr, rmax * ang2bohr
                    dg = rt.PowerRTransform(x, y).transform_1d_grid(od.UniformInteger(n0))
                    rp, rw, dom = dg.points, dg.weights, dg.domain
                    wgrid = f"grid {f2b(x)} {f2b(y)} {n0} " + _rgrid_tok(rp, rw, True, dom)
                else:
                    rp, rw, dom, wgrid = np.array([1.0]), np.array([1.0]), None, "nogrid"
            entry = f"entry {zz} {f2b(defaults[zz][0])} {f2b(defaults[zz][1])} {defaults[zz][2]}" if zz in defaults else "none"
            # expected size of the grid (brute force over the table) to keep the lines small
            total = 0
            if npt is not None:
                if rad.dtype.kind == "i":
                    total = sum(int(c) * ((_least_size(pairs, int(s)) or (0, 0))[1]) for c, s in zip(rad, npt))
                else:
                    total = len(rp) * max((_least_size(pairs, int(s)) or (0, 0))[1] for s in npt)
            if total > 30000:
                continue
            ck = rng.choice(["omitted", "none", "vec", "vec"])
            cen = None if ck != "vec" else _rand_center(ctx)
            rot_kind = rng.choice(["default", "int", "int", "bool"])
            rot_val = None if rot_kind == "default" else (rng.random() < 0.5) if rot_kind == "bool" else rng.choice([0, rng.randrange(1, 10 ** 5)])
            seed = int(rot_val) if rot_kind != "default" else int(_sig_default("from_preset", "rotate"))
            sreq = [(0, None), (len(rp) - 1, True)]
            world = _world(ang, method, "size", [int(s) for s in npt] if npt is not None else [], seed, len(rp), sreq)
            line = " ".join(["C05.gpreset", method, str(zz), p, rg_tok, _center_tok("omitted" if ck == "omitted" else cen), _rot_tok(rot_kind, rot_val),
                             entry, f2b(sc.angstrom), f2b(sc.value("atomic unit of length")), wgrid, world])
            pc.append((p, zz, method, rk, rp, rw, dom, ck, cen, rot_kind, rot_val, sreq, line))
        answers = driver_batch([c[-1] for c in pc])
        for (p, z, m, rk, rp, rw, dom, ck, cen, rot_kind, rot_val, sreq, _), line in zip(pc, answers):
            case = {"op": "from_preset", "preset": p, "atnum": z, "method": m, "rgrid": rk, "rgrid_points": rp.tolist() if rk == "given" else None,
                    "rgrid_weights": rw.tolist() if rk == "given" else None, "center": None if cen is None else cen.tolist(), "center_as": ck,
                    "rotate": [rot_kind, rot_val]}
            if line == "bad-op":
                ctx.fail("corr", "AtomGrid.from_preset:gen", f"{case}: the model could not run (bad-op)", witness=case)
                continue

            def impl(p=p, z=z, m=m, rk=rk, rp=rp, rw=rw, dom=dom, ck=ck, cen=cen, rot_kind=rot_kind, rot_val=rot_val):
                kw = {"method": m}
                if rk == "given":
                    kw["rgrid"] = bg.OneDGrid(np.array(rp), np.array(rw), dom)
                elif rk == "none":
                    kw["rgrid"] = None
                if ck != "omitted":
                    kw["center"] = cen
                if rot_kind != "default":
                    kw["rotate"] = bool(rot_val) if rot_kind == "bool" else int(rot_val)
                if set(kw) == {"method", "rgrid", "center", "rotate"} and (z + len(p)) % 2:  # every argument positionally (method included)
                    return AtomGrid.from_preset(z, p, kw["rgrid"], kw["center"], kw["rotate"], kw["method"])
                return AtomGrid.from_preset(z, p, **kw)

            a = Ans(line)
            _compare_grid(ctx, "AtomGrid.from_preset:gen", case, impl, a, rp, cen, sreq)
            ctx.count(case, nontrivial=True, tag=f"gpreset:{p}:rgrid-{rk}:center-{ck}:rot-{rot_kind}" + (":" + a.tag if a.tag != "ok" else ""))
    parts.run('the regenerated `from_preset`', _part1)

    # ---- the default angular method of every translated function ---------------------------------------------------------
    def _part2():
        ans = driver_batch(["C05.default-method"])[0].split()
        want = ["ok"] + [str(_sig_default(f, "method")) for f in ("__init__", "from_pruned", "from_preset", "_generate_atomic_grid", "_generate_degree_from_radius")]
        ctx.count(["default-method", want], nontrivial=True, tag="defaults:method")
        if ans != want:
            ctx.fail("corr", "AtomGrid:default-method", f"default methods: implementation {want[1:]}, regenerated {ans[1:]}")
    parts.run('the default angular method of every translated function', _part2)

    parts.finish()

def _raise(tag):
    raise {"value-error": ValueError, "index-error": IndexError, "type-error": TypeError}.get(tag, RuntimeError)(tag)


# ----------------------------------------------------------------------------
# oracle: the property on the implementation
# ----------------------------------------------------------------------------
SNIP_HEAD = """import warnings; warnings.filterwarnings('ignore')
import numpy as np
from grid.atomgrid import AtomGrid
from grid.angular import AngularGrid
from grid.basegrid import OneDGrid
"""

SNIP_PRESET = SNIP_HEAD + """from importlib.resources import files
preset, atnum = {preset!r}, {atnum}
data = np.load(files('grid.data.prune_grid').joinpath(f'prune_grid_{{preset}}.npz'))
rad, npt = data[f'{{atnum}}_rad'], data[f'{{atnum}}_npt']
shell_count = rad.dtype.kind == 'i'
assert len(npt) == (len(rad) if shell_count else len(rad) + 1), (
    f'table of ({{preset}}, Z={{atnum}}) is inconsistent: {{len(rad)}} ' + ('shell counts' if shell_count else 'sector bounds')
    + f' but {{len(npt)}} sizes')
n = int(rad.sum()) if shell_count else 30
rgrid = OneDGrid(np.linspace(0.01, 10, n), np.ones(n), (0, np.inf))
try:
    g = AtomGrid.from_preset(atnum, preset, rgrid)
except Exception as e:
    raise AssertionError(f'from_preset({{atnum}}, {{preset!r}}) with {{n}} radial points raises {{type(e).__name__}}: {{e}}')
"""

SNIP_PRUNED = SNIP_HEAD + """pts, wts = np.array({pts!r}), np.array({wts!r})
radius, rsect, dsec, method = {radius!r}, {rsect!r}, {dsec!r}, {method!r}
g = AtomGrid.from_pruned(OneDGrid(pts, wts, (0, np.inf)), radius, r_sectors=rsect, d_sectors=dsec, method=method)
bounds = np.array(rsect) * radius
for i, r in enumerate(pts):
    k = sum(1 for b in bounds if b < r)  # sectors are (b_(k-1), b_k]
    want = AngularGrid(degree=dsec[k], method=method).degree  # least supported degree not below the request
    assert g.degrees[i] == want, f'shell {{i}} at r={{r}} lies in sector {{k}} (requested degree {{dsec[k]}}, built {{want}}) but has degree {{g.degrees[i]}}'
"""

SNIP_GRID = SNIP_HEAD + """from scipy.spatial.transform import Rotation
pts, wts = np.array({pts!r}), np.array({wts!r})
degs, rotate, center, method = {degs!r}, {rotate}, np.array({center!r}), {method!r}
g = AtomGrid(OneDGrid(pts, wts, (0, np.inf)), degrees=degs, center=center, rotate=rotate, method=method)
idx = g.indices
assert idx[0] == 0 and idx[-1] == g.size and len(idx) == len(pts) + 1
for i, d in enumerate(g.degrees):
    a = AngularGrid(degree=d, method=method)
    R = Rotation.random(random_state=rotate + i).as_matrix() if rotate else np.eye(3)
    rel = pts[i] * (a.points @ R)
    got = g.points[idx[i]:idx[i + 1]]
    tol = 1e-11 * max(pts[i], abs(center).max()) + 1e-300   # c + r u is rounded relative to max(|c|, r)
    assert got.shape == rel.shape and np.all(abs(got - (center + rel)) <= tol + 1e-11 * pts[i]), f'shell {{i}}: points are not centre + r_i (u_j R_i)'
    ww = a.weights * wts[i] * pts[i] ** 2
    assert np.all(abs(g.weights[idx[i]:idx[i + 1]] - ww) <= 1e-12 * abs(ww) + 2e-323), f'shell {{i}}: weights are not w_i r_i^2 omega_j'
    sg = g.get_shell_grid(i)
    assert np.all(abs(sg.points - rel) <= 1e-11 * pts[i] + 1e-300) and np.all(abs(sg.weights - ww) <= 1e-12 * abs(ww) + 2e-323), (
        f'shell {{i}}: get_shell_grid does not carry the shell (points relative to the centre, weights w_i r_i^2 omega_j)')
"""


def _sphere_monomial_integral(a, b, c):
    if a % 2 or b % 2 or c % 2:
        return 0.0
    return 2 * math.gamma((a + 1) / 2) * math.gamma((b + 1) / 2) * math.gamma((c + 1) / 2) / math.gamma((a + b + c + 3) / 2)


def _oracle_grid(ctx, ag, ang, bg, method, pts, wts, degs, rotate, center, key, mk_rgrid=None):
    """All clauses of the property on one constructed grid; reference = the statement itself evaluated
    with exact rationals (weights), Gram matrices / least squares (orthogonal image), SciPy (seed)."""
    AtomGrid = ag.AtomGrid
    c = np.zeros(3) if center is None else center
    wit = {"method": method, "rgrid_points": pts.tolist(), "rgrid_weights": wts.tolist(), "degrees": list(degs),
           "rotate": rotate, "center": c.tolist()}
    snip = SNIP_GRID.format(pts=pts.tolist(), wts=wts.tolist(), degs=list(degs), rotate=rotate, center=c.tolist(), method=method)

    def fail(what):
        ctx.fail("oracle", key, f"{what} [method={method}, degrees={list(degs)}, rotate={rotate}, n={len(pts)}]", witness=wit, snippet=snip)

    _mk = (lambda: _onedgrid(bg, pts, wts)) if mk_rgrid is None else mk_rgrid  # the radial grid *object* handed in
    rgrid = _mk()
    g = AtomGrid(rgrid, degrees=list(degs), center=center, rotate=rotate, method=method)
    n = len(pts)
    idx = [int(x) for x in g.indices]
    pairs = _supported(ang, method)
    full_degs = list(degs) * n if len(degs) == 1 else list(degs)
    # shell order, index table
    if len(idx) != n + 1 or idx[0] != 0 or idx[-1] != g.size or g.points.shape != (g.size, 3) or g.weights.shape != (g.size,):
        return fail(f"index table {idx[:6]}… does not delimit {g.size} points in {n} shells")
    P, W = g.points, g.weights
    scale = max(1.0, float(np.max(np.abs(pts))), float(np.max(np.abs(c))))
    for i in range(n):
        want = _least_degree(pairs, full_degs[i])
        if want is None or int(g.degrees[i]) != want[0] or idx[i + 1] - idx[i] != want[1]:
            return fail(f"shell {i}: degree {g.degrees[i]} / {idx[i + 1] - idx[i]} points, smallest supported not below {full_degs[i]} is {want}")
        a = ang.AngularGrid(degree=want[0], method=method)
        U, om = a.points, a.weights
        S = P[idx[i]:idx[i + 1]] - c
        r = float(pts[i])
        # tolerance of one shell: the stored point c + r u is rounded relative to max(|c|, r) — not to the largest radius of
        # the grid (a shell of radius 1e-50 next to one of radius 1 must still be a sphere of radius 1e-50)
        cmax = float(np.max(np.abs(c)))
        tol_i = 1e-11 * max(r, cmax) + 1e-300
        # radii preserved (hypot: no underflow of the squares for radii down to 1e-160)
        hyp = lambda A: np.hypot(np.hypot(A[:, 0], A[:, 1]), A[:, 2])  # noqa: E731
        if not np.all(np.abs(hyp(S) - r * hyp(U)) <= tol_i):
            return fail(f"shell {i}: |p - c| differs from r_i = {r}")
        # orthogonal image of the unit grid: Gram matrices agree, implied map is SciPy's for seed rotate+i
        if r > 1e-3:
            V = S / r
            if not np.all(np.abs(V @ V.T - U @ U.T) <= 1e-9 * scale / r):
                return fail(f"shell {i}: the shell is not an orthogonal image of the unit grid of degree {want[0]}")
            M, *_ = np.linalg.lstsq(U, V, rcond=None)
            Rref = _rotmat(rotate + i) if rotate else np.eye(3)
            if np.linalg.matrix_rank(U) == 3 and not np.all(np.abs(M - Rref) <= 1e-8 * scale / r):
                return fail(f"shell {i}: implied map differs from Rotation.random(random_state={rotate}+{i})" if rotate else f"shell {i}: points moved although rotate=0")
            if not np.all(np.abs(Rref @ Rref.T - np.eye(3)) <= 1e-12):
                return fail(f"SciPy matrix for seed {rotate + i} is not orthogonal")
        # weights, exact rationals on a sample
        ww = W[idx[i]:idx[i + 1]]
        for j in sorted({0, len(om) - 1, ctx.rng.randrange(len(om))}):
            if not np.isfinite(ww[j]):
                return fail(f"shell {i}, node {j}: weight {ww[j]!r} is not finite although w_i r_i^2 omega_j is representable")
            exact = Fraction(float(om[j])) * Fraction(float(wts[i])) * Fraction(r) ** 2
            # relative 1e-13; results below the normal range are rounded to the subnormal spacing 2^-1074 (three roundings)
            if abs(Fraction(float(ww[j])) - exact) > max(abs(exact) * Fraction(1, 10 ** 13), Fraction(4, 2 ** 1074)):
                return fail(f"shell {i}, node {j}: weight {ww[j]!r} is not w_i r_i^2 omega_j = {float(exact)!r}")
        if not np.all(np.abs(ww - om * wts[i] * r * r) <= 1e-12 * np.abs(ww) + 2e-323):
            return fail(f"shell {i}: weights are not w_i r_i^2 omega_j")
        # per-shell grid on request: its points are relative to the centre, so they do not depend on where the centre is
        # (reference r_i (u_j R_i) built from the unit grid and SciPy's matrix, tolerance relative to r_i alone)
        Rsh = _rotmat(rotate + i) if rotate else np.eye(3)
        Sref = r * (U @ Rsh)
        tol_s = 1e-11 * r + 1e-300
        if not np.all(np.abs(S - Sref) <= tol_i + tol_s):
            return fail(f"shell {i}: points are not centre + r_i (u_j R_i) with R_i = Rotation.random(random_state={rotate}+{i})" if rotate
                        else f"shell {i}: points are not centre + r_i u_j")
        for rsq in (True, False):
            sg = g.get_shell_grid(i, r_sq=rsq)
            wref = ww if rsq else om * wts[i]
            if sg.points.shape != S.shape or not np.all(np.abs(sg.points - Sref) <= tol_s) or \
                    not np.all(np.abs(sg.weights - wref) <= 1e-12 * np.abs(wref) + 2e-323):
                return fail(f"get_shell_grid({i}, r_sq={rsq}) is not the shell's slice relative to the centre")
            # a repeated request after the caller has used the first one as its own object (moved it to the lab frame,
            # rescaled its weights, in place and through the setters) must again be that shell
            try:
                sg.points[...] += 7.0
                sg.weights[...] *= 3.0
                sg.points = sg.points + 1.0
                sg.weights = sg.weights * 2.0
            except (ValueError, AttributeError):
                pass
            sg2 = g.get_shell_grid(i, r_sq=rsq)
            if sg2.points.shape != S.shape or not np.all(np.abs(sg2.points - Sref) <= tol_s) or \
                    not np.all(np.abs(sg2.weights - wref) <= 1e-12 * np.abs(wref) + 2e-323):
                return fail(f"get_shell_grid({i}, r_sq={rsq}) requested again after the first returned grid was modified by its owner is not the shell's slice relative to the centre")
            if not (np.array_equal(g.points, P) and np.array_equal(g.weights, W)):
                return fail(f"modifying the grid returned by get_shell_grid({i}, r_sq={rsq}) changed the atomic grid itself")
    # reproducible from the seed
    g2 = AtomGrid(_mk(), degrees=list(degs), center=center, rotate=rotate, method=method)
    if not (np.array_equal(g2.points, P) and np.array_equal(g2.weights, W)):
        return fail("two constructions with the same seed differ")
    # another seed: radii and weights unchanged
    rot2 = rotate + 1 + ctx.rng.randrange(1000)
    g3 = AtomGrid(_mk(), degrees=list(degs), center=center, rotate=rot2, method=method)
    if not np.array_equal(g3.weights, W) or [int(x) for x in g3.indices] != idx or \
            not np.all(np.abs(np.linalg.norm(g3.points - c, axis=1) - np.linalg.norm(P - c, axis=1)) <= 1e-11 * scale):
        return fail(f"rotation seed {rot2} instead of {rotate} changed radii, weights or the index table")
    # moving the centre only translates
    t = np.array([ctx.rng.uniform(-3, 3) for _ in range(3)])
    if ctx.rng.random() < 0.4:  # class 8: a far, exactly representable shift (2^10 .. 2^20)
        t = np.array([float(ctx.rng.choice([-1, 1]) * 2 ** ctx.rng.randrange(10, 21)) for _ in range(3)])
    g4 = AtomGrid(_mk(), degrees=list(degs), center=c + t, rotate=rotate, method=method)
    if not np.array_equal(g4.weights, W) or [int(x) for x in g4.indices] != idx or \
            not np.all(np.abs(g4.points - P - t) <= 1e-11 * (scale + np.max(np.abs(t)))):
        return fail("moving the centre does more than translate the points")
    # factorisation: g(r) * monomial of degree <= smallest shell degree
    lmin = min(int(d) for d in g.degrees)
    for _ in range(3):
        tot = ctx.rng.randrange(0, min(lmin, 8) + 1)
        ea = ctx.rng.randrange(0, tot + 1)
        eb = ctx.rng.randrange(0, tot - ea + 1)
        ec = tot - ea - eb if ctx.rng.random() < 0.7 else ctx.rng.randrange(0, tot - ea - eb + 1)
        alpha = ctx.rng.uniform(0.05, 0.6)
        gfun = lambda r: np.exp(-alpha * r) * (1 + r)
        lhs, rhs_rad, mag, slack = 0.0, 0.0, 0.0, 0.0
        for i in range(n):
            r = float(pts[i])
            if r == 0.0:
                continue
            D = (P[idx[i]:idx[i + 1]] - c) / r
            ww = W[idx[i]:idx[i + 1]]
            vals = gfun(r) * D[:, 0] ** ea * D[:, 1] ** eb * D[:, 2] ** ec
            lhs += float(np.sum(vals * ww))
            mag += float(np.sum(np.abs(ww))) * abs(gfun(r))
            # the directions are recovered from the stored points as (p - c) / r: cancellation error eps |c| / r per coordinate
            # (a measurement artefact of this test for centres far from the origin, not of the grid)
            slack += float(np.sum(np.abs(ww))) * abs(gfun(r)) * (tot + 1) * 4.5e-16 * float(np.max(np.abs(c))) / r
            rhs_rad += wts[i] * r * r * gfun(r)
        rhs = rhs_rad * _sphere_monomial_integral(ea, eb, ec)
        if abs(lhs - rhs) > 1e-9 * max(mag, 1e-300) + slack:
            return fail(f"integral of g(r) x^{ea} y^{eb} z^{ec} (degree {ea + eb + ec} <= smallest shell degree {lmin}) = {lhs!r}, radial sum x exact angular integral = {rhs!r}")
    return g


def _tabulated_sizes(rad, npt, rp):
    """tabulated size of each shell, by the reading the table's own shape prescribes"""
    if rad.dtype.kind == "i":
        return [int(npt[i]) if i < len(npt) else None for i in range(len(rad)) for _ in range(int(rad[i]))]
    out = []
    for r in rp:
        ksec = sum(1 for b in rad if b < r)
        out.append(int(npt[ksec]) if ksec < len(npt) else None)
    return out


def oracle(ctx: Ctx, budget: str):
    ag, ang, bg = _mods()
    AtomGrid = ag.AtomGrid
    rng = ctx.rng
    parts = _Parts(ctx, 'oracle', 'atomgrid.oracle')
    parts.run("argument kinds", _oracle_kinds, ctx, ag, ang, bg, budget)
    parts.run("round 3 parts", _oracle_round3, ctx, ag, ang, bg, budget)
    parts.run("argument combinations", _oracle_combinations, ctx, ag, ang, bg, budget)
    parts.run("round 4 parts", _oracle_round4, ctx, ag, ang, bg, budget)
    parts.run("round 5 parts", _oracle_round5, ctx, ag, ang, bg, budget)
    # ---- random grids -----------------------------------------------------------------------
    def _part0():
        for k in range(24 if budget == "small" else 400):
            method = METHODS[k % 4]
            pts, wts = _rand_rgrid(ctx, n=(1 + k % 4) if k < 8 else None)
            n = len(pts)
            dmax = MAXDEG[method]
            if rng.random() < 0.3:
                degs = [rng.randrange(0, dmax + 1)]
            else:
                pool = [rng.randrange(0, dmax + 1) for _ in range(rng.randrange(1, 4))]
                degs = [rng.choice(pool) for _ in range(n)]
            rotate = 0 if rng.random() < 0.3 else rng.randrange(1, 10 ** 6)
            center = _rand_center(ctx)
            try:
                _oracle_grid(ctx, ag, ang, bg, method, pts, wts, degs, rotate, center, "atomgrid.AtomGrid")
            except Exception as e:
                ctx.fail("oracle", "atomgrid.AtomGrid", f"construction raised {type(e).__name__}: {e} [method={method}, degrees={degs}, rotate={rotate}]",
                         witness={"rgrid_points": pts.tolist(), "degrees": degs, "rotate": rotate, "method": method})
    parts.run('random grids', _part0)

    # ---- pruned sectors: degree of each shell is the one of its sector, never below the request -----
    def _part1():
        for k in range(30 if budget == "small" else 400):
            method = rng.choice(METHODS)
            pairs = _supported(ang, method)
            # radial nodes in every order the API admits: the first ten runs walk through the explicit orders
            # (ascending, reversed, two rules back to back, unsorted, repeated nodes), then random grids
            pts, wts = _ordered_rgrid(ctx, ORDERS[k % len(ORDERS)]) if k < 10 or rng.random() < 0.5 else _rand_rgrid(ctx)
            S = rng.randrange(1, 5)
            rsect = sorted(rng.uniform(0.05, 4) for _ in range(S))
            radius = rng.uniform(0.3, 3.0)
            if rng.random() < 0.4:
                pts[rng.randrange(len(pts))] = rsect[rng.randrange(S)] * radius
            dsec = [rng.randrange(0, MAXDEG[method] + 1) for _ in range(S + 1)]
            g = AtomGrid.from_pruned(_onedgrid(bg, pts, wts), radius, r_sectors=rsect, d_sectors=dsec, method=method)
            bounds = np.array(rsect) * radius  # same product as documented: radius * r_sectors
            for i, r in enumerate(pts):
                ksec = sum(1 for b in bounds if b < r)  # sectors are (b_{k-1}, b_k]
                want = _least_degree(pairs, dsec[ksec])
                if int(g.degrees[i]) != want[0] or int(g.degrees[i]) < dsec[ksec]:
                    ctx.fail("oracle", "atomgrid.AtomGrid.from_pruned",
                             f"r={r!r} lies in sector {ksec} of bounds {bounds.tolist()} (requested degree {dsec[ksec]}) but the shell has degree {g.degrees[i]}",
                             witness={"rgrid_points": pts.tolist(), "radius": radius, "r_sectors": rsect, "d_sectors": dsec, "method": method},
                             snippet=SNIP_PRUNED.format(pts=pts.tolist(), wts=wts.tolist(), radius=radius, rsect=rsect, dsec=dsec, method=method))
                    break
    parts.run('pruned sectors: degree of each shell is the one of its sector, never below the request', _part1)

    # ---- every shipped preset x every element it tabulates ---------------------------------------
    def _part2():
        tabs = _preset_tables()
        meths = ["lebedev"] if budget == "small" and not ctx.thorough else METHODS
        built = 0
        for p in sorted(tabs):
            tab, extra = tabs[p]
            for z in sorted(tab):
                rad, npt, nshell = tab[z]
                shell_count = rad.dtype.kind == "i"
                key = f"prune_grid:{p}:Z={z}"
                snip = SNIP_PRESET.format(preset=p, atnum=z)
                fits = len(npt) == (len(rad) if shell_count else len(rad) + 1)
                if shell_count:
                    npts_r = int(rad.sum())
                else:
                    npts_r = nshell if nshell else 30
                if "r_points" in extra and shell_count and int(extra["r_points"].sum()) != npts_r:
                    ctx.fail("oracle", key, f"stored r_points {extra['r_points'].tolist()} differs from the sum of the shell counts {npts_r}", snippet=snip)
                hi = rng.choice([12.0, 90.0]) if shell_count else float(rad.max()) * 1.3
                rp = np.sort(np.array([rng.uniform(0, hi) for _ in range(npts_r)]))
                if shell_count:
                    rp[-1] = max(rp[-1], 1.5 * float(rad.max()))  # beyond every shell count, should one be read as a radius
                if not shell_count and npts_r > 2:
                    rp[rng.randrange(npts_r)] = float(rad[rng.randrange(len(rad))])
                    rp = np.sort(rp)
                    # sector form assigns by radius, not by position: any node order must do
                    od = rng.choice(ORDERS)
                    if od == "reversed":
                        rp = rp[::-1].copy()
                    elif od == "two-rules":
                        kk = rng.randrange(1, npts_r)
                        rp = np.concatenate([rp[kk:], rp[:kk]])
                    elif od in ("unsorted", "repeated"):
                        rp = np.array(rng.sample(rp.tolist(), npts_r))
                for m in meths:
                    pairs = _supported(ang, m)
                    try:
                        g = AtomGrid.from_preset(z, p, _onedgrid(bg, rp, np.ones(npts_r)), method=m)
                    except Exception as e:
                        ctx.fail("oracle", key, f"from_preset({z}, {p!r}) with the prescribed {npts_r} radial points raises {type(e).__name__} ({e}): "
                                 f"the table has {len(rad)} " + ("shell counts" if shell_count else "sector bounds") + f" but {len(npt)} sizes",
                                 witness={"preset": p, "atnum": z, "rad": rad.tolist(), "npt": npt.tolist(), "method": m}, snippet=snip)
                        continue
                    built += 1
                    sizes = np.diff(g.indices)
                    if len(sizes) != npts_r:
                        ctx.fail("oracle", key, f"from_preset({z}, {p!r}) built {len(sizes)} shells on {npts_r} radial points", snippet=snip)
                        continue
                    tabsz = _tabulated_sizes(rad, npt, rp)
                    coarse = [(i, int(s), t) for i, (s, t) in enumerate(zip(sizes, tabsz)) if t is None or s < t]
                    exact_min = [(i, int(s), t) for i, (s, t) in enumerate(zip(sizes, tabsz))
                                 if t is not None and _least_size(pairs, t) is not None and s != _least_size(pairs, t)[1]]
                    if coarse or exact_min:
                        i, s, t = (coarse or exact_min)[0]
                        ctx.fail("oracle", key, f"from_preset({z}, {p!r}, method={m}): shell {i} has {s} points, tabulated {t}", snippet=snip)
                    elif not fits:
                        unused = npt[len(rad):].tolist() if shell_count else npt[len(rad) + 1:].tolist()
                        ctx.fail("oracle", key, f"table of ({p}, Z={z}) is inconsistent: {len(rad)} " + ("shell counts" if shell_count else "sector bounds")
                                 + f" but {len(npt)} sizes; from_preset builds a grid from the first {len(rad) if shell_count else len(rad) + 1} sizes and silently "
                                 f"ignores the tabulated sizes {unused}",
                                 witness={"preset": p, "atnum": z, "rad": rad.tolist(), "npt": npt.tolist()}, snippet=snip)
        ctx.extra["oracle_presets_built"] = built
        # a preset grid is a product grid too: all clauses on a few of them
        for _ in range(3 if budget == "small" else 30):
            p = rng.choice(sorted(tabs))
            z = rng.choice(sorted(tabs[p][0]))
            rad, npt, nshell = tabs[p][0][z]
            if (p, z) == ("sg_3", 14) or len(npt) < len(rad):
                continue
            n = int(rad.sum()) if rad.dtype.kind == "i" else (nshell or 20)
            rp = np.sort(np.array([rng.uniform(0.0, 10.0) for _ in range(n)]))
            g = AtomGrid.from_preset(z, p, _onedgrid(bg, rp, np.ones(n)))
            if g.size > 6000:
                continue
            _oracle_grid(ctx, ag, ang, bg, "lebedev", rp, np.full(n, 0.37), [int(d) for d in g.degrees], rng.randrange(1, 1000),
                         np.array([0.3, -1.0, 2.0]), f"atomgrid.AtomGrid.from_preset:{p}")
    parts.run('every shipped preset x every element it tabulates', _part2)

    parts.finish()

# ----------------------------------------------------------------------------
# round 3 (AGENT_ROUND3 classes 8 - 12), implementation side
# ----------------------------------------------------------------------------
SNIP_HISTORY = SNIP_HEAD + """pts, wts = np.array({pts!r}), np.array({wts!r})
degs, rotate, center, method = {degs!r}, {rotate}, {center!r}, {method!r}
def build():
    return AtomGrid(OneDGrid(pts.copy(), wts.copy(), (0, np.inf)), degrees=list(degs), center=list(center), rotate=rotate, method=method)
ref = build()
P0, W0, I0, D0 = ref.points.copy(), ref.weights.copy(), [int(x) for x in ref.indices], [int(x) for x in ref.degrees]
def shell_ref(i, rsq):
    a = AngularGrid(degree=D0[i], method=method)
    return P0[I0[i]:I0[i + 1]] - np.array(center), (W0[I0[i]:I0[i + 1]] if rsq else a.weights * wts[i])
g = build()
done = []
for op in {ops!r}:
    if op[0] == 'points-edit':
        a = g.points; a += 7.0; a *= -2.0
    elif op[0] == 'shell':
        sg = g.get_shell_grid(op[1]) if op[2] is None else g.get_shell_grid(op[1], r_sq=op[2])
        rp, rw = shell_ref(op[1], op[2] is not False)
        tol = 1e-11 * max(1.0, abs(pts).max(), abs(np.array(center)).max())
        assert sg.points.shape == rp.shape and np.all(abs(sg.points - rp) <= tol) and np.all(abs(sg.weights - rw) <= 1e-12 * abs(rw) + 2e-323), (
            f'after {{done}}: get_shell_grid({{op[1]}}, r_sq={{op[2]}}) is not shell {{op[1]}} of the grid (points relative to the centre; weights w_i r_i^2 omega_j, without r_i^2 for r_sq=False)')
        if op[3]:
            sg.points[...] += 3.0; sg.weights[...] *= 5.0; sg.points = sg.points * 2.0; sg.weights = sg.weights + 1.0
    elif op[0] == 'integrate':
        v = g.integrate(np.ones(g.size)); assert abs(v - W0.sum()) <= 1e-9 * abs(W0).sum() + 1e-300, f'after {{done}}: integrate(1) = {{v}}'
    elif op[0] == 'spherical':
        g.convert_cartesian_to_spherical()
    elif op[0] == 'reads':
        g.size, g.n_shells, g.l_max, g.rotate, g.method, g.center, g.rgrid, g.basis
    done = done + [op]
    assert np.array_equal(g.points, P0), f'after {{done}}: grid.points changed'
    assert np.array_equal(g.weights, W0) and [int(x) for x in g.indices] == I0 and [int(x) for x in g.degrees] == D0, f'after {{done}}: weights / indices / degrees changed'
"""

FRESH_LIB = """import warnings; warnings.filterwarnings('ignore')
import hashlib, json, sys
import numpy as np
from grid.atomgrid import AtomGrid
from grid.basegrid import OneDGrid
def digest(sp, default_first):
    rg = OneDGrid(np.array(sp['pts']), np.array(sp['wts']), (0, np.inf))
    kw = dict(center=sp['center'], rotate=sp['rotate'], method=sp['method'])
    if sp['route'] == 'sizes':
        g = AtomGrid(rg, None, sizes=sp['req'], **kw)
    elif sp['route'] == 'pruned':
        g = AtomGrid.from_pruned(rg, sp['radius'], r_sectors=sp['rsect'], d_sectors=None, s_sectors=sp['req'], **kw)
    elif sp['route'] == 'preset':
        g = AtomGrid.from_preset(sp['atnum'], sp['preset'], rg, **kw)
    else:
        g = AtomGrid(rg, degrees=sp['req'], **kw)
    if default_first:
        sg2 = g.get_shell_grid(sp['shell']); sg = g.get_shell_grid(sp['shell'], r_sq=False)
    else:   # first request of the fresh object with the non-default option
        sg = g.get_shell_grid(sp['shell'], r_sq=False); sg2 = g.get_shell_grid(sp['shell'])
    h = hashlib.sha256()
    for a in (sg.points, sg.weights, sg2.points, sg2.weights, g.points, g.weights, np.asarray(g.indices, dtype=np.int64), np.asarray(g.degrees, dtype=np.int64)):
        h.update(np.ascontiguousarray(a).tobytes())
    return h.hexdigest()
"""

FRESH_MAIN = FRESH_LIB + """out = []
for sp in json.loads(sys.argv[1]):
    try:
        out.append(digest(sp, False))
    except Exception as e:
        out.append('raised ' + type(e).__name__ + ': ' + str(e)[:200])
print('@@' + json.dumps(out))
"""

# replay of one fresh-process disagreement: run in a new interpreter it builds the grid first, then other grids, then again
FRESH_SNIP = FRESH_LIB + """sp = json.loads({spec!r})
try:
    first = digest(sp, False)
except Exception as e:
    raise AssertionError('as the first call of a fresh interpreter the construction raises ' + type(e).__name__ + ': ' + str(e))
for m in ('lebedev', 'spherical', 'maxdet', 'ahrens_beylkin'):
    AtomGrid(OneDGrid(np.array([0.5, 1.0, 2.0]), np.ones(3), (0, np.inf)), degrees=[3, 5, 7], method=m).get_shell_grid(1)
later = digest(sp, True)
assert first == later, 'the grid built as the first call of a fresh interpreter (get_shell_grid(r_sq=False) first) differs from the same construction after other grids were built'
"""


def _fresh_digest(sp):
    ns = {"__name__": "c05_fresh"}
    exec(compile(FRESH_LIB, "<c05-fresh>", "exec"), ns)
    try:
        return ns["digest"](sp, True)
    except Exception as e:  # noqa: BLE001
        return "raised " + type(e).__name__ + ": " + str(e)[:200]


def _oracle_round3(ctx: Ctx, ag, ang, bg, budget):
    AtomGrid = ag.AtomGrid
    rng = ctx.rng
    large = budget != "small"
    import warnings as _w

    parts = _Parts(ctx, 'oracle', 'atomgrid.oracle-round3')
    # ---- classes 9, 10, 11: one object, its public methods in random orders, everything it hands out used by the caller
    def _part0():
        # as its own (edited in place and through the setters), non-default options first; after every step the grid must
        # still be the product grid (compared with a twin that is only read)
        for k in range(10 if not large else 150):
            method = METHODS[k % 4]
            pts, wts = _ordered_rgrid(ctx, ORDERS[k % len(ORDERS)])
            n = len(pts)
            degs = [rng.randrange(0, MAXDEG[method] + 1) for _ in range(n)]
            rotate = rng.choice([0, rng.randrange(1, 10 ** 5)])
            center = [float(rng.choice([0, rng.randrange(-4, 5), rng.choice([-1, 1]) * 2 ** rng.randrange(10, 21)])) for _ in range(3)]
            ops = []
            for _ in range(rng.randrange(6, 12)):
                kind = rng.choice(["points-edit", "shell", "shell", "shell", "integrate", "spherical", "reads"])
                if kind == "shell":
                    ops.append(("shell", rng.randrange(n), rng.choice([True, False, None]), rng.random() < 0.7))
                else:
                    ops.append((kind,))
            if k % 3 == 0:  # the very first request of the fresh object uses the non-default option, then the default on the same index
                i0 = rng.randrange(n)
                ops = [("shell", i0, False, True), ("shell", i0, None, True), ("shell", i0, False, False)] + ops
            code = SNIP_HISTORY.format(pts=pts.tolist(), wts=wts.tolist(), degs=degs, rotate=rotate, center=center, method=method, ops=ops)
            ctx.count(["history", method, degs, rotate, center, ops], nontrivial=True, tag="oracle:history:" + ("first-non-default" if k % 3 == 0 else "random"))
            try:
                exec(compile(code, "<c05-history>", "exec"), {"__name__": "c05_history"})
            except AssertionError as e:
                ctx.fail("oracle", "atomgrid.AtomGrid:history", f"{str(e)[:300]} [method={method}, degrees={degs}, rotate={rotate}, center={center}]",
                         witness={"method": method, "rgrid_points": pts.tolist(), "rgrid_weights": wts.tolist(), "degrees": degs, "rotate": rotate,
                                  "center": center, "ops": [list(o) for o in ops]}, snippet=code)
            except Exception as e:  # noqa: BLE001
                ctx.fail("oracle", "atomgrid.AtomGrid:history", f"history raised {type(e).__name__}: {e} [method={method}, degrees={degs}, rotate={rotate}]",
                         witness={"method": method, "rgrid_points": pts.tolist(), "degrees": degs, "rotate": rotate, "ops": [list(o) for o in ops]}, snippet=code)
    parts.run('classes 9, 10, 11: one object, its public methods in random orders, everything it hands ou', _part0)

    # ---- class 9, the caller's own inputs after the construction: the arrays it passed for degrees / sizes / sectors and the
    def _part1():
        # list it passed for the centre are reused for the next atom; the first grid must not move
        for k in range(8 if not large else 100):
            method = rng.choice(METHODS)
            pairs = _supported(ang, method)
            pts, wts = _ordered_rgrid(ctx, rng.choice(ORDERS))
            n = len(pts)
            route = ["degrees", "sizes", "pruned-d", "pruned-s"][k % 4]
            cen = [float(rng.randrange(-3, 4)) for _ in range(3)]
            smax = max(sz for d, sz in pairs if d <= MAXDEG[method])
            with _w.catch_warnings():
                _w.simplefilter("ignore")
                if route == "degrees":
                    arr = np.array([rng.randrange(0, MAXDEG[method] + 1) for _ in range(n)], dtype=np.int64)
                    mk = lambda a: AtomGrid(_onedgrid(bg, pts, wts), degrees=a, center=cen, method=method)  # noqa: E731
                elif route == "sizes":
                    arr = np.array([rng.randrange(0, smax + 1) for _ in range(n)], dtype=np.int64)
                    mk = lambda a: AtomGrid(_onedgrid(bg, pts, wts), None, sizes=a, center=cen, method=method)  # noqa: E731
                else:
                    S = rng.randrange(1, 4)
                    rsect = np.array(sorted(rng.uniform(0.05, 4) for _ in range(S)))
                    hi = MAXDEG[method] if route == "pruned-d" else smax
                    arr = np.array([rng.randrange(0, hi + 1) for _ in range(S + 1)], dtype=np.int64)
                    if route == "pruned-d":
                        mk = lambda a: AtomGrid.from_pruned(_onedgrid(bg, pts, wts), 1.3, r_sectors=rsect, d_sectors=a, center=cen, method=method)  # noqa: E731
                    else:
                        mk = lambda a: AtomGrid.from_pruned(_onedgrid(bg, pts, wts), 1.3, r_sectors=rsect, d_sectors=None, s_sectors=a, center=cen, method=method)  # noqa: E731
                orig = arr.copy()
                g = mk(arr)
                ref = (g.points.copy(), g.weights.copy(), [int(x) for x in g.indices], [int(x) for x in g.degrees])
                arr[...] = 0            # the caller recycles its array for the next atom
                cen[0] += 11.0          # ... and its centre list
                if route.startswith("pruned"):
                    rsect[...] *= 3.0
                g2 = mk(np.array(orig) if False else arr)  # another construction in between
                now = (g.points, g.weights, [int(x) for x in g.indices], [int(x) for x in g.degrees])
                sg = g.get_shell_grid(n - 1, r_sq=True)
            ctx.count(["inputs-after", route, method, orig.tolist()], nontrivial=True, tag="oracle:inputs-after:" + route)
            i0, i1 = ref[2][n - 1], ref[2][n]
            if not (np.array_equal(now[0], ref[0]) and np.array_equal(now[1], ref[1]) and now[2] == ref[2] and now[3] == ref[3]
                    and np.allclose(sg.weights, ref[1][i0:i1], rtol=1e-12, atol=0)):
                ctx.fail("oracle", "atomgrid.AtomGrid:inputs-after-construction",
                         f"a grid built through {route} changes when the caller later overwrites the arrays / lists it had passed [method={method}, request={orig.tolist()}]",
                         witness={"route": route, "method": method, "request": orig.tolist(), "rgrid_points": pts.tolist()})
    parts.run("class 9, the caller's own inputs after the construction: the arrays it passed for degrees ", _part1)

    # ---- class 11: the same constructions as the *first* calls of a fresh interpreter (non-default options first) ---------
    def _part2():
        import json
        import os
        import subprocess
        import sys

        tabs = _preset_tables()
        specs = []
        for k in range(6 if not large else 24):
            method = [m for m in METHODS if m != "lebedev"][k % 3] if k % 4 != 3 else "lebedev"  # the very first call: a non-default method
            pairs = _supported(ang, method)
            pts, wts = _ordered_rgrid(ctx, ORDERS[k % len(ORDERS)])
            n = len(pts)
            smax = max(sz for d, sz in pairs if d <= MAXDEG[method])
            route = ["sizes", "pruned", "degrees", "preset"][k % 4]
            sp = dict(pts=pts.tolist(), wts=wts.tolist(), method=method, rotate=rng.randrange(1, 10 ** 5), center=[float(rng.randrange(-3, 4)) for _ in range(3)],
                      route=route, shell=rng.randrange(n))
            if route == "sizes":
                sp["req"] = [rng.randrange(0, smax + 1) for _ in range(n)]
            elif route == "degrees":
                sp["req"] = [rng.randrange(0, MAXDEG[method] + 1) for _ in range(n)]
            elif route == "pruned":
                S = rng.randrange(1, 4)
                sp.update(radius=rng.uniform(0.5, 2.0), rsect=sorted(rng.uniform(0.05, 4) for _ in range(S)), req=[rng.randrange(0, smax + 1) for _ in range(S + 1)])
            else:
                sp.update(preset=rng.choice(["coarse", "medium"]), atnum=rng.choice([1, 6, 8]))
                nsh = tabs[sp["preset"]][0][sp["atnum"]][2] or 12
                rp = np.sort(np.array([rng.uniform(0, 6.0) for _ in range(min(nsh, 12))]))
                sp.update(pts=rp.tolist(), wts=[1.0] * len(rp), shell=rng.randrange(len(rp)))
            specs.append(sp)
        env = dict(os.environ)
        if os.environ.get("GRID_REPO"):
            env["PYTHONPATH"] = os.path.join(os.environ["GRID_REPO"], "src") + os.pathsep + env.get("PYTHONPATH", "")
        try:
            p = subprocess.run([sys.executable, "-c", FRESH_MAIN, json.dumps(specs)], env=env, cwd="/", capture_output=True, text=True, timeout=600)
            res = next(json.loads(ln[2:]) for ln in p.stdout.splitlines() if ln.startswith("@@"))
        except Exception as e:  # noqa: BLE001
            ctx.fail("corr", "oracle-crash", f"fresh interpreter run failed: {type(e).__name__}: {e}")
            res = []
        for sp, dig in zip(specs, res):
            ctx.count(["fresh", sp], nontrivial=True, tag="oracle:fresh-process:" + sp["route"])
            here = _fresh_digest(sp)
            if here != dig:
                what = (f"as the first call of a fresh interpreter the construction {sp['route']} / method {sp['method']} {dig}" if dig.startswith("raised")
                        else f"construction {sp['route']} / method {sp['method']} as the first call of a fresh interpreter (get_shell_grid(r_sq=False) first) gives "
                             "another grid or another get_shell_grid answer than in the running process")
                ctx.fail("oracle", "atomgrid.AtomGrid:fresh-process", what + (f"; in the running process: {here}" if here.startswith("raised") else ""),
                         witness=sp, snippet=FRESH_SNIP.format(spec=json.dumps(sp)))
    parts.run('class 11: the same constructions as the *first* calls of a fresh interpreter (non-default ', _part2)

    # ---- classes 8, 12: special and extreme but legal grids through all clauses of the property --------------------------------
    def _part3():
        special = []
        for method in (METHODS if large else [rng.choice(METHODS), "lebedev"]):
            d = rng.randrange(1, MAXDEG[method] + 1)
            special += [
                (method, np.array([0.0]), np.array([1.0]), [d], "single r=0 shell"),
                (method, np.array([0.7]), np.array([0.3]), [d], "single shell"),
                (method, np.array([0.0, 0.0, 1.0]), np.array([1.0, 2.0, 0.5]), [d, d, 3], "two r=0 shells"),
                (method, np.array([1e-160, 1e-50, 1.0]), np.array([1.0, 1e12, 1e-12]), [d, 3, d], "tiny radii"),
                (method, np.array([1e150, 3e100, 2.0]), np.array([1e-12, 1.0, 1e12]), [3, d, d], "huge radii"),
                (method, np.array([1e-200, 1e-310, 5e-324, 0.0, 1.0]), np.array([1.0, 2.0, 1e300, 3.0, 0.5]), [d, 3, d, d, 3], "r^2 underflows / denormal r"),
                (method, np.array([2.0 ** 20, 1.0]), np.array([1.0, 1.0]), [d, d], "shell through the origin"),
            ]
        for (method, pts, wts, degs, what) in special:
            for center in (None, np.array([2.0 ** 20, -(2.0 ** 14), 2.0 ** 10 + 1.0])):
                if what == "shell through the origin" and center is None:
                    center = np.array([2.0 ** 20, 0.0, 0.0])
                rotate = rng.choice([0, rng.randrange(1, 10 ** 5)])
                ctx.count(["special", what, method, degs, rotate, None if center is None else center.tolist()], nontrivial=True, tag="oracle:special:" + what)
                try:
                    _oracle_grid(ctx, ag, ang, bg, method, pts, wts, degs, rotate, center, "atomgrid.AtomGrid")
                except Exception as e:  # noqa: BLE001
                    ctx.fail("oracle", "atomgrid.AtomGrid", f"{what}: construction / evaluation raised {type(e).__name__}: {e} [method={method}, degrees={degs}, rotate={rotate}]",
                             witness={"rgrid_points": pts.tolist(), "rgrid_weights": wts.tolist(), "degrees": degs, "rotate": rotate, "method": method})
    parts.run('classes 8, 12: special and extreme but legal grids through all clauses of the property', _part3)

    # ---- class 12 / 8 for from_pruned: nodes exactly on radius*r_sector, r = 0 with a bound at 0, radii over 20 orders of magnitude
    def _part4():
        for k in range(12 if not large else 200):
            method = rng.choice(METHODS)
            pairs = _supported(ang, method)
            mag = 10.0 ** rng.choice([-10, -5, 0, 0, 5, 10])
            S = rng.randrange(1, 5)
            rsect = sorted(rng.uniform(0.05, 4) for _ in range(S))
            if rng.random() < 0.3:
                rsect[0] = 0.0
            radius = mag * rng.uniform(0.3, 3.0)
            bounds = np.array(rsect) * radius
            pts = [float(b) for b in bounds]                       # every bound is a node
            pts += [float(np.nextafter(b, np.inf)) for b in bounds[:2]] + [float(np.nextafter(b, -np.inf)) for b in bounds[:2] if b > 0]
            # class 7: both sides of every bound within the factors 1.01 and 100
            pts += [float(b * f) for b in bounds[:3] for f in (1.01, 1 / 1.01, 100.0, 0.01)]
            pts += [0.0, mag * rng.uniform(0, 5)]
            rng.shuffle(pts)
            pts = np.array(pts)
            wts = np.ones(len(pts))
            dsec = [rng.randrange(0, MAXDEG[method] + 1) for _ in range(S + 1)]
            ctx.count(["pruned-special", method, rsect, radius, dsec], nontrivial=True, tag="oracle:pruned-on-bounds")
            code = SNIP_PRUNED.format(pts=pts.tolist(), wts=wts.tolist(), radius=radius, rsect=rsect, dsec=dsec, method=method)
            try:
                exec(compile(code, "<c05-pruned>", "exec"), {"__name__": "c05_pruned"})
            except AssertionError as e:
                ctx.fail("oracle", "atomgrid.AtomGrid.from_pruned", str(e)[:300] + f" [radius={radius!r}, r_sectors={rsect}]",
                         witness={"rgrid_points": pts.tolist(), "radius": radius, "r_sectors": rsect, "d_sectors": dsec, "method": method}, snippet=code)
    parts.run('class 12 / 8 for from_pruned: nodes exactly on radius*r_sector, r = 0 with a bound at 0, r', _part4)

    # ---- from_preset(rgrid=None): the radial grid it builds for the element runs from rmin to rmax of the element's default
    def _part5():
        # parameters (tabulated in angstrom) *in bohr*, with the tabulated number of nodes; conversion factor typed here from CODATA
        # (1 angstrom = 1e-10 m, a0 = 5.29177210903e-11 m; CODATA revisions differ by 1e-9 relative, tolerance 1e-6)
        utils = importlib.import_module("grid.utils")
        bohr_per_angstrom = 1.0e-10 / 5.29177210903e-11
        tabs = _preset_tables()
        zs = sorted(set(utils._DEFAULT_POWER_RTRANSFORM_PARAMS) & set(tabs["coarse"][0]))
        for z in rng.sample(zs, 3 if not large else min(30, len(zs))):
            rmin, rmax, npt = utils._DEFAULT_POWER_RTRANSFORM_PARAMS[z]
            ctx.count(["default-rgrid", z], nontrivial=True, tag="oracle:preset-default-rgrid")
            code = SNIP_HEAD + (f"from grid.utils import _DEFAULT_POWER_RTRANSFORM_PARAMS as P\nz = {z}\nrmin, rmax, npt = P[z]\nb = 1.0e-10 / 5.29177210903e-11\n"
                                "r = AtomGrid.from_preset(z, 'coarse').rgrid.points\n"
                                "assert len(r) == npt and abs(r.min() / (rmin * b) - 1) < 1e-6 and abs(r.max() / (rmax * b) - 1) < 1e-6, "
                                "f'default radial grid of Z={z}: {len(r)} nodes from {r.min()!r} to {r.max()!r} bohr, parameters say {npt} nodes from {rmin * b!r} to {rmax * b!r} bohr'\n")
            try:
                exec(compile(code, "<c05-default-rgrid>", "exec"), {"__name__": "c05_default_rgrid"})
            except AssertionError as e:
                ctx.fail("oracle", "atomgrid.AtomGrid.from_preset:default-rgrid", str(e)[:300], witness={"atnum": z, "preset": "coarse", "rgrid": None}, snippet=code)
        # information: what AtomGrid hands out by reference on the unchanged tree (class 9 audit; not asserted)
        g = AtomGrid(_onedgrid(bg, np.array([0.5, 1.0]), np.ones(2)), degrees=[3, 5])
        byref = [nm for nm in ("weights", "indices", "degrees", "center", "rgrid") if getattr(g, nm) is getattr(g, nm)]
        ctx.info("AtomGrid hands out by reference (same object on every read; an in-place edit by the caller edits the grid): " + ", ".join(byref)
                 + "; fresh on every read: points; fresh object on every call: get_shell_grid")
    parts.run('from_preset(rgrid=None): the radial grid it builds for the element runs from rmin to rmax ', _part5)

    parts.finish()

# ----------------------------------------------------------------------------
# every documented argument combination of the constructors, each against the shell-by-shell reference
# ----------------------------------------------------------------------------
SNIP_COMBO = SNIP_HEAD + """from scipy.spatial.transform import Rotation
pts, wts = {pts}, {wts}
method, seed, center = {method!r}, {seed}, np.array({center!r})
rgrid = None if pts is None else OneDGrid(np.array(pts), np.array(wts), (0, np.inf))
what = {what!r}
built = True
try:
    g = {call}
except ValueError as e:
    built = False
    assert {may_reject}, f'{{what}}: raises ValueError: {{e}}'
if built:
    # per shell (degree, size): the smallest supported grid not below the request the documentation says is used
    want = {want!r}
    rp, rw = (g.rgrid.points, g.rgrid.weights) if pts is None else (np.array(pts), np.array(wts))
    idx = [int(x) for x in g.indices]
    assert len(idx) == len(want) + 1 == len(rp) + 1 and idx[0] == 0 and idx[-1] == g.size, f'{{what}}: {{len(idx) - 1}} shells on {{len(rp)}} radial points'
    for i, (d, s) in enumerate(want):
        assert int(g.degrees[i]) == d and idx[i + 1] - idx[i] == s, (
            f'{{what}}: shell {{i}} at r={{rp[i]!r}} has degree {{int(g.degrees[i])}} / {{idx[i + 1] - idx[i]}} points, the documented request resolves to degree {{d}} / {{s}} points')
        a = AngularGrid(degree=d, method=method)
        R = Rotation.random(random_state=seed + i).as_matrix() if seed else np.eye(3)
        rel = rp[i] * (a.points @ R)
        tol = 1e-11 * max(rp[i], abs(center).max()) + 1e-11 * rp[i] + 1e-300
        assert np.all(abs(g.points[idx[i]:idx[i + 1]] - (center + rel)) <= tol), f'{{what}}: shell {{i}}: points are not centre + r_i (u_j R_i), seed {{seed}}+{{i}}'
        ww = a.weights * rw[i] * rp[i] ** 2
        assert np.all(abs(g.weights[idx[i]:idx[i + 1]] - ww) <= 1e-12 * abs(ww) + 2e-323), f'{{what}}: shell {{i}}: weights are not w_i r_i^2 omega_j'
        sg = g.get_shell_grid(i)
        assert np.all(abs(sg.points - rel) <= 1e-11 * rp[i] + 1e-300) and np.all(abs(sg.weights - ww) <= 1e-12 * abs(ww) + 2e-323), f'{{what}}: get_shell_grid({{i}}) does not carry shell {{i}}'
"""


def _run_combo(ctx: Ctx, key, what, call, want, method, seed, center, pts, wts, may_reject=False, witness=None):
    """one documented call (source text `call`, evaluated with rgrid / center / method in scope) against the reference"""
    code = SNIP_COMBO.format(pts=None if pts is None else [float(v) for v in pts], wts=None if wts is None else [float(v) for v in wts], method=method,
                             seed=int(seed), center=[float(v) for v in center], what=what, call=call, may_reject=bool(may_reject), want=[list(map(int, x)) for x in want])
    ctx.count(["combo", what, method, want[:6], seed, list(center)], nontrivial=True, tag="oracle:combo:" + key.split(":")[-1] + ":" + what.split(" [")[0][:60])
    try:
        exec(compile(code, "<c05-combo>", "exec"), {"__name__": "c05_combo"})
    except AssertionError as e:
        ctx.fail("oracle", key, str(e)[:400] + f" [method={method}]", witness=witness or {"call": call, "method": method}, snippet=code)
    except Exception as e:  # noqa: BLE001
        ctx.fail("oracle", key, f"{what}: raised {type(e).__name__}: {e} [method={method}]", witness=witness or {"call": call, "method": method}, snippet=code)


def _rot_variants(rng, n):
    """(source text of the rotate argument, seed it stands for, may be rejected): int / bool / NumPy integer"""
    k = rng.randrange(1, 10 ** 5)
    return [(str(k), k, False), ("0", 0, False), ("True", 1, False), ("False", 0, False),
            # a NumPy integer is accepted by the constructor's own check and rejected by the shell loop (ValueError): never a wrong grid
            (f"np.int64({k})", k, True), ("np.int32(0)", 0, True)]


def _oracle_combinations(ctx: Ctx, ag, ang, bg, budget):
    rng = ctx.rng
    large = budget != "small"
    tabs = _preset_tables()
    parts = _Parts(ctx, 'oracle', 'atomgrid.oracle-arguments')
    # ---- from_pruned and the constructor: every documented argument combination --------------------------------------------
    def _part0():
        for k in range(12 if not large else 160):
            method = METHODS[k % 4]
            pairs = _supported(ang, method)
            dmax = MAXDEG[method]
            smax = max(sz for d, sz in pairs if d <= dmax)
            pts, wts = _ordered_rgrid(ctx, ORDERS[k % len(ORDERS)])
            n = len(pts)
            cen = [float(rng.randrange(-4, 5)) for _ in range(3)]
            zero = [0.0, 0.0, 0.0]
            rot_src, seed, may_reject = rng.choice(_rot_variants(rng, n))
            wit = {"method": method, "rgrid_points": pts.tolist(), "rgrid_weights": wts.tolist(), "rotate": rot_src, "center": cen}

            # ---- from_pruned: d_sectors only / s_sectors only / both (the sizes win, d_sectors is ignored) ---------------------------
            S = rng.randrange(1, 4)
            rsect = sorted(rng.uniform(0.05, 4) for _ in range(S))
            radius = rng.choice([1.0, rng.uniform(0.3, 3.0)])
            bounds = np.array(rsect) * radius
            if rng.random() < 0.5:
                pts[rng.randrange(n)] = bounds[rng.randrange(S)]
            sector = [sum(1 for b in bounds if b < r) for r in pts]
            dsec = [rng.randrange(0, dmax + 1) for _ in range(S + 1)]
            ssec = [rng.randrange(0, smax + 1) for _ in range(S + 1)]
            # make sure "both" can tell which one was used: the two requests resolve differently in at least one occupied sector
            for kk in set(sector):
                if _least_degree(pairs, dsec[kk]) == _least_size(pairs, ssec[kk]):
                    dsec[kk] = (dsec[kk] + 7) % (dmax + 1)
            want_d = [_least_degree(pairs, dsec[kk]) for kk in sector]
            want_s = [_least_size(pairs, ssec[kk]) for kk in sector]
            w2 = dict(wit, radius=radius, r_sectors=rsect, d_sectors=dsec, s_sectors=ssec, rgrid_points=pts.tolist())
            key = "atomgrid.AtomGrid.from_pruned:arguments"
            cen_src = rng.choice([("center=None, ", zero), (f"center=np.array({cen!r}), ", cen), (f"center={cen!r}, ", cen), ("", zero)])
            tail = f"{cen_src[0]}rotate={rot_src}, method=method)"
            variants = [
                ("from_pruned(d_sectors only, by keyword)", f"AtomGrid.from_pruned(rgrid, {radius!r}, r_sectors={rsect!r}, d_sectors={dsec!r}, {tail}", want_d),
                ("from_pruned(d_sectors only, positional)", f"AtomGrid.from_pruned(rgrid, {radius!r}, {rsect!r}, {dsec!r}, {tail}", want_d),
                ("from_pruned(s_sectors only, d_sectors=None)", f"AtomGrid.from_pruned(rgrid, {radius!r}, {rsect!r}, None, s_sectors={ssec!r}, {tail}", want_s),
                ("from_pruned(s_sectors only, d_sectors omitted)", f"AtomGrid.from_pruned(rgrid, {radius!r}, r_sectors={rsect!r}, s_sectors=np.array({ssec!r}), {tail}", want_s),
                ("from_pruned(d_sectors and s_sectors: the documentation says s_sectors is used)",
                 f"AtomGrid.from_pruned(rgrid, {radius!r}, {rsect!r}, {dsec!r}, s_sectors={ssec!r}, {tail}", want_s),
                ("from_pruned(d_sectors and s_sectors as arrays: the documentation says s_sectors is used)",
                 f"AtomGrid.from_pruned(rgrid, radius={radius!r}, r_sectors=np.array({rsect!r}), d_sectors=np.array({dsec!r}), s_sectors=np.array({ssec!r}), {tail}", want_s),
            ]
            for what, call, want in (variants if large or k < 4 else rng.sample(variants[:4], 2) + variants[4:]):
                _run_combo(ctx, key, what, call, want, method, seed, cen_src[1], pts, wts, may_reject, dict(w2, call=call))

            # ---- AtomGrid(...): degrees only / sizes only / both (the sizes win, degrees are ignored) ------------------------------------
            degs = [rng.randrange(0, dmax + 1) for _ in range(n)]
            sizes = [rng.randrange(0, smax + 1) for _ in range(n)]
            for i in range(n):
                if _least_degree(pairs, degs[i]) == _least_size(pairs, sizes[i]):
                    degs[i] = (degs[i] + 7) % (dmax + 1)
            d1, s1 = degs[0], sizes[0]
            key = "atomgrid.AtomGrid:arguments"
            w3 = dict(wit, degrees=degs, sizes=sizes)
            variants = [
                ("AtomGrid(degrees only, positional)", f"AtomGrid(rgrid, {degs!r}, {tail}", [_least_degree(pairs, d) for d in degs]),
                ("AtomGrid(one degree for all shells)", f"AtomGrid(rgrid, degrees=[{d1}], {tail}", [_least_degree(pairs, d1)] * n),
                ("AtomGrid(sizes only, degrees=None)", f"AtomGrid(rgrid, None, sizes={sizes!r}, {tail}", [_least_size(pairs, x) for x in sizes]),
                ("AtomGrid(sizes only, degrees left at the default)", f"AtomGrid(rgrid, sizes=np.array({sizes!r}), {tail}", [_least_size(pairs, x) for x in sizes]),
                ("AtomGrid(one size for all shells)", f"AtomGrid(rgrid, None, sizes=[{s1}], {tail}", [_least_size(pairs, s1)] * n),
                ("AtomGrid(degrees and sizes: the documentation says sizes are used)", f"AtomGrid(rgrid, {degs!r}, sizes={sizes!r}, {tail}", [_least_size(pairs, x) for x in sizes]),
                ("AtomGrid(degrees and sizes as arrays: the documentation says sizes are used)",
                 f"AtomGrid(rgrid, degrees=np.array({degs!r}), sizes=np.array({sizes!r}), {tail}", [_least_size(pairs, x) for x in sizes]),
            ]
            for what, call, want in (variants if large or k < 4 else rng.sample(variants[:5], 2) + variants[5:]):
                _run_combo(ctx, key, what, call, want, method, seed, cen_src[1], pts, wts, may_reject, dict(w3, call=call))
    parts.run('from_pruned and the constructor: every documented argument combination', _part0)

    # ---- from_preset: with / without rgrid, centre None / given / omitted, rotate int / bool / NumPy integer, method positional / keyword
    def _part1():
        utils = importlib.import_module("grid.utils")
        small = [(p, z) for p in ("coarse", "medium", "sg_0", "g1") for z in sorted(tabs[p][0]) if z <= 18 and (p, z) not in (("sg_0", 7), ("sg_0", 15))]
        for k in range(8 if not large else 80):
            p, z = rng.choice(small)
            method = METHODS[k % 4] if k % 2 else "lebedev"
            pairs = _supported(ang, method)
            rad, npt, nshell = tabs[p][0][z]
            with_rgrid = k % 4 != 3 or z not in utils._DEFAULT_POWER_RTRANSFORM_PARAMS or rad.dtype.kind == "i"
            if with_rgrid:
                nr = int(rad.sum()) if rad.dtype.kind == "i" else rng.randrange(3, 9)
                pts = np.array([rng.uniform(0, float(rad.max()) * 1.3 if rad.dtype.kind != "i" else 12.0) for _ in range(nr)])
                wts = np.array([rng.uniform(0.1, 1.0) for _ in range(nr)])
                rp = pts
            else:  # the element's default radial grid: its nodes are read back from the grid (their range is checked by `default-rgrid`)
                pts = wts = None
                rmin, rmax, nr = utils._DEFAULT_POWER_RTRANSFORM_PARAMS[z]
                rt, od = importlib.import_module("grid.rtransform"), importlib.import_module("grid.onedgrid")
                b = 1.0e-10 / 5.29177210903e-11
                rp = rt.PowerRTransform(rmin * b, rmax * b).transform_1d_grid(od.UniformInteger(nr)).points
                if any(abs(float(bb) / float(r) - 1) < 1e-6 for bb in rad for r in rp):
                    continue  # a default node within the CODATA uncertainty of a sector bound: the reference cannot place it
            want = [_least_size(pairs, t) if t is not None else None for t in _tabulated_sizes(rad, npt, rp)]
            if any(x is None for x in want) or sum(x[1] for x in want) > 12000:
                continue
            cen = [float(rng.randrange(-4, 5)) for _ in range(3)]
            rot_src, seed, may_reject = rng.choice(_rot_variants(rng, nr))
            rg_src = "rgrid" if with_rgrid else rng.choice(["None", ""])
            style = rng.choice(["positional", "keyword", "mixed"])
            cchoice = rng.choice(["None", "given", "omitted"])
            if style == "positional" or (rg_src == "" and False):
                call = f"AtomGrid.from_preset({z}, {p!r}, {rg_src or 'None'}, {'None' if cchoice != 'given' else 'np.array(' + repr(cen) + ')'}, {rot_src}, method)"
            elif style == "keyword":
                call = (f"AtomGrid.from_preset(atnum={z}, preset={p!r}, " + (f"rgrid={rg_src}, " if rg_src else "")
                        + ("center=None, " if cchoice == "None" else f"center={cen!r}, " if cchoice == "given" else "") + f"rotate={rot_src}, method=method)")
            else:
                call = (f"AtomGrid.from_preset({z}, {p!r}, " + (f"{rg_src}, " if rg_src else "rgrid=None, ")
                        + ("center=None, " if cchoice == "None" else f"center=np.array({cen!r}), " if cchoice == "given" else "") + f"rotate={rot_src}, method=method)")
            what = f"from_preset({'with' if with_rgrid else 'without'} rgrid, center {cchoice}, {style} arguments) [{p}, Z={z}]"
            _run_combo(ctx, "atomgrid.AtomGrid.from_preset:arguments", what, call, want, method, seed, cen if cchoice == "given" else [0.0, 0.0, 0.0], pts, wts, may_reject,
                       {"preset": p, "atnum": z, "method": method, "call": call, "rgrid_points": None if pts is None else pts.tolist()})
    parts.run('from_preset: with / without rgrid, centre None / given / omitted, rotate int / bool / NumP', _part1)

    parts.finish()

# ----------------------------------------------------------------------------
# round 4 (AGENT_ROUND4 classes 14 - 20), implementation side; every scenario is a self-contained source text that is
# executed here and stored as the replay snippet
# ----------------------------------------------------------------------------
SCEN_HEAD = SNIP_HEAD + """def tup(g):
    out = [g.points, g.weights, np.asarray(g.indices), np.asarray(g.degrees)]
    for i in range(len(g.degrees)):
        for b in (True, False):
            sg = g.get_shell_grid(i, r_sq=b)
            out += [sg.points, sg.weights]
    return out
def same(a, b):
    return len(a) == len(b) and all(np.asarray(x).shape == np.asarray(y).shape and np.array_equal(np.asarray(x, dtype=float), np.asarray(y, dtype=float), equal_nan=True)
                                    for x, y in zip(a, b))
"""

# class 14: dtype / layout of the arrays held by the radial grid object (and of the other array arguments)
SCEN_DTYPES = SCEN_HEAD + """pts, wts = np.array({pts!r}), np.array({wts!r})          # exactly representable in the narrow kinds used below
degs, sizes, cen, rotate, method = {degs!r}, {sizes!r}, {cen!r}, {rotate}, {method!r}
radius, rsect, dsec = {radius!r}, {rsect!r}, {dsec!r}
def conv(a, kind, integer=False):
    a = np.array(a, dtype=np.int64 if integer else float)
    if kind == 'float32': return a.astype(np.int32 if integer else np.float32)
    if kind == 'narrow-int': return a.astype(np.int16 if integer else np.int32)
    if kind == 'uint8': return a.astype(np.uint8)
    if kind == 'bool': return a.astype(bool)
    if kind == 'readonly': a.flags.writeable = False; return a
    if kind == 'strided': return np.repeat(a, 3)[::3]
    if kind == 'negative-stride': return a[::-1].copy()[::-1]
    if kind == 'view-2d-column': return np.asfortranarray(np.stack([a, a + 1], axis=1))[:, 0]
    return a
def build(kind, akind):
    rg = OneDGrid(conv(pts, kind), conv(wts, 'bool' if kind == 'bool-weights' else kind), (0, np.inf))
    return [
        tup(AtomGrid(rg, degrees=conv(degs, akind, True), center=conv(cen, akind), rotate=rotate, method=method)),
        tup(AtomGrid(rg, None, sizes=conv(sizes, akind, True), center=conv(cen, akind), rotate=rotate, method=method)),
        tup(AtomGrid.from_pruned(rg, radius, conv(rsect, akind), conv(dsec, akind, True), center=conv(cen, akind), rotate=rotate, method=method)),
        list(AtomGrid._generate_atomic_grid(rg, conv(degs, akind, True), rotate=rotate, method=method)),
        tup(AtomGrid.from_preset({atnum}, {preset!r}, rg, conv(cen, akind), rotate, method)) if {with_preset} else [],
    ]
ref = build('float64', 'float64')
for kind, akind in {kinds!r}:
    got = build(kind, akind)
    for name, a, b in zip(('AtomGrid(degrees=)', 'AtomGrid(sizes=)', 'from_pruned', '_generate_atomic_grid', 'from_preset'), got, ref):
        assert all(np.asarray(x).dtype == np.float64 for x in a[:2]), f'{{name}}: points / weights are not float64 when the radial grid holds {{kind}} arrays'
        assert same(a, b), f'{{name}}: the grid (or a shell grid, r_sq True / False) built on a radial grid holding {{kind}} arrays with {{akind}} array arguments differs from the float64 computation'
"""

# class 16: one argument object used for several requests, as views into larger caller arrays
SCEN_SHARED = SCEN_HEAD + """pts0, wts0 = np.array({pts!r}), np.array({wts!r})
degs0, sizes0, cen0, rotate, method = {degs!r}, {sizes!r}, {cen!r}, {rotate}, {method!r}
radius, rsect0, dsec0, ssec0 = {radius!r}, {rsect!r}, {dsec!r}, {ssec!r}
def embed(a, dtype):   # the caller's larger array; the argument is a view into it
    big = np.arange(100, 100 + len(a) + 9).astype(dtype)
    big[4:4 + len(a)] = a
    return big, big[4:4 + len(a)]
bigs = dict()
for nm, a, dt in (('pts', pts0, float), ('wts', wts0, float), ('degs', degs0, np.int64), ('sizes', sizes0, np.int64), ('cen', cen0, float),
                  ('rsect', rsect0, float), ('dsec', dsec0, np.int64), ('ssec', ssec0, np.int64)):
    bigs[nm] = embed(a, dt)
guard = dict((k, v[0].copy()) for k, v in bigs.items())
V = dict((k, v[1]) for k, v in bigs.items())
rg = OneDGrid(V['pts'], V['wts'], (0, np.inf))     # one radial grid object for every request
def fresh():   # pristine copies of everything
    return OneDGrid(pts0.copy(), wts0.copy(), (0, np.inf))
calls = [
    ('AtomGrid(degrees=)', lambda: AtomGrid(rg, degrees=V['degs'], center=V['cen'], rotate=rotate, method=method),
     lambda: AtomGrid(fresh(), degrees=list(degs0), center=list(cen0), rotate=rotate, method=method)),
    ('AtomGrid(sizes=)', lambda: AtomGrid(rg, None, sizes=V['sizes'], center=V['cen'], rotate=rotate, method=method),
     lambda: AtomGrid(fresh(), None, sizes=list(sizes0), center=list(cen0), rotate=rotate, method=method)),
    ('AtomGrid(degrees=the sizes array)', lambda: AtomGrid(rg, degrees=V['sizes'] % 20, center=V['cen'], rotate=rotate, method=method),
     lambda: AtomGrid(fresh(), degrees=[int(x) % 20 for x in sizes0], center=list(cen0), rotate=rotate, method=method)),
    ('from_pruned(d_sectors=)', lambda: AtomGrid.from_pruned(rg, radius, V['rsect'], V['dsec'], center=V['cen'], rotate=rotate, method=method),
     lambda: AtomGrid.from_pruned(fresh(), radius, list(rsect0), list(dsec0), center=list(cen0), rotate=rotate, method=method)),
    ('from_pruned(s_sectors=)', lambda: AtomGrid.from_pruned(rg, radius, V['rsect'], None, s_sectors=V['ssec'], center=V['cen'], rotate=rotate, method=method),
     lambda: AtomGrid.from_pruned(fresh(), radius, list(rsect0), None, s_sectors=list(ssec0), center=list(cen0), rotate=rotate, method=method)),
    ('from_pruned(d_sectors=the s_sectors array, other method)', lambda: AtomGrid.from_pruned(rg, radius, V['rsect'], V['ssec'] % 15, center=V['cen'], rotate=rotate, method={method2!r}),
     lambda: AtomGrid.from_pruned(fresh(), radius, list(rsect0), [int(x) % 15 for x in ssec0], center=list(cen0), rotate=rotate, method={method2!r})),
    ('_generate_atomic_grid', lambda: AtomGrid._generate_atomic_grid(rg, V['degs'], rotate=rotate, method=method),
     lambda: AtomGrid._generate_atomic_grid(fresh(), list(degs0), rotate=rotate, method=method)),
]
refs = dict((nm, (list(r()) if nm == '_generate_atomic_grid' else tup(r()))) for nm, c, r in calls)   # before anything touched the shared objects
done = []
for k in {order!r}:
    nm, call, _ = calls[k]
    got = call()
    got = list(got) if nm == '_generate_atomic_grid' else tup(got)
    done.append(nm)
    assert same(got, refs[nm]), f'after the requests {{done}} on the same argument objects: {{nm}} differs from the grid built from pristine copies of the arguments'
    for key in bigs:
        assert bigs[key][0].tobytes() == guard[key].tobytes(), f'after the requests {{done}}: the caller array holding `{{key}}` was modified (the argument is a view into it)'
"""

# class 18: a call that raises leaves no trace
SCEN_RAISES = SCEN_HEAD + """pts, wts = np.array({pts!r}), np.array({wts!r})
degs, cen, rotate, method = {degs!r}, {cen!r}, {rotate}, {method!r}
def rgrid(): return OneDGrid(pts.copy(), wts.copy(), (0, np.inf))
def build(): return AtomGrid(rgrid(), degrees=list(degs), center=list(cen), rotate=rotate, method=method)
ref = tup(build())
ref_int = build().integrate(np.arange(build().size) * 0.5)
g = build()
n = len(degs)
rejected = [
    ('get_shell_grid(-1)', lambda: g.get_shell_grid(-1)),
    ('get_shell_grid(n)', lambda: g.get_shell_grid(n)),
    ('get_shell_grid(n, r_sq=False)', lambda: g.get_shell_grid(n, r_sq=False)),
    ('get_shell_grid(-n-1)', lambda: g.get_shell_grid(-n - 1)),
    ('integrate(array of another size)', lambda: g.integrate(np.ones(g.size + 1))),
    ('integrate()', lambda: g.integrate()),
    ('assignment to points', lambda: setattr(g, 'points', np.zeros((g.size, 3)))),
    ('AtomGrid(unsupported degree) on the same radial grid', lambda: AtomGrid(g.rgrid, degrees=[100000] * n, method=method)),
    ('AtomGrid(one shell unsupported)', lambda: AtomGrid(g.rgrid, degrees=list(degs[:-1]) + [100000], center=list(cen), rotate=rotate, method=method)),
    ('AtomGrid(too many degrees)', lambda: AtomGrid(g.rgrid, degrees=list(degs) + [3, 3], method=method)),
    ('AtomGrid(rotate=-1)', lambda: AtomGrid(g.rgrid, degrees=list(degs), rotate=-1, method=method)),
    ('AtomGrid(rotate=2**32)', lambda: AtomGrid(g.rgrid, degrees=list(degs), rotate=2 ** 32, method=method)),
    ('AtomGrid(rotate=1.5)', lambda: AtomGrid(g.rgrid, degrees=list(degs), rotate=1.5, method=method)),
    ('AtomGrid(rotate=np.int64(3))', lambda: AtomGrid(g.rgrid, degrees=list(degs), rotate=np.int64(3), method=method)),
    ('AtomGrid(center of shape (2,))', lambda: AtomGrid(g.rgrid, degrees=list(degs), center=[0.0, 1.0], method=method)),
    ('AtomGrid(degrees as tuple)', lambda: AtomGrid(g.rgrid, degrees=tuple(degs), method=method)),
    ('AtomGrid(sizes too large)', lambda: AtomGrid(g.rgrid, None, sizes=[10 ** 7] * n, method=method)),
    ('AtomGrid(unknown method)', lambda: AtomGrid(g.rgrid, degrees=list(degs), method='lebedew')),
    ('from_pruned(sector lists do not match)', lambda: AtomGrid.from_pruned(g.rgrid, 1.0, [0.5, 1.0], [3, 5], method=method)),
    ('from_pruned(neither d_sectors nor s_sectors)', lambda: AtomGrid.from_pruned(g.rgrid, 1.0, [0.5], None, method=method)),
    ('from_preset(sg_3, Z=14)', lambda: AtomGrid.from_preset(14, 'sg_3', OneDGrid(np.linspace(0.1, 9, 99), np.ones(99), (0, np.inf)), method=method)),
    ('from_preset(element not tabulated)', lambda: AtomGrid.from_preset(85, 'sg_1', g.rgrid, method=method)),
    ('from_preset(unknown preset)', lambda: AtomGrid.from_preset(1, 'no_such_preset', g.rgrid, method=method)),
    ('from_preset(wrong radial size)', lambda: AtomGrid.from_preset(1, 'g1', g.rgrid, method=method)),
    ('radial grid with a negative node', lambda: AtomGrid(OneDGrid(np.array([-0.5, 1.0]), np.ones(2)), degrees=[3, 3], method=method)),
    ('_generate_atomic_grid(rotate=2.0)', lambda: AtomGrid._generate_atomic_grid(g.rgrid, list(degs), rotate=2.0, method=method)),
]
done = []
for k in {order!r}:
    nm, call = rejected[k]
    try:
        call()
        continue          # accepted by this tree: not a rejected call, nothing to check
    except Exception:
        pass
    done.append(nm)
    assert same(tup(g), ref), f'after the rejected calls {{done}}: the grid object they were made on (or with whose radial grid they were made) changed'
    v = g.integrate(np.arange(g.size) * 0.5)
    assert v == ref_int, f'after the rejected calls {{done}}: integrate on the same object gives {{v!r}}, before {{ref_int!r}}'
    assert same(tup(build()), ref), f'after the rejected calls {{done}}: a new construction in the same process differs from the one made before them'
"""

# class 17: kinds of function-value arrays (the quadrature is linear: complex data integrate component-wise)
SCEN_VALUES = SCEN_HEAD + """pts, wts = np.array({pts!r}), np.array({wts!r})
g = AtomGrid(OneDGrid(pts, wts, (0, np.inf)), degrees={degs!r}, center={cen!r}, rotate={rotate}, method={method!r})
rs = np.random.RandomState({seed})
f = np.round(rs.uniform(-4, 4, g.size) * 8) / 8           # exactly representable in float32 / float16
h = np.round(rs.uniform(-4, 4, g.size) * 8) / 8
W = g.weights
scale = np.sum(np.abs(W)) * 16 + 1e-300
def close(a, b): return abs(a - b) <= 1e-12 * scale
ref = np.sum(W * f)
for name, v in (('float32', f.astype(np.float32)), ('float16', f.astype(np.float16)), ('longdouble', f.astype(np.longdouble)), ('list', f.tolist()),
                ('read-only', np.frombuffer(f.tobytes(), dtype=float)), ('negative stride', f[::-1].copy()[::-1]), ('strided', np.repeat(f, 2)[::2])):
    assert close(g.integrate(np.asarray(v) if name == 'list' else v), ref), f'integrate of {{name}} function values differs from sum(w f)'
fi = np.round(f).astype(np.int64)
assert close(g.integrate(fi), np.sum(W * fi.astype(float))) and close(g.integrate(fi.astype(np.int32)), np.sum(W * fi.astype(float))), 'integrate of integer function values'
fb = f > 0
assert close(g.integrate(fb), np.sum(W[fb])), 'integrate of boolean function values (a mask) is not the sum of the weights inside the mask'
for name, z in (('complex128', f + 1j * h), ('complex64', (f + 1j * h).astype(np.complex64)), ('purely imaginary', 1j * h)):
    got = g.integrate(z)
    assert close(np.real(got), np.sum(W * np.real(z).astype(float))) and close(np.imag(got), np.sum(W * np.imag(z).astype(float))), (
        f'integrate of {{name}} function values is not integrate(real part) + i integrate(imaginary part): {{got!r}}')
got = g.integrate(f.astype(np.float32), h + 0j, fb)
assert close(got, np.sum(W * f * h * fb)), 'integrate of a product of arrays of different kinds (float32, complex, bool)'
# the factorisation clause with a complex angular factor: g(r) (x + i y)^m / r^m integrates to 0 for 1 <= m <= smallest shell degree
c = np.array({cen!r}); D = g.points - c; r = np.sqrt((D ** 2).sum(axis=1))
m = min({mmax}, int(min(g.degrees)))
if m >= 1 and np.all(pts > 0.05) and abs(c).max() == 0:
    z = np.exp(-0.3 * r) * ((D[:, 0] + 1j * D[:, 1]) / r) ** m
    assert abs(g.integrate(z)) <= 1e-9 * np.sum(np.abs(W) * np.exp(-0.3 * r)) + 1e-300, f'integral of g(r) e^(i m phi) sin^m(theta), m = {{m}}, is {{g.integrate(z)!r}}, not 0'
"""


def _exec_scenario(ctx: Ctx, key, code, what, witness, tag):
    ctx.count(["scenario", tag, witness], nontrivial=True, tag="oracle:" + tag)
    try:
        exec(compile(code, "<c05-" + tag + ">", "exec"), {"__name__": "c05_scenario"})
    except AssertionError as e:
        ctx.fail("oracle", key, f"{str(e)[:400]} [{what}]", witness=witness, snippet=code)
    except Exception as e:  # noqa: BLE001   the library raised inside the envelope of the scenario
        import traceback

        ctx.fail("oracle", key + ":raises", f"{type(e).__name__}: {str(e)[:300]} [{what}]",
                 witness=dict(witness, traceback="".join(traceback.format_exception(type(e), e, e.__traceback__))[-1500:]), snippet=code)


def _exact_rgrid(ctx: Ctx, integer=False):
    """radial nodes / weights exactly representable in float32 (multiples of 1/64 below 8) or small integers"""
    rng = ctx.rng
    n = rng.choice([1, 2, 3, 4, 5])
    if integer:
        pts = rng.sample(range(0, 13), n) if rng.random() < 0.5 else sorted(rng.sample(range(1, 13), n))
        wts = [rng.randrange(1, 4) for _ in range(n)]
        return [float(v) for v in pts], [float(v) for v in wts]
    pts = [rng.randrange(0 if rng.random() < 0.2 else 1, 512) / 64 for _ in range(n)]
    if rng.random() < 0.5:
        pts.sort()
    return pts, [rng.randrange(1, 256) / 64 for _ in range(n)]


def _oracle_round4(ctx: Ctx, ag, ang, bg, budget):
    rng = ctx.rng
    large = budget != "small"
    tabs = _preset_tables()
    parts = _Parts(ctx, "oracle", "atomgrid.oracle-round4")

    def common(method, integer=False):
        pairs = _supported(ang, method)
        pts, wts = _exact_rgrid(ctx, integer)
        n = len(pts)
        dmax = MAXDEG[method]
        smax = max(sz for d, sz in pairs if d <= dmax)
        S = rng.randrange(1, 4)
        rsect = sorted(rng.sample(range(1, 7), S)) if integer else sorted(rng.sample(range(8, 400), S))
        rsect = [float(v) for v in rsect] if integer else [v / 64 for v in rsect]
        return dict(pts=pts, wts=wts, degs=[rng.randrange(0, dmax + 1) for _ in range(n)], sizes=[rng.randrange(0, min(smax, 255) + 1) for _ in range(n)],
                    cen=[float(rng.randrange(-4, 5)) for _ in range(3)], rotate=rng.choice([0, rng.randrange(1, 10 ** 5)]), method=method,
                    radius=2.0 if integer else rng.choice([1.0, 1.5, 0.75]), rsect=rsect, dsec=[rng.randrange(0, dmax + 1) for _ in range(S + 1)],
                    ssec=[rng.randrange(0, min(smax, 255) + 1) for _ in range(S + 1)])

    # ---- class 14 --------------------------------------------------------------------------------------------------------------
    def dtypes():
        for k in range(6 if not large else 80):
            method = METHODS[k % 4]
            integer = k % 2 == 1
            a = common(method, integer)
            if integer:
                a["cen"] = [float(rng.randrange(0, 5)) for _ in range(3)]   # unsigned kinds below
                kinds = [("narrow-int", "narrow-int"), ("uint8", "uint8"), ("float32", "float32"), ("bool-weights", "float64")]
                a["wts"] = [1.0] * len(a["pts"]) if k % 4 == 3 else a["wts"]
                if k % 4 != 3:
                    kinds = kinds[:3]
            else:
                kinds = [("float32", "float32"), ("readonly", "readonly"), ("strided", "strided"), ("negative-stride", "negative-stride"),
                         ("view-2d-column", "view-2d-column"), ("float64", "negative-stride"), ("negative-stride", "float64")]
            # a preset route on the same radial grid object (sector form: any radial size)
            p, z = rng.choice([("coarse", 1), ("medium", 6), ("coarse", 8)])
            code = SCEN_DTYPES.format(kinds=kinds, atnum=z, preset=p, with_preset=True, **{k2: v for k2, v in a.items() if k2 != "ssec"})
            _exec_scenario(ctx, "atomgrid.AtomGrid:array-kinds-inside-objects", code,
                           f"method={method}, radial nodes {a['pts']}, kinds {[kk for kk, _ in kinds]}", {"method": method, "rgrid_points": a["pts"], "kinds": kinds}, "array-kinds-inside-objects")
    parts.run("class 14: dtype / layout of the arrays inside the radial grid object", dtypes)

    # ---- class 16 --------------------------------------------------------------------------------------------------------------
    def shared():
        for k in range(6 if not large else 80):
            method = METHODS[k % 4]
            a = common(method)
            order = [rng.randrange(7) for _ in range(rng.randrange(5, 10))]
            order = [0, 0, 0, 1, 1, 3, 4] + order if k % 3 == 0 else order   # the same entry point two and three times in a row
            code = SCEN_SHARED.format(order=order, method2=METHODS[(k + 1) % 4], **a)
            _exec_scenario(ctx, "atomgrid.AtomGrid:shared-argument-objects", code, f"method={method}, order={order}",
                           {"method": method, "rgrid_points": a["pts"], "order": order}, "shared-argument-objects")
    parts.run("class 16: the same argument objects (views into larger arrays) for several requests", shared)

    # ---- class 18 --------------------------------------------------------------------------------------------------------------
    def raises():
        for k in range(5 if not large else 60):
            method = METHODS[k % 4]
            a = common(method)
            order = list(range(26))
            rng.shuffle(order)
            order = order[:rng.randrange(8, 16)] if not large else order
            code = SCEN_RAISES.format(order=order, **{k2: a[k2] for k2 in ("pts", "wts", "degs", "cen", "rotate", "method")})
            _exec_scenario(ctx, "atomgrid.AtomGrid:rejected-call-leaves-no-trace", code, f"method={method}, degrees={a['degs']}",
                           {"method": method, "rgrid_points": a["pts"], "degrees": a["degs"], "order": order}, "rejected-call-leaves-no-trace")
    parts.run("class 18: a rejected call leaves no trace", raises)

    # ---- class 17 --------------------------------------------------------------------------------------------------------------
    def values():
        for k in range(6 if not large else 60):
            method = METHODS[k % 4]
            a = common(method)
            if k % 2 == 0:
                a["cen"] = [0.0, 0.0, 0.0]
                a["pts"] = [max(v, 0.125) for v in a["pts"]]
            code = SCEN_VALUES.format(seed=rng.randrange(10 ** 6), mmax=rng.randrange(1, 9), **{k2: a[k2] for k2 in ("pts", "wts", "degs", "cen", "rotate", "method")})
            _exec_scenario(ctx, "atomgrid.AtomGrid.integrate:value-kinds", code, f"method={method}, degrees={a['degs']}",
                           {"method": method, "rgrid_points": a["pts"], "degrees": a["degs"]}, "integrate-value-kinds")
    parts.run("class 17: kinds of the function values handed to integrate", values)

    # ---- class 19: where the layers below are extreme -------------------------------------------------------------------------------
    def lower_layers():
        rt, od = importlib.import_module("grid.rtransform"), importlib.import_module("grid.onedgrid")
        # radial layer (C01 / C03 / C04): transforms with trimmed ends (r = 1e16), weights up to 1e14, zero end weights, negative
        # weights (MultiExp), nodes at 1e-8 and exactly at 0. Envelope (measured on the unchanged tree): all nodes and weights finite
        # and r**2 finite; MultiExp on a closed rule has a weight of -inf and is left out.
        radial = [
            ("Becke o GaussChebyshev", lambda: rt.BeckeRTransform(1e-4, 1.5).transform_1d_grid(od.GaussChebyshev(7))),
            ("Becke o ClenshawCurtis (node trimmed to 1e16)", lambda: rt.BeckeRTransform(1e-4, 1.5).transform_1d_grid(od.ClenshawCurtis(6))),
            ("Knowles o ClenshawCurtis (1e16, weight 1e14, weight 0)", lambda: rt.KnowlesRTransform(1e-4, 1.5, 2).transform_1d_grid(od.ClenshawCurtis(7))),
            ("Handy o TanhSinh (end clustering)", lambda: rt.HandyRTransform(1e-4, 1.5, 3).transform_1d_grid(od.TanhSinh(7, 0.5))),
            ("MultiExp o GaussChebyshev (negative weights)", lambda: rt.MultiExpRTransform(1e-4, 1.5).transform_1d_grid(od.GaussChebyshev(6))),
            ("HandyMod o ClenshawCurtis (finite interval, zero end weights)", lambda: rt.HandyModRTransform(1e-4, 30.0, 2).transform_1d_grid(od.ClenshawCurtis(6))),
            ("LinearFinite o ClenshawCurtis (node exactly at 0)", lambda: rt.LinearFiniteRTransform(0.0, 10.0).transform_1d_grid(od.ClenshawCurtis(5))),
            ("Power o UniformInteger (rmin 1e-8)", lambda: rt.PowerRTransform(1e-8, 20.0).transform_1d_grid(od.UniformInteger(7))),
            ("Exp o UniformInteger", lambda: rt.ExpRTransform(1e-5, 50.0).transform_1d_grid(od.UniformInteger(6))),
            ("Hyperbolic o UniformInteger (domain end nan)", lambda: rt.HyperbolicRTransform(0.1, 0.05).transform_1d_grid(od.UniformInteger(6))),
        ]
        # angular layer (C02 / C12): the Lebedev grids with negative weights (13, 25, 27), the smallest grid of every method, a large one
        special_deg = {"lebedev": [13, 25, 27, 3, 65], "spherical": [1, 2, 3, 60], "maxdet": [1, 2, 50], "ahrens_beylkin": [14, 19, 70]}
        pick = radial if large else rng.sample(radial, 4)
        for name, mk in pick:
            rg0 = mk()
            P, Wt = np.array(rg0.points, dtype=float), np.array(rg0.weights, dtype=float)
            if not (np.all(np.isfinite(P)) and np.all(np.isfinite(Wt)) and np.all(P <= 1e150) and np.all(P >= 0)):
                ctx.info(f"radial grid {name} is outside the envelope (non-finite node / weight) and is skipped")
                continue
            method = rng.choice(METHODS)
            degs = [rng.choice(special_deg[method]) if rng.random() < 0.6 else rng.randrange(0, MAXDEG[method] + 1) for _ in P]
            ctx.count(["lower-layers", name, method, degs], nontrivial=True, tag="oracle:lower-layers:" + name.split(" (")[0])
            _oracle_grid(ctx, ag, ang, bg, method, P, Wt, degs, rng.choice([0, rng.randrange(1, 10 ** 5)]), _rand_center(ctx), "atomgrid.AtomGrid", mk_rgrid=mk)
    parts.run("class 19: extreme radial / angular layers", lower_layers)

    # ---- class 20: sizes 1 and 2, every pair of shell sizes different, first / last shell special -----------------------------------
    def shapes():
        cases = [
            ("spherical", [0.5], [1]), ("spherical", [0.5, 1.25], [1, 1]), ("spherical", [0.5, 1.25], [1, 3]), ("spherical", [1.25, 0.5], [3, 1]),
            ("spherical", [0.25, 0.5, 2.0], [1, 3, 5]), ("spherical", [0.25, 0.5, 2.0], [5, 3, 1]), ("maxdet", [0.5], [1]), ("maxdet", [0.5, 1.0], [1, 2]),
            ("maxdet", [0.5, 1.0, 3.0], [2, 1, 3]), ("lebedev", [2.0], [3]), ("lebedev", [2.0, 0.0], [3, 5]), ("lebedev", [0.0, 2.0, 1.0], [7, 5, 3]),
            ("lebedev", [0.3, 0.6, 0.9], [3, 3, 3]),      # 3 shells x 6 points: neither dimension can be told from 3
            ("ahrens_beylkin", [1.0], [14]), ("ahrens_beylkin", [1.0, 2.0], [19, 14]),
        ]
        for method, pts, degs in (cases if large else rng.sample(cases, 8)):
            wts = [rng.randrange(1, 9) / 4 for _ in pts]
            ctx.count(["shapes", method, pts, degs], nontrivial=True, tag="oracle:shapes-1-2")
            for rotate in (0, rng.randrange(1, 10 ** 5)):
                _oracle_grid(ctx, ag, ang, bg, method, np.array(pts), np.array(wts), degs, rotate, rng.choice([None, np.array([1.0, -2.0, 0.5])]), "atomgrid.AtomGrid")
    parts.run("class 20: one and two shells, 2-point spheres, unequal shell sizes", shapes)

    # ---- class 15 (rest): omitted vs explicitly None vs explicitly the declared default -----------------------------------------------
    def explicit_defaults():
        import inspect

        for k in range(4 if not large else 40):
            method = "lebedev"   # the declared default method
            a = common(method)
            pairs = _supported(ang, method)
            sig = {f: {n: p.default for n, p in inspect.signature(getattr(ag.AtomGrid, f)).parameters.items() if p.default is not inspect.Parameter.empty}
                   for f in ("__init__", "from_pruned", "from_preset")}
            d0 = sig["__init__"]["degrees"]
            n = len(a["pts"])
            want0 = [_least_degree(pairs, int(d0[0]))] * n
            zero = [0.0, 0.0, 0.0]
            bounds = np.array(a["rsect"]) * a["radius"]
            wantp = [_least_degree(pairs, a["dsec"][sum(1 for b in bounds if b < r)]) for r in a["pts"]]
            seed0 = int(sig["__init__"]["rotate"])
            exp_i = ", ".join(f"{nm}={v!r}" for nm, v in sig["__init__"].items())
            exp_p = ", ".join(f"{nm}={v!r}" for nm, v in sig["from_pruned"].items() if nm != "d_sectors")
            wit = {"method": method, "rgrid_points": a["pts"], "rgrid_weights": a["wts"]}
            for what, call, want in [
                ("AtomGrid(rgrid): everything omitted", "AtomGrid(rgrid)", want0),
                ("AtomGrid(rgrid, every optional argument explicitly at its declared default)", f"AtomGrid(rgrid, {exp_i})", want0),
                ("AtomGrid(rgrid, sizes=None, center=None) explicitly None", "AtomGrid(rgrid, sizes=None, center=None)", want0),
                ("from_pruned(d_sectors, everything else omitted)", f"AtomGrid.from_pruned(rgrid, {a['radius']!r}, {a['rsect']!r}, {a['dsec']!r})", wantp),
                ("from_pruned(d_sectors, every optional argument explicitly at its declared default)",
                 f"AtomGrid.from_pruned(rgrid, {a['radius']!r}, {a['rsect']!r}, {a['dsec']!r}, {exp_p})", wantp),
            ]:
                if sum(x[1] for x in want) <= 9000:
                    _run_combo(ctx, "atomgrid.AtomGrid:arguments", what, call, want, sig["__init__"]["method"], seed0, zero, a["pts"], a["wts"], False, dict(wit, call=call))
    parts.run("class 15: omitted / None / explicit default", explicit_defaults)
    parts.finish()


# ----------------------------------------------------------------------------
# round 5 (AGENT_ROUND5 classes 21 - 26), implementation side; scenarios are self-contained replay sources
# ----------------------------------------------------------------------------
SHELL_REF = """from scipy.spatial.transform import Rotation
def check(g, rp, rw, degs, seed, center, method, what):
    # the property, shell by shell, from the unit grids, SciPy's matrices and the radial nodes (independent of any state of the library)
    rp, rw, center = np.asarray(rp, dtype=float), np.asarray(rw, dtype=float), np.asarray(center, dtype=float)
    idx = [int(x) for x in g.indices]
    assert len(idx) == len(rp) + 1 and idx[0] == 0 and idx[-1] == g.size == len(g.weights) == len(g.points), f'{what}: index table / size'
    unit = dict()
    for i, d in enumerate(degs):
        if d not in unit:
            a = AngularGrid(degree=d, method=method); unit[d] = (a.degree, a.points.copy(), a.weights.copy())
        dd, U, om = unit[d]
        assert int(g.degrees[i]) == dd and idx[i + 1] - idx[i] == len(om), f'{what}: shell {i} at r={rp[i]!r} has degree {int(g.degrees[i])} / {idx[i + 1] - idx[i]} points, requested {d}'
        R = Rotation.random(random_state=seed + i).as_matrix() if seed else np.eye(3)
        rel = rp[i] * (U @ R)
        tol = 1e-11 * max(rp[i], abs(center).max()) + 1e-11 * rp[i] + 1e-300
        assert np.all(abs(g.points[idx[i]:idx[i + 1]] - (center + rel)) <= tol), f'{what}: shell {i} at r={rp[i]!r}: points are not centre + r_i (u_j R_i)'
        ww = om * rw[i] * rp[i] ** 2
        assert np.all(abs(g.weights[idx[i]:idx[i + 1]] - ww) <= 1e-12 * abs(ww) + 2e-323), f'{what}: shell {i} at r={rp[i]!r}: weights are not w_i r_i^2 omega_j'
def check_shell(g, i, rp, rw, degs, seed, method, what):
    a = AngularGrid(degree=degs[i], method=method)
    R = Rotation.random(random_state=seed + i).as_matrix() if seed else np.eye(3)
    for rsq in (True, False):
        sg = g.get_shell_grid(i, r_sq=rsq)
        wref = a.weights * rw[i] * (rp[i] ** 2 if rsq else 1.0)
        assert np.all(abs(sg.points - rp[i] * (a.points @ R)) <= 1e-11 * rp[i] + 1e-300) and np.all(abs(sg.weights - wref) <= 1e-12 * abs(wref) + 2e-323), (
            f'{what}: get_shell_grid({i}, r_sq={rsq}) does not carry shell {i}')
"""

# class 21: counts just above block sizes
SCEN_SIZES = SNIP_HEAD + SHELL_REF.replace('{', '{{').replace('}', '}}') + """n, method, degs_cycle, seed, center = {n}, {method!r}, {cycle!r}, {seed}, {center!r}
rs = np.random.RandomState({rseed})
rp = rs.uniform(0.0, 6.0, n); rp[rs.randint(n)] = 0.0
rw = rs.uniform(0.1, 2.0, n)
degs = [degs_cycle[i % len(degs_cycle)] for i in range(n)]
g = AtomGrid(OneDGrid(rp, rw, (0, np.inf)), degrees=degs, center=center, rotate=seed, method=method)
res = [AngularGrid(degree=d, method=method).degree for d in degs_cycle]
rdegs = [res[i % len(res)] for i in range(n)]
check(g, rp, rw, rdegs, seed, center, method, f'{{n}} shells')
for i in (0, 1, n // 2, n - 2, n - 1):
    check_shell(g, i, rp, rw, rdegs, seed, method, f'{{n}} shells')
# reduction over all points: additivity over a split of the same values
f = rs.uniform(-1, 1, g.size); k = g.size // 3 + 1
tot = g.integrate(f); part = np.sum(g.weights[:k] * f[:k]) + np.sum(g.weights[k:] * f[k:])
assert abs(tot - part) <= 1e-10 * np.sum(abs(g.weights)) + 1e-300, f'integrate over {{g.size}} points is not the sum over a split of the points'
# sector lookup, element-wise: every radius on its own, and f(all) == concat(f(part1), f(part2))
bounds = np.array({bounds!r}); dsec = np.array({dsec!r})
m = {nlook}
rr = rs.uniform(0, 1.2 * bounds.max(), m); rr[::7] = bounds[rs.randint(len(bounds), size=len(rr[::7]))]
full = AtomGrid._find_degrees_for_radial_points(rr, bounds, dsec)
cut = m // 2 + 3
two = np.concatenate([AtomGrid._find_degrees_for_radial_points(rr[:cut], bounds, dsec), AtomGrid._find_degrees_for_radial_points(rr[cut:], bounds, dsec)])
want = dsec[[int(np.sum(bounds < r)) for r in rr[-2000:]]]
assert full.shape == (m,) and np.array_equal(full, two) and np.array_equal(full[-2000:], want), f'sector lookup on {{m}} radii differs from the lookup radius by radius'
gp = AtomGrid.from_pruned(OneDGrid(rp, rw, (0, np.inf)), 1.0, r_sectors=bounds, d_sectors={dsec_small!r}, method=method)
wantp = [AngularGrid(degree={dsec_small!r}[int(np.sum(bounds < r))], method=method).degree for r in rp[-300:]]
assert len(gp.degrees) == n and [int(d) for d in gp.degrees[-300:]] == wantp, f'from_pruned on {{n}} radial points: the last shells do not have the degree of their sector'
"""

# classes 23, 25: narrow / extended precision arguments given directly; one array object modified in place between two calls
SCEN_DIRECT = SCEN_HEAD + """pts, wts = np.array({pts!r}), np.array({wts!r})
degs, sizes, cen, rotate, method = {degs!r}, {sizes!r}, {cen!r}, {rotate}, {method!r}
radius, rsect, dsec, ssec = {radius!r}, {rsect!r}, {dsec!r}, {ssec!r}
degs2, sizes2, cen2, rsect2, dsec2, ssec2, pts2, wts2 = {degs2!r}, {sizes2!r}, {cen2!r}, {rsect2!r}, {dsec2!r}, {ssec2!r}, {pts2!r}, {wts2!r}
def rg(p=pts, w=wts): return OneDGrid(np.array(p, dtype=float), np.array(w, dtype=float), (0, np.inf))
def calls(D, S, C, RS, DS, SS, RG, rad=radius):
    return [tup(AtomGrid(RG, degrees=D, center=C, rotate=rotate, method=method)), tup(AtomGrid(RG, None, sizes=S, center=C, rotate=rotate, method=method)),
            tup(AtomGrid.from_pruned(RG, rad, RS, DS, center=C, rotate=rotate, method=method)),
            tup(AtomGrid.from_pruned(RG, rad, RS, None, s_sectors=SS, center=C, rotate=rotate, method=method)),
            list(AtomGrid._generate_atomic_grid(RG, D, rotate=rotate, method=method)),
            [np.asarray(AtomGrid._find_degrees_for_radial_points(RG.points, np.asarray(RS) * rad, np.asarray(DS)))]]
names = ('AtomGrid(degrees=)', 'AtomGrid(sizes=)', 'from_pruned(d_sectors=)', 'from_pruned(s_sectors=)', '_generate_atomic_grid', '_find_degrees_for_radial_points')
ref = calls(list(degs), list(sizes), list(cen), list(rsect), list(dsec), list(ssec), rg())
# class 23: the arguments themselves in a narrower / wider kind (values exactly representable in every kind used)
for fk, ik in {kinds!r}:
    fa = lambda a: np.array(a, dtype=fk)
    ia = lambda a: np.array(a, dtype=ik)
    A = [ia(degs), ia(sizes), fa(cen), fa(rsect), ia(dsec), ia(ssec)]
    keep = [a.tobytes() for a in A]
    rad = np.dtype(fk).type(radius)
    for rep in (1, 2):   # the second call with the very same argument objects
        got = calls(A[0], A[1], A[2], A[3], A[4], A[5], rg(), rad)
        for nm, a, b in zip(names, got, ref):
            assert same(a, b), f'{{nm}} with {{fk}} / {{ik}} arguments (call {{rep}} with the same argument objects) differs from the float64 / list computation'
            assert all(np.asarray(x).dtype == np.float64 for x in a[:2]) or nm.startswith('_find'), f'{{nm}}: points / weights are not float64 for {{fk}} arguments'
        assert [a.tobytes() for a in A] == keep, f'an argument of kind {{fk}} / {{ik}} was modified by the calls'
    # the shell index in every integer kind (narrow kinds only with a small seed: `rotate + index` is evaluated in the kind of the index
    # and NumPy refuses a seed that does not fit it - OverflowError, a rejection; observation reported, not asserted)
    for k in ((np.int8, np.uint8, np.int16, np.uint64, np.intp) if rotate <= 100 else (np.int64, np.uint64, np.intp)):
        gg = AtomGrid(rg(), degrees=list(degs), center=list(cen), rotate=rotate, method=method)
        a, b = gg.get_shell_grid(k(len(degs) - 1), r_sq=False), gg.get_shell_grid(len(degs) - 1, r_sq=False)
        assert np.array_equal(a.points, b.points) and np.array_equal(a.weights, b.weights), f'get_shell_grid(index of kind {{k.__name__}}) differs'
# class 25: the same array objects, overwritten in place between two rounds of calls
D, S, C = np.array(degs, dtype=np.int64), np.array(sizes, dtype=np.int64), np.array(cen, dtype=float)
RS, DS, SS = np.array(rsect, dtype=float), np.array(dsec, dtype=np.int64), np.array(ssec, dtype=np.int64)
P, W = np.array(pts, dtype=float), np.array(wts, dtype=float)
RG = OneDGrid(P, W, (0, np.inf))
first = calls(D, S, C, RS, DS, SS, RG)
for nm, a, b in zip(names, first, ref):
    assert same(a, b), f'{{nm}} on arrays differs from the computation on lists'
D[:] = degs2; S[...] = sizes2; C *= 0.0; C += cen2; RS[:] = rsect2; DS[:] = dsec2; SS[:] = ssec2
second = calls(D, S, C, RS, DS, SS, RG)
ref2 = calls(list(degs2), list(sizes2), list(cen2), list(rsect2), list(dsec2), list(ssec2), rg())
for nm, a, b in zip(names, second, ref2):
    assert same(a, b), f'{{nm}}: after the caller overwrote its argument arrays in place (same objects, new contents) the answer is not the one for the new contents'
# ... and the arrays behind the radial grid object (a new OneDGrid over the same, rescaled arrays)
P *= 0.0; P += pts2; W[...] = wts2
third = calls(D, S, C, RS, DS, SS, OneDGrid(P, W, (0, np.inf)))
ref3 = calls(list(degs2), list(sizes2), list(cen2), list(rsect2), list(dsec2), list(ssec2), rg(pts2, wts2))
for nm, a, b in zip(names, third, ref3):
    assert same(a, b), f'{{nm}}: a radial grid over the same point / weight arrays with new contents gives another grid than one over fresh copies'
"""

# class 26: two instances that differ in one hidden dependency, used in either order
SCEN_PAIR = SNIP_HEAD + SHELL_REF.replace('{', '{{').replace('}', '}}') + """A = {A!r}
B = {B!r}
def build(s):
    return AtomGrid(OneDGrid(np.array(s['pts']), np.array(s['wts']), (0, np.inf)), degrees=list(s['degs']), center=list(s['cen']), rotate=s['rot'], method=s['method'])
def full(g, s, what):
    res = [AngularGrid(degree=d, method=s['method']).degree for d in s['degs']]
    check(g, s['pts'], s['wts'], res, s['rot'], s['cen'], s['method'], what)
    for i in range(len(res)):
        check_shell(g, i, s['pts'], s['wts'], res, s['rot'], s['method'], what)
    v = g.integrate(np.ones(g.size))
    assert abs(v - np.sum(g.weights)) <= 1e-10 * np.sum(abs(g.weights)) + 1e-300, f'{{what}}: integrate(1)'
    sp = g.convert_cartesian_to_spherical()
    assert sp.shape == (g.size, 3) and np.all(abs(sp[:, 0] - np.repeat(np.array(s['pts']), np.diff(g.indices))) <= 1e-10 * (1 + abs(np.array(s['cen'])).max())), f'{{what}}: radii of convert_cartesian_to_spherical'
for first, second, n1, n2 in ((A, B, 'A', 'B'), (B, A, 'B', 'A')):
    g1 = build(first)
    full(g1, first, f'instance {{n1}} alone')
    g2 = build(second)
    full(g2, second, f'instance {{n2}} built after {{n1}} was used')
    full(g1, first, f'instance {{n1}} after {{n2}} was built and used')
    for i in range(max(len(first['degs']), len(second['degs']))):   # interleaved shell requests
        for g, s, nm in ((g1, first, n1), (g2, second, n2)):
            if i < len(s['degs']):
                res = [AngularGrid(degree=d, method=s['method']).degree for d in s['degs']]
                check_shell(g, i, s['pts'], s['wts'], res, s['rot'], s['method'], f'instance {{nm}}, requests interleaved with the other instance')
    full(g2, second, f'instance {{n2}} at the end')
"""


def _oracle_round5(ctx: Ctx, ag, ang, bg, budget):
    rng = ctx.rng
    large = budget != "small"
    parts = _Parts(ctx, "oracle", "atomgrid.oracle-round5")

    def common(method):
        pairs = _supported(ang, method)
        pts, wts = _exact_rgrid(ctx)
        n = len(pts)
        dmax = min(MAXDEG[method], 15)
        smax = min(max(sz for d, sz in pairs if d <= dmax), 120)
        S = rng.randrange(1, 4)
        mk = lambda: dict(degs=[rng.randrange(0, dmax + 1) for _ in range(n)], sizes=[rng.randrange(0, smax + 1) for _ in range(n)],  # noqa: E731
                          cen=[float(rng.randrange(-4, 5)) for _ in range(3)], rsect=[v / 64 for v in sorted(rng.sample(range(8, 400), S))],
                          dsec=[rng.randrange(0, dmax + 1) for _ in range(S + 1)], ssec=[rng.randrange(0, smax + 1) for _ in range(S + 1)])
        a, b = mk(), mk()
        p2, w2 = _exact_rgrid(ctx)
        while len(p2) != n:
            p2, w2 = _exact_rgrid(ctx)
        a.update({k + "2": v for k, v in b.items()})
        a.update(pts=pts, wts=wts, pts2=p2, wts2=w2, rotate=rng.choice([0, rng.randrange(1, 10 ** 5)]), method=method, radius=rng.choice([1.0, 1.5, 0.75]))
        return a

    # ---- class 21: shell / point counts just above powers of two and round decimal numbers ---------------------------------------
    def sizes():
        big = large or ctx.thorough   # the thorough tier goes past 2^19 + 1 radii and 65537 shells
        cases = [(1025, "spherical", [1, 3]), (4097, "spherical", [1]), (2001, "maxdet", [1, 2, 1]), (1031, "lebedev", [3, 5])]
        if big:
            cases += [(20001, "spherical", [1]), (65537, "spherical", [1]), (5003, "lebedev", [3, 5, 7])]
        for k, (n, method, cyc) in enumerate(cases if big else [cases[0], cases[1], rng.choice(cases[2:])]):
            seed = rng.randrange(1, 10 ** 5) if n <= 1100 else 0   # SciPy's rotation generator costs 0.1 ms per shell: only on the smaller counts
            nb = rng.randrange(1, 5)
            bounds = sorted(rng.uniform(0.1, 5.0) for _ in range(nb))
            code = SCEN_SIZES.format(n=n, method=method, cycle=cyc, seed=seed, center=[float(rng.randrange(-3, 4)) for _ in range(3)], rseed=rng.randrange(10 ** 6),
                                     bounds=bounds, dsec=[rng.randrange(1, 60) for _ in range(nb + 1)], dsec_small=[rng.choice(cyc) for _ in range(nb + 1)],
                                     nlook=(2 ** 19 + 1 + rng.randrange(1, 50)) if big else rng.choice([31234, 65537, 20001]))
            _exec_scenario(ctx, "atomgrid.AtomGrid:counts-above-block-sizes", code, f"{n} shells, method={method}, degrees cycle {cyc}",
                           {"shells": n, "method": method, "degrees_cycle": cyc, "rotate": seed}, "counts-above-block-sizes")
    parts.run("class 21: counts just above block sizes", sizes)

    # ---- classes 23 and 25 ----------------------------------------------------------------------------------------------------------
    def direct():
        for k in range(5 if not large else 60):
            method = METHODS[k % 4]
            a = common(method)
            kinds = [("float32", "int32"), ("float16", "uint8"), ("longdouble", "int16"), ("int64", "uint16")] if k % 2 == 0 else \
                    [("longdouble", "uint8"), ("float16", "int8"), ("float32", "uint32")]
            if any(fk == "int64" for fk, _ in kinds):   # integer-valued centres / sector radii / radius for the integer kind
                pass
            b = dict(a)
            if k % 2 == 0:
                b.update(cen=[float(int(v)) for v in a["cen"]], rsect=sorted({float(int(v * 2) + 1) for v in a["rsect"]}), radius=1.0)
                b["rsect2"] = [b["rsect"][i] + 1.0 for i in range(len(b["rsect"]))]
                if len(b["rsect"]) != len(a["dsec"]) - 1:   # duplicates removed: shorten the sector lists accordingly
                    L = len(b["rsect"]) + 1
                    for key in ("dsec", "ssec", "dsec2", "ssec2"):
                        b[key] = a[key][:L]
            # uint8 / int8 hold the sizes (<= 120) and degrees
            code = SCEN_DIRECT.format(kinds=kinds, **b)
            _exec_scenario(ctx, "atomgrid.AtomGrid:direct-argument-kinds-and-reuse", code, f"method={method}, kinds={kinds}",
                           {"method": method, "rgrid_points": b["pts"], "kinds": kinds}, "direct-argument-kinds-and-reuse")
    parts.run("classes 23, 25: argument kinds given directly; arrays overwritten in place between calls", direct)

    # ---- class 26 -------------------------------------------------------------------------------------------------------------------
    def pairs():
        for k in range(6 if not large else 60):
            method = METHODS[k % 4]
            a = common(method)
            A = dict(pts=a["pts"], wts=a["wts"], degs=a["degs"], cen=a["cen"], rot=a["rotate"], method=method)
            B = dict(A)
            kind = ["r=0 node", "method", "radial grid", "rotate", "centre", "degrees"][k % 6]
            if kind == "r=0 node":
                A["pts"] = [max(v, 0.125) for v in A["pts"]]
                B["pts"] = [0.0] + A["pts"][1:]
            elif kind == "method":
                B["method"] = METHODS[(k + 1) % 4]
                dm = min(MAXDEG[method], MAXDEG[B["method"]], 15)
                A["degs"] = B["degs"] = [min(d, dm) for d in A["degs"]]
            elif kind == "radial grid":
                B["pts"], B["wts"] = a["pts2"], a["wts2"]
            elif kind == "rotate":
                B["rot"] = 0 if A["rot"] else 77
            elif kind == "centre":
                B["cen"] = a["cen2"]
            else:
                B["degs"] = a["degs2"]
            code = SCEN_PAIR.format(A=A, B=B)
            _exec_scenario(ctx, "atomgrid.AtomGrid:two-instances", code, f"instances differing in the {kind}, method={method}", {"A": A, "B": B, "differ_in": kind}, "two-instances:" + kind)
    parts.run("class 26: two instances differing in one dependency, either order", pairs)

    # ---- classes 22, 24: orders the library itself produces; parameters independent of the data ------------------------------------------
    def orders_and_parameters():
        rt, od = importlib.import_module("grid.rtransform"), importlib.import_module("grid.onedgrid")
        sources = [
            ("MultiExp o GaussChebyshev (descending nodes)", lambda: rt.MultiExpRTransform(1e-3, 1.5).transform_1d_grid(od.GaussChebyshev(9))),
            ("Becke grid reversed by slicing", lambda: rt.BeckeRTransform(1e-3, 1.5).transform_1d_grid(od.GaussChebyshev(8))[::-1]),
            ("two rules back to back", lambda: (lambda a, b: bg.OneDGrid(np.concatenate([a.points, b.points]), np.concatenate([a.weights, b.weights]), (0, np.inf)))(
                rt.LinearFiniteRTransform(0.0, 2.0).transform_1d_grid(od.GaussLegendre(4)), rt.LinearFiniteRTransform(0.0, 6.0).transform_1d_grid(od.GaussLegendre(5)))),
            ("Knowles grid shuffled", lambda: (lambda g0, perm: bg.OneDGrid(g0.points[perm], g0.weights[perm], (0, np.inf)))(
                rt.KnowlesRTransform(1e-3, 1.5, 2).transform_1d_grid(od.GaussChebyshev(7)), np.array([3, 0, 6, 2, 5, 1, 4]))),
        ]
        for name, mk in sources:
            rg0 = mk()
            P, Wt = np.array(rg0.points, dtype=float), np.array(rg0.weights, dtype=float)
            method = rng.choice(METHODS)
            pairs_ = _supported(ang, method)
            ctx.count(["orders", name, method], nontrivial=True, tag="oracle:orders:" + name.split(" (")[0])
            degs = [rng.randrange(0, MAXDEG[method] + 1) for _ in P]
            _oracle_grid(ctx, ag, ang, bg, method, P, Wt, degs, rng.choice([0, rng.randrange(1, 10 ** 5)]), _rand_center(ctx), "atomgrid.AtomGrid", mk_rgrid=mk)
            # sectors by the radius of each node, whatever the order; sector radii unrelated to the range of the grid (class 24):
            # all nodes below the first bound, all beyond the last, bounds inside the range
            for what, rsect in (("inside", sorted(rng.uniform(float(P.min()), float(P.max())) for _ in range(2))), ("all nodes below", [float(P.max()) * 2, float(P.max()) * 3]),
                                ("all nodes beyond", [float(P.min()) / 3, float(P.min()) / 2]), ("a bound on a node", sorted([float(P[len(P) // 2]), float(P.max()) * 1.5]))):
                dsec = [rng.randrange(0, MAXDEG[method] + 1) for _ in range(3)]
                g = ag.AtomGrid.from_pruned(mk(), 1.0, r_sectors=rsect, d_sectors=dsec, method=method)
                want = [_least_degree(pairs_, dsec[sum(1 for b in rsect if b < r)])[0] for r in P]
                if [int(d) for d in g.degrees] != want:
                    i = next(j for j, (x, y) in enumerate(zip(g.degrees, want)) if int(x) != y)
                    ctx.fail("oracle", "atomgrid.AtomGrid.from_pruned", f"{name}, sector radii {what}: shell {i} at r={P[i]!r} has degree {int(g.degrees[i])}, its sector asks for {want[i]} "
                             f"[r_sectors={rsect}, d_sectors={dsec}, method={method}]", witness={"rgrid_points": P.tolist(), "r_sectors": rsect, "d_sectors": dsec, "method": method},
                             snippet=SNIP_PRUNED.format(pts=P.tolist(), wts=Wt.tolist(), radius=1.0, rsect=rsect, dsec=dsec, method=method))
        # class 24: one transform object applied to two different 1-D grids in sequence, both radial grids then carry atomic grids; one
        # radial grid object shared by grids of different methods / degrees / centres. Reference: fresh objects for every grid.
        for T in (lambda: rt.HandyModRTransform(1e-3, 20.0, 2), lambda: rt.KnowlesRTransform(1e-3, 1.5, 2), lambda: rt.BeckeRTransform(1e-3, 1.5)):
            t = T()
            rules = [od.GaussChebyshev(5), od.GaussChebyshev(8), od.GaussLegendre(6)]
            shared = [t.transform_1d_grid(r) for r in rules]
            fresh = [T().transform_1d_grid(r) for r in rules]
            method = rng.choice(METHODS)
            for j, (a, b) in enumerate(zip(shared, fresh)):
                degs = [rng.randrange(0, MAXDEG[method] + 1) for _ in a.points]
                cen = [float(rng.randrange(-3, 4)) for _ in range(3)]
                ga = ag.AtomGrid(a, degrees=degs, center=cen, rotate=5, method=method)
                gb = ag.AtomGrid(b, degrees=degs, center=cen, rotate=5, method=method)
                ga2 = ag.AtomGrid(a, degrees=degs[::-1], center=[0.0, 0.0, 1.0], rotate=0, method=METHODS[(METHODS.index(method) + 1) % 4] if max(degs) <= 17 else method)
                gc = ag.AtomGrid(a, degrees=degs, center=cen, rotate=5, method=method)   # the shared radial grid again, after another grid used it
                ctx.count(["shared-transform", type(t).__name__, j, method, degs], nontrivial=True, tag="oracle:shared-transform")
                if not (np.array_equal(ga.points, gb.points) and np.array_equal(ga.weights, gb.weights) and np.array_equal(gc.points, gb.points) and np.array_equal(gc.weights, gb.weights)
                        and np.array_equal(ga.get_shell_grid(len(degs) - 1).weights, gb.get_shell_grid(len(degs) - 1).weights)):
                    ctx.fail("oracle", "atomgrid.AtomGrid:shared-radial-objects", f"the atomic grid on the {j + 1}. radial grid produced by one {type(t).__name__} object (or on a radial grid "
                             f"object that already carries another atomic grid) differs from the one built from fresh objects [method={method}, degrees={degs}]",
                             witness={"transform": type(t).__name__, "rule": j, "method": method, "degrees": degs})
    parts.run("classes 22, 24: library-made orders; parameters independent of the data", orders_and_parameters)
    parts.finish()


def _oracle_kinds(ctx: Ctx, ag, ang, bg, budget):
    """Implementation-side (no model): the grid does not depend on the container / dtype of its arguments, True / False
    are the seeds 1 / 0, rebuilding gives the same grid, and a permutation of the radial nodes permutes the shells."""
    AtomGrid = ag.AtomGrid
    rng = ctx.rng
    parts = _Parts(ctx, 'oracle', 'atomgrid.oracle-kinds')
    # ---- container / dtype of the arguments, rebuild, permutation of the radial nodes ----------------------------------------
    def _part0():
        for k in range(12 if budget == "small" else 150):
            method = METHODS[k % 4]
            pts, wts = _ordered_rgrid(ctx, ORDERS[k % len(ORDERS)])
            pts = np.array([round(v * 64) / 64 for v in pts])
            wts = np.array([max(1, round(v * 64)) / 64 for v in wts])
            n = len(pts)
            degs = [rng.randrange(0, MAXDEG[method] + 1) for _ in range(n)]
            cen = [float(rng.randrange(-3, 4)) for _ in range(3)]
            rot = rng.choice([0, 1, rng.randrange(2, 10 ** 5)])
            wit = {"method": method, "rgrid_points": pts.tolist(), "rgrid_weights": wts.tolist(), "degrees": degs, "center": cen, "rotate": rot}
            ref = AtomGrid(_onedgrid(bg, pts, wts), degrees=list(degs), center=np.array(cen), rotate=rot, method=method)

            def same(g, what):
                ok = (np.array_equal(g.points, ref.points) and np.array_equal(g.weights, ref.weights)
                      and list(map(int, g.indices)) == list(map(int, ref.indices)) and list(map(int, g.degrees)) == list(map(int, ref.degrees)))
                ctx.count(["oracle-kinds", what, wit["method"], degs, rot], nontrivial=True, tag="oracle:kinds:" + what)
                if not ok:
                    ctx.fail("oracle", "atomgrid.AtomGrid:argument-kind", f"the grid depends on {what} [method={method}, degrees={degs}, rotate={rot}]",
                             witness=dict(wit, variant=what))

            same(AtomGrid(_onedgrid(bg, pts, wts), degrees=np.array(degs, dtype=np.int64), center=cen, rotate=rot, method=method), "degrees as int64 array, centre as list")
            same(AtomGrid(_onedgrid(bg, pts, wts), degrees=np.array(degs, dtype=np.int32), center=tuple(cen), rotate=rot, method=method), "degrees as int32 array, centre as tuple")
            same(AtomGrid(_onedgrid(bg, pts, wts), degrees=list(degs), center=np.array(cen, dtype=np.int64), rotate=rot, method=method), "centre as int array")
            same(AtomGrid(_py_rgrid(ctx, bg, pts, wts, "float32", (0, np.inf)), degrees=list(degs), center=np.array(cen, dtype=np.float32), rotate=rot, method=method),
                 "radial grid and centre as float32 arrays")
            same(AtomGrid(_py_rgrid(ctx, bg, pts, wts, "noncontig", (0, np.inf)), degrees=_readonly(np.array(degs)), center=_readonly(np.array(cen)), rotate=rot, method=method),
                 "non-contiguous / read-only arrays")
            same(AtomGrid(_onedgrid(bg, pts, wts), degrees=list(degs), center=np.array(cen), rotate=rot, method=method), "a second construction")
            if rot in (0, 1):
                same(AtomGrid(_onedgrid(bg, pts, wts), degrees=list(degs), center=np.array(cen), rotate=bool(rot), method=method), "rotate given as bool")
            # sizes win over degrees: the sizes of the reference grid's shells give the same grid whatever `degrees` says
            shell_sizes = [int(x) for x in np.diff(ref.indices)]
            import warnings as _w
            with _w.catch_warnings():
                _w.simplefilter("ignore")
                same(AtomGrid(_onedgrid(bg, pts, wts), degrees=[rng.randrange(0, 10)] * rng.choice([1, n]), sizes=shell_sizes, center=np.array(cen), rotate=rot, method=method),
                     "sizes given together with other degrees")
            # a permutation of the radial nodes permutes the shells (seed 0: no rotation involved)
            perm = list(range(n))
            rng.shuffle(perm)
            r0 = AtomGrid(_onedgrid(bg, pts, wts), degrees=list(degs), center=np.array(cen), rotate=0, method=method)
            rp = AtomGrid(_onedgrid(bg, pts[perm], wts[perm]), degrees=[degs[j] for j in perm], center=np.array(cen), rotate=0, method=method)
            ctx.count(["oracle-kinds", "perm", method, degs, perm], nontrivial=True, tag="oracle:kinds:permutation")
            for newpos, j in enumerate(perm):
                a = r0.points[r0.indices[j]:r0.indices[j + 1]]
                b = rp.points[rp.indices[newpos]:rp.indices[newpos + 1]]
                wa = r0.weights[r0.indices[j]:r0.indices[j + 1]]
                wb = rp.weights[rp.indices[newpos]:rp.indices[newpos + 1]]
                if not (np.array_equal(a, b) and np.array_equal(wa, wb)):
                    ctx.fail("oracle", "atomgrid.AtomGrid:radial-order", f"shell of r={pts[j]!r} changes when the radial nodes are permuted [method={method}, degrees={degs}]",
                             witness=dict(wit, permutation=perm))
                    break
    parts.run('container / dtype of the arguments, rebuild, permutation of the radial nodes', _part0)

    # ---- information: consistent rejections found by the round-2 audit (not violations: nothing wrong is built)
    def _part1():
        rg = _onedgrid(bg, np.array([0.5, 1.0]), np.ones(2))
        try:
            AtomGrid(rg, [5], rotate=np.int64(3))
            ctx.info("AtomGrid(rotate=np.int64(3)) is accepted")
        except ValueError:
            ctx.info("AtomGrid(rotate=np.int64(3)) raises ValueError: __init__ accepts (int, np.integer) but _generate_atomic_grid insists on "
                     "isinstance(rotate, int) — a NumPy-integer seed is always rejected (Lean: gen_init_npInt_rejected); rejection, not a wrong grid")
        for name in ("COARSE", "Fine", "SG_0"):
            try:
                g = AtomGrid.from_preset(1, name, _onedgrid(bg, np.linspace(0.1, 5, 23), np.ones(23)))
                low = AtomGrid.from_preset(1, name.lower(), _onedgrid(bg, np.linspace(0.1, 5, 23), np.ones(23)))
                if not np.array_equal(g.points, low.points):
                    ctx.fail("oracle", "atomgrid.AtomGrid.from_preset:name-case", f"preset {name!r} is accepted but builds another grid than {name.lower()!r}")
            except Exception as e:  # noqa: BLE001
                ctx.info(f"from_preset(1, {name!r}) is rejected ({type(e).__name__}): preset names are case-sensitive")
                break
        try:
            import warnings as _w
            with _w.catch_warnings():
                _w.simplefilter("ignore")
                AtomGrid(rg, None, sizes=[6], method="LEBEDEV")
        except ValueError:
            ctx.info("AtomGrid(sizes=[6], method='LEBEDEV') raises ValueError although AtomGrid(degrees=[3], method='LEBEDEV') is accepted "
                     "(the method is lower-cased for _generate_atomic_grid but not for convert_angular_sizes_to_degrees); outside the typing "
                     "context of the translator (the four lower-case method names); rejection, not a wrong grid")
    parts.run('information: consistent rejections found by the round-2 audit (not violations: nothing wro', _part1)

    parts.finish()

def oracle_at(ctx: Ctx, failure):
    """A correspondence disagreement -> the property itself at that input (per-point reconstruction / sector rule)."""
    w = failure.witness
    if not isinstance(w, dict) or "rgrid_points" not in w or "method" not in w:
        return
    ag, ang, bg = _mods()
    import warnings as _w
    _w.simplefilter("ignore")
    pts = np.array(w["rgrid_points"], dtype=float)
    wts = np.array(w.get("rgrid_weights", [1.0] * len(pts)), dtype=float)
    method = w["method"]
    if np.any(pts < 0) or len(pts) == 0 or w.get("rgrid_kind") in ("domneg", "notonedgrid"):
        return
    op = w.get("op")
    try:
        if op == "from_preset" and w.get("preset") is not None and w.get("rgrid_points") is not None:
            # the property at the disagreeing preset construction: tabulated sizes, then all product-grid clauses
            tabs = _preset_tables()
            p, z = w["preset"], w["atnum"]
            if p in tabs and z in tabs[p][0]:
                rad, npt, _ = tabs[p][0][z]
                rot = w.get("rotate", 0)
                rot = rot[1] if isinstance(rot, list) else rot
                rot = int(rot) if isinstance(rot, (int, bool)) else 0
                cen = w.get("center")
                cen = None if not isinstance(cen, list) else np.array(cen, dtype=float)
                snip = SNIP_PRESET.format(preset=p, atnum=z)
                try:
                    g = ag.AtomGrid.from_preset(z, p, _onedgrid(bg, pts, wts), center=cen, rotate=rot, method=method)
                except Exception as e:  # noqa: BLE001
                    if len(pts) == (int(rad.sum()) if rad.dtype.kind == "i" else len(pts)):
                        ctx.fail("oracle", f"prune_grid:{p}:Z={z}", f"from_preset({z}, {p!r}) on {len(pts)} radial points raises {type(e).__name__}: {e}", witness=w, snippet=snip)
                    return
                sizes = [int(x) for x in np.diff(g.indices)]
                pairs = _supported(ang, method)
                tabsz = _tabulated_sizes(rad, npt, pts)
                for i, (sz, t) in enumerate(zip(sizes, tabsz)):
                    want = _least_size(pairs, t) if t is not None else None
                    if want is None or sz != want[1]:
                        ctx.fail("oracle", f"prune_grid:{p}:Z={z}", f"from_preset({z}, {p!r}, method={method}): shell {i} at r={pts[i]!r} has {sz} points, tabulated {t}",
                                 witness=w, snippet=snip)
                        return
                if g.size <= 20000:
                    _oracle_grid(ctx, ag, ang, bg, method, pts, wts, [int(d) for d in g.degrees], rot, cen, f"atomgrid.AtomGrid.from_preset:{p}")
            return
        if op == "AtomGrid" and isinstance(w.get("sizes"), list) and w.get("sizes") and w.get("sizes_as", "list") != "tuple":
            pairs = _supported(ang, method)
            sizes = list(w["sizes"])
            rot = w.get("rotate")
            rot = rot[1] if isinstance(rot, list) else rot
            cen = w.get("center")
            if len(sizes) in (1, len(pts)) and all(_least_size(pairs, x) is not None for x in sizes) and isinstance(rot, (int, bool)) \
                    and 0 <= int(rot) < 2 ** 32 - len(pts) and (cen is None or (isinstance(cen, list) and len(cen) == 3)):
                want = [_least_size(pairs, x) for x in (sizes * len(pts) if len(sizes) == 1 else sizes)]
                degs = w.get("degrees")
                dsrc = "None" if not isinstance(degs, list) else repr(list(degs))
                cen = [0.0, 0.0, 0.0] if cen is None else cen
                _run_combo(ctx, "atomgrid.AtomGrid:arguments", "AtomGrid(sizes given: the documentation says sizes are used)",
                           f"AtomGrid(rgrid, {dsrc}, sizes={sizes!r}, center={cen!r}, rotate={int(rot)}, method=method)", want, method, int(rot), cen, pts, wts, False, w)
            return
        if op in ("AtomGrid", "_generate_atomic_grid"):
            degs = w.get("degrees")
            rot = w.get("rotate")
            rot = rot[1] if isinstance(rot, list) else rot
            if rot is None:  # argument omitted
                rot = _sig_default("__init__", "rotate")
            if degs == "default":
                degs = list(_sig_default("__init__", "degrees"))
            cen = w.get("center")
            if isinstance(cen, str):  # omitted
                cen = None
            if isinstance(degs, list) and degs and w.get("sizes") is None and isinstance(rot, (int, bool)) and (cen is None or len(cen) == 3):
                if all(0 <= d <= max(p[0] for p in _supported(ang, method)) for d in degs) and len(degs) in (1, len(pts)) and 0 <= int(rot) < 2 ** 32 - len(pts):
                    _oracle_grid(ctx, ag, ang, bg, method, pts, wts, degs, int(rot), None if cen is None else np.array(cen, dtype=float), "atomgrid.AtomGrid")
        elif op == "from_pruned" and w.get("s_sectors") and w.get("r_sectors") is not None:
            # s_sectors given (alone or together with d_sectors): the documentation says the sizes are used
            rsect, ssec, dsec = list(w["r_sectors"]), list(w["s_sectors"]), w.get("d_sectors")
            radius = w.get("radius", 1.0)
            pairs = _supported(ang, method)
            if len(ssec) == len(rsect) + 1 and all(_least_size(pairs, x) is not None for x in ssec):
                bounds = np.array(rsect) * radius
                want = [_least_size(pairs, ssec[sum(1 for b in bounds if b < r)]) for r in pts]
                rot = w.get("rotate", 0)
                rot = int(rot) if isinstance(rot, (int, bool)) else 0
                cen = w.get("center")
                cen = [0.0, 0.0, 0.0] if not isinstance(cen, list) else cen
                call = (f"AtomGrid.from_pruned(rgrid, {radius!r}, r_sectors={rsect!r}, d_sectors={None if dsec is None else list(dsec)!r}, s_sectors={ssec!r}, "
                        f"center={cen!r}, rotate={rot}, method=method)")
                _run_combo(ctx, "atomgrid.AtomGrid.from_pruned:arguments", "from_pruned(s_sectors given: the documentation says s_sectors is used)", call, want,
                           method, rot, cen, pts, wts, False, w)
        elif op in ("from_pruned", "_find_degrees_for_radial_points") and w.get("d_sectors"):  # noqa: E501
            rsect = w.get("r_sectors")
            dsec = w["d_sectors"]
            radius = w.get("radius", 1.0)
            if sorted(rsect) == list(rsect) and len(dsec) == len(rsect) + 1 and all(d <= max(p[0] for p in _supported(ang, method)) for d in dsec):
                code = SNIP_PRUNED.format(pts=pts.tolist(), wts=wts.tolist(), radius=radius, rsect=list(rsect), dsec=list(dsec), method=method)
                try:
                    exec(compile(code, "<c05-oracle-at>", "exec"), {"__name__": "c05_oracle_at"})
                except AssertionError as e:
                    ctx.fail("oracle", "atomgrid.AtomGrid.from_pruned", str(e)[:300], witness=w, snippet=code)
    except Exception as e:  # noqa: BLE001
        ctx.fail("oracle", "atomgrid.AtomGrid", f"the property cannot be evaluated at the disagreement: {type(e).__name__}: {e}", witness=w)

"""C13, round 3: the generated constructors / get_points_along_axes / interpolate (Gen/CubicInterp.lean) against the
implementation, and the generator classes 7-12 of AGENT_ROUND3.md (thresholds, extreme magnitudes and far origins,
handed-out objects, method order, fresh objects with non-default options, special query points)."""
import inspect
import math
from fractions import Fraction

import numpy as np

from ..common import Tokens, close, driver_batch, f2b, fmat, fvec, vec


def _b():
    from . import c13
    return c13


def _tag(e):
    return _b()._tag(e)


def _fl(x):
    return [float(v) for v in np.asarray(x).ravel()]


# ----------------------------------------------------------------------------------------------
# correspondence: generated code
# ----------------------------------------------------------------------------------------------
def _ginterp_line(lg, method, shape, gpoints, vals, nu, q):
    return (f"C13.ginterp {int(lg)} {method} {vec(shape)} {fmat(np.asarray(gpoints, dtype=float))} {fvec(vals)} "
            f"{nu[0]} {nu[1]} {nu[2]} {fmat(np.asarray(q, dtype=float))}")


def _call_interp(g, q, vals, lg, nu, method, style):
    if style == 0:
        return g.interpolate(q, vals, use_log=lg, nu_x=nu[0], nu_y=nu[1], nu_z=nu[2], method=method)
    if style == 1:
        return g.interpolate(q, vals, lg, nu[0], nu[1], nu[2], method)
    kw = {}
    if lg:
        kw["use_log"] = True
    for k, n in zip(("nu_x", "nu_y", "nu_z"), nu):
        if n:
            kw[k] = n
    if method != "cubic":
        kw["method"] = method
    return g.interpolate(q, vals, **kw)          # every default value left out


def _neg_grid(cub, rng, shape):
    sg = np.array([rng.choice([-1.0, 1.0]) for _ in range(3)])
    sg[rng.randrange(3)] = -1.0
    axes = np.diag(sg * np.array([rng.uniform(0.2, 0.6) for _ in range(3)]))
    return cub.UniformGrid(np.array([rng.uniform(-1, 1) for _ in range(3)]), axes, np.array(shape), weight="Rectangle")


def _special_points(g, rng, k):
    """k query points of the box: a node, a point on a cell face, a point on a cell edge, then interior points"""
    b = _b()
    out = []
    x, y, z = [np.asarray(a, dtype=float) for a in g.get_points_along_axes()]
    for m in range(k):
        p = b.interior_point(g, rng)[0]
        if m % 4 == 0:
            p = g.points[rng.randrange(g.size)].copy()
        elif m % 4 == 1:
            ax = rng.randrange(3)
            p[ax] = [x, y, z][ax][rng.randrange(len([x, y, z][ax]))]
        elif m % 4 == 2:
            a1, a2 = rng.sample(range(3), 2)
            p[a1] = [x, y, z][a1][rng.randrange(len([x, y, z][a1]))]
            p[a2] = [x, y, z][a2][rng.randrange(len([x, y, z][a2]))]
        out.append(p)
    return np.array(out)


def corr_gen_interp(ctx, cub, rng):
    """`C13.ginterp` / `C13.gaxes`: the generated interpolate (all three methods, logarithmic variant, guards) on fresh grid
    objects whose first call has non-default options (class 11), with 1-3 query points per call, query points on nodes /
    faces / edges / outside the box (class 12), grids with a negative axis (class 5), then the three methods alternating on
    one object (class 10)."""
    b = _b()
    lines, impl, meta = [], [], []

    def add(g, shape, vals, lg, nu, method, q, label, style=0):
        lines.append(_ginterp_line(lg, method, shape, g.points, vals, nu, q))
        try:
            r = _call_interp(g, q, vals, lg, nu, method, style)
            impl.append(("ok", _fl(r)))
        except Exception as e:
            impl.append((_tag(e),))
        meta.append((label, shape, list(nu), bool(lg), method, np.asarray(q, dtype=float), np.asarray(vals, dtype=float), g))

    for it in range(ctx.n(16, 260)):
        kind = ["cubic", "log", "linear", "nearest", "cubic", "log", "linear", "guard", "negaxis", "outside", "cubic-small"][it % 11]
        if kind in ("cubic", "log", "cubic-small"):
            shape = b.rand_shape(rng, 3, 7, 8, noncubic=False) if kind != "cubic-small" else [rng.choice([5, 6, 7]) for _ in range(3)]
            g = b.axis_grid(cub, rng, shape, rng.choice(["uniform", "tensor"]))
            C = b.rand_tensor_cubic(rng) * 0.3
            vals = b.poly_eval(C, g.points)
            q = np.vstack([b.interior_point(g, rng) for _ in range(1 + it % 3)])
            if it % 5 == 0:                       # a grid node / a point outside the box (the splines extrapolate)
                q[0] = g.points[rng.randrange(g.size)]
            if it % 7 == 0:
                q[-1] = g.points.max(0) + np.array([rng.uniform(0.01, 0.3) for _ in range(3)])
            if kind == "log":
                vals = np.exp(vals)
                nu = [0, 0, 0]
                if it % 4 != 3:
                    nu[rng.randrange(3)] = rng.randrange(0, 4)
                else:                             # mixed derivative: refused
                    a1, a2 = rng.sample(range(3), 2)
                    nu[a1], nu[a2] = 1, rng.randrange(1, 3)
            else:
                nu = [rng.randrange(0, 4) for _ in range(3)]
            add(g, shape, vals, kind == "log", nu, "cubic", q, kind, style=it % 3)
        elif kind in ("linear", "nearest"):
            shape = b.rand_shape(rng, 3, 2, 6)
            g = b.axis_grid(cub, rng, shape, rng.choice(["uniform", "tensor"]))
            vals = np.array([rng.uniform(0.2, 2.0) for _ in range(g.size)])
            q = _special_points(g, rng, 1 + it % 4) if kind == "linear" else np.vstack([b.interior_point(g, rng) for _ in range(1 + it % 3)])
            if kind == "nearest" and it % 2:
                q[0] = g.points[rng.randrange(g.size)]
            lg = it % 6 == 2                      # np.log is applied before this branch too
            nu = [rng.randrange(0, 3) for _ in range(3)] if it % 4 == 1 else [0, 0, 0]      # ignored by this branch
            add(g, shape, vals, lg, nu, kind, q, kind, style=it % 3)
        elif kind == "outside":
            shape = b.rand_shape(rng, 3, 2, 5)
            g = b.axis_grid(cub, rng, shape, "uniform")
            vals = np.array([rng.uniform(-1, 1) for _ in range(g.size)])
            q = np.vstack([b.interior_point(g, rng) for _ in range(2)])
            lo, hi = g.points.min(0), g.points.max(0)
            ax = rng.randrange(3)
            eps = rng.choice([1e-12, 1e-6, 0.3, 50.0])
            q[1, ax] = hi[ax] + eps * (hi[ax] - lo[ax]) if rng.random() < 0.5 else lo[ax] - eps * (hi[ax] - lo[ax])
            if it % 3 == 0:                       # exactly on the boundary of the box: inside
                q[1, ax] = hi[ax]
            add(g, shape, vals, False, [0, 0, 0], rng.choice(["linear", "nearest"]), q, "outside")
        elif kind == "negaxis":
            shape = b.rand_shape(rng, 3, 7, 8, noncubic=False) if it % 2 else b.rand_shape(rng, 3, 2, 5)
            g = _neg_grid(cub, rng, shape)
            vals = np.array([rng.uniform(-1, 1) for _ in range(g.size)])
            q = np.vstack([b.interior_point(g, rng) for _ in range(2)])
            for method in ("linear", "nearest", "cubic"):
                add(g, shape, vals, False, [0, 0, 0], method, q, "negaxis")
        else:                                     # guards, in the order of the source
            shape = [5, 5, 5]
            g = b.axis_grid(cub, rng, shape, "uniform")
            vals = np.ones(g.size)
            q = b.interior_point(g, rng)
            add(g, shape, vals, False, [0, 0, 0], rng.choice(["quadratic", "Cubic", "LINEAR", "nearest_"]), q, "guard:method")
            add(g, shape, vals[:-1], False, [0, 0, 0], rng.choice(["cubic", "linear"]), q, "guard:values")
            add(g, shape, np.ones(g.size + 1), True, [1, 0, 0], "cubic", q, "guard:values")
            add(g, shape, vals[:-1], False, [0, 0, 0], "spline", q, "guard:method")     # the method is checked first
            g2 = cub.UniformGrid(np.zeros(2), np.eye(2), np.array([3, 4]), weight="Rectangle")
            for method in ("cubic", "nearest", "bad"):
                lines.append(_ginterp_line(False, method, [3, 4], g2.points, np.ones(12), [0, 0, 0], np.zeros((1, 2))))
                try:
                    g2.interpolate(np.zeros((1, 2)), np.ones(12), method=method)
                    impl.append(("ok", []))
                except Exception as e:
                    impl.append((_tag(e),))
                meta.append(("guard:2d", [3, 4], [0, 0, 0], False, method, np.zeros((1, 2)), np.ones(12), g2))
            shape4 = [4, 7, 7]                    # one interior node only: SciPy refuses to build the spline
            g4 = b.axis_grid(cub, rng, shape4, "uniform")
            add(g4, shape4, np.ones(g4.size), False, [0, 0, 0], "cubic", b.interior_point(g4, rng), "guard:few-nodes")
    # class 10: the methods alternating on one object, other data in between
    shape = b.rand_shape(rng, 3, 7, 8, noncubic=False)
    g = b.axis_grid(cub, rng, shape, "uniform")
    Ca, Cb = b.rand_tensor_cubic(rng) * 0.3, b.rand_tensor_cubic(rng) * 0.3
    va, vb = b.poly_eval(Ca, g.points), np.exp(b.poly_eval(Cb, g.points))
    qa = np.vstack([b.interior_point(g, rng) for _ in range(2)])
    for lg, method, nu, v in [(False, "linear", [0, 0, 0], va), (False, "cubic", [1, 0, 2], va), (False, "nearest", [0, 0, 0], vb),
                              (True, "cubic", [0, 2, 0], vb), (False, "linear", [0, 0, 0], va), (False, "cubic", [1, 0, 2], va),
                              (True, "linear", [0, 0, 0], vb), (True, "cubic", [0, 0, 0], vb)]:
        add(g, shape, v, lg, nu, method, qa, "alternating")
    # get_points_along_axes of the same grids (and 2-D, skewed, negative axes)
    axes_cases = []
    seen = set()
    for mt in meta:
        g = mt[7]
        if id(g) not in seen and len(seen) < ctx.n(10, 60):
            seen.add(id(g))
            axes_cases.append((list(g.shape), g))
    for _ in range(ctx.n(4, 40)):
        d = rng.choice([2, 3])
        sh = b.rand_shape(rng, d, 2, 6)
        axes_cases.append((sh, cub.UniformGrid(b.rand_origin(rng, d), b.rand_axes(rng, d, rng.choice(["skew", "diag+-"])), np.array(sh), weight="Rectangle")))
    n_interp = len(lines)
    for sh, g in axes_cases:
        lines.append(f"C13.gaxes {vec(sh)} {fmat(g.points)}")
    model = driver_batch(lines)
    for (label, shape, nu, lg, method, q, vals, g), a, ans in zip(meta, impl, model[:n_interp]):
        ctx.count(["ginterp", label, shape, nu, lg, method, _fl(q)], tag=f"gen:interp:{label}:{method}:{a[0]}")
        key = "interp:gen:" + ("log" if lg and method == "cubic" else method if method in ("cubic", "linear", "nearest") else "guard")
        wit = {"case": label, "shape": shape, "nu": nu, "use_log": lg, "method": method, "points": q.tolist(),
               "grid_points_head": np.asarray(g.points)[:3].tolist()}
        if a[0] != "ok" or not ans.startswith("ok"):
            if a[0] != ans.split()[0]:
                ctx.fail("corr", key, f"interpolate [{label}] shape {shape} nu={nu} use_log={lg} method={method!r}: implementation {a[0]}, generated code {ans[:40]}",
                         witness=wit)
            continue
        t = Tokens(ans)
        t.tok()
        mv = t.fvec()
        if method == "cubic":
            ok = len(mv) == len(a[1]) and all(close(x, y, rtol=2e-7, scale=max(1.0, abs(x), float(10 ** sum(nu)))) for x, y in zip(a[1], mv))
        else:
            ok = len(mv) == len(a[1]) and all(close(x, y, rtol=1e-11, scale=max(1.0, float(np.abs(vals).max()))) for x, y in zip(a[1], mv))
        if not ok:
            ctx.fail("corr", key, f"interpolate [{label}] shape {shape} nu={nu} use_log={lg} method={method!r} at {len(q)} point(s): implementation {a[1]}, "
                     f"generated code {mv}", witness=wit)
    for (sh, g), ans in zip(axes_cases, model[n_interp:]):
        got = [_fl(a) for a in g.get_points_along_axes()]
        ctx.count(["gaxes", sh, _fl(np.asarray(g.points)[:2])], tag=f"gen:axes:{len(sh)}d")
        t = Tokens(ans)
        if t.tok() != "ok" or [t.fvec() for _ in range(int(t.tok()))] != got:
            ctx.fail("corr", "axes_points:gen", f"get_points_along_axes shape {sh}: implementation differs from the generated code ({ans[:40]})",
                     witness={"shape": sh, "points_head": np.asarray(g.points)[:4].tolist()})


def corr_gen_ctor(ctx, cub, rng):
    """`C13.gugrid` (generated UniformGrid.__init__ through the generated _HyperRectangleGrid.__init__) on every scheme, both
    dimensions, the guards in their order, determinants on both sides of the 1e-10 threshold within 1 % and a factor 100
    (class 7), origins far from 0 and spacings 1e-6 .. 1e6 (class 8); `C13.ghrinit` on direct constructions of the base
    class; `C13.gdefaults`; `C13.gbell`."""
    b = _b()
    cases = []
    for dim in (2, 3):
        for sch in b.SCHEMES + ["BadName"]:
            cases.append((dim, sch, [2, 3, 4][:dim], b.rand_axes(rng, dim, "skew"), b.rand_origin(rng, dim), "scheme"))
        for shape in ([3, 1, 4], [1, 3, 4], [3, 0, 4], [3, -2, 4], [2, 2, 2]):
            cases.append((dim, rng.choice(["Rectangle", "Trapezoid", "Alternative"]), shape[:dim], b.rand_axes(rng, dim, "skew"), b.rand_origin(rng, dim), "shape-guard"))
        for dfac in (1e-12, 0.99e-10, 1.01e-10, -0.99e-10, -1.01e-10, 1e-8, 0.0):
            ax = np.eye(dim)
            ax[0, 0] = dfac
            cases.append((dim, "Rectangle", [2, 3, 2][:dim], ax, np.zeros(dim), "det-threshold"))
        for k in (-6, -3, 3, 6):
            ax = b.rand_axes(rng, dim, "skew") * 10.0 ** k
            cases.append((dim, rng.choice(["Trapezoid", "Fourier1", "Alternative"]), b.rand_shape(rng, dim, 2, 4), ax,
                          b.rand_origin(rng, dim) * 10.0 ** k, "spacing"))
        for k in (10, 20):
            cases.append((dim, "Trapezoid", b.rand_shape(rng, dim, 2, 4), b.rand_axes(rng, dim, "skew"),
                          b.rand_origin(rng, dim) + 2.0 ** k * np.array([rng.choice([-1, 1, 3]) for _ in range(dim)]), "far-origin"))
    for _ in range(ctx.n(10, 200)):
        dim = rng.choice([2, 3])
        cases.append((dim, rng.choice(b.SCHEMES), b.rand_shape(rng, dim, 2, 6 if dim == 3 else 8),
                      b.rand_axes(rng, dim, rng.choice(["skew", "diag+-"])), b.rand_origin(rng, dim), "random"))
    lines = [f"C13.gugrid {sch if sch in b.SCHEMES else 'Bad'} {fvec(o)} {fmat(ax)} {vec(sh)}" for _, sch, sh, ax, o, _ in cases]
    n_u = len(lines)
    # _HyperRectangleGrid(points, weights, shape) directly
    hr = []
    for dim in (2, 3):
        sh = b.rand_shape(rng, dim, 2, 4)
        g = cub.UniformGrid(b.rand_origin(rng, dim), b.rand_axes(rng, dim, "skew"), np.array(sh), weight="Rectangle")
        p, w = np.array(g.points), np.array(g.weights)
        hr += [("ok", p, w, sh), ("short-shape", p, w, sh[:1]), ("long-shape", p, w, sh + [1]), ("product", p[:-1], w[:-1], sh),
               ("weights", p, w[:-1], sh), ("dimension", p[:, :dim - 1] if dim == 3 else np.hstack([p, p[:, :1]]), w, sh),
               ("one", p[: len(p) // sh[0]], w[: len(p) // sh[0]], [1] + sh[1:]), ("zero", p[:0], w[:0], [0] + sh[1:]),
               ("negative", p, w, [-sh[0], -sh[1]] + sh[2:])]
    for label, p, w, sh in hr:
        lines.append(f"C13.ghrinit {fmat(p)} {fvec(w)} {vec(sh)}")
    lines.append("C13.gdefaults")
    from sympy import symbols
    from sympy.functions.combinatorial.numbers import bell
    bells = []
    for n in range(1, 6):
        gs = [rng.uniform(-1.5, 1.5) for _ in range(n)]
        syms = symbols("x:" + str(n))
        for k in range(1, n + 1):
            bells.append((n, k, gs, float(bell(n, k, syms).evalf(subs={"x" + str(i): gs[i] for i in range(n)}))))
            lines.append(f"C13.gbell {n} {k} {fvec(gs)}")
    model = driver_batch(lines)
    for (dim, sch, sh, ax, o, label), ans in zip(cases, model[:n_u]):
        try:
            g = cub.UniformGrid(np.array(o, dtype=float), np.array(ax, dtype=float), np.array(sh), weight=sch)
            a = "ok"
        except Exception as e:
            g, a = None, _tag(e)
        ctx.count(["gugrid", label, sch, sh, _fl(o), _fl(ax)], tag=f"gen:ugrid:{label}:{dim}d:{a}")
        wit = {"case": label, "scheme": sch, "shape": sh, "origin": _fl(o), "axes": np.asarray(ax).tolist()}
        key = f"ugrid:gen:{label}"
        if a != "ok" or not ans.startswith("ok"):
            if a != ans.split()[0]:
                ctx.fail("corr", key, f"UniformGrid({sch}, shape={sh}) [{label}]: implementation {a}, generated constructor {ans[:40]}", witness=wit)
            continue
        b._cmp_grid(ctx, key, f"UniformGrid [{label}] scheme {sch} shape {sh} (generated constructor)", wit, g.points, g.weights, ans)
    for (label, p, w, sh), ans in zip(hr, model[n_u:n_u + len(hr)]):
        try:
            g = cub._HyperRectangleGrid(p, w, sh)
            a = f"ok {g.points.shape[0]} {g.weights.shape[0]} {vec([int(x) for x in g.shape])}"
        except Exception as e:
            a = _tag(e)
        ctx.count(["ghrinit", label, sh], tag=f"gen:hrinit:{label}:{a.split()[0]}")
        if a != ans:
            ctx.fail("corr", "ugrid:gen:base-init", f"_HyperRectangleGrid(points {p.shape}, weights {w.shape}, shape {sh}) [{label}]: implementation {a}, generated code {ans[:60]}",
                     witness={"case": label, "shape": sh, "points_shape": list(p.shape), "weights_shape": list(w.shape)})
    # default values of the two signatures
    ans = model[n_u + len(hr)]
    sig = inspect.signature(cub._HyperRectangleGrid.interpolate).parameters
    sm = inspect.signature(cub.UniformGrid.from_molecule).parameters
    want = (f"ok {str(sig['use_log'].default).lower()} {sig['nu_x'].default} {sig['nu_y'].default} {sig['nu_z'].default} {sig['method'].default} "
            f"{f2b(float(sm['spacing'].default))} {f2b(float(sm['extension'].default))} {str(sm['rotate'].default).lower()} {sm['weight'].default}")
    ctx.count(["gdefaults"], tag="gen:defaults")
    if ans != want:
        ctx.fail("corr", "gen:defaults", f"default values of interpolate / from_molecule: signatures say {want!r}, generated definitions {ans!r}")
    for (n, k, gs, val), ans in zip(bells, model[n_u + len(hr) + 1:]):
        ctx.count(["gbell", n, k], tag="gen:bell")
        t = Tokens(ans)
        if t.tok() != "ok" or not close(t.flt(), val, rtol=1e-10, scale=10.0):
            ctx.fail("corr", "bell", f"incomplete Bell polynomial B_({n},{k}): sympy {val}, model {ans}")


def corr_gen_tensor(ctx, cub, rng):
    """`C13.gtensor` / `C13.gorigin`: the generated Tensor1DGrids.__init__ (2-D and 3-D, unsorted / descending / one-point 1-D
    grids, the same OneDGrid object on several axes) and the `origin` property."""
    from grid.basegrid import OneDGrid
    b = _b()
    lines, impl, meta = [], [], []
    for it in range(ctx.n(12, 200)):
        dim = 2 + it % 2
        shape = b.rand_shape(rng, dim, 2, 5)
        if it % 6 == 5:
            shape[rng.randrange(dim)] = 1              # refused by the base class
        gs = [b._rand_oned(rng, s, sorted_=rng.random() < 0.6) for s in shape]
        if it % 4 == 3:
            gs[0] = OneDGrid(gs[0].points[::-1].copy(), gs[0].weights)
        if it % 5 == 4 and shape[0] == shape[1]:
            gs[1] = gs[0]
        lines.append("C13.gtensor " + vec(shape) + " " + " ".join(fvec(g.points) + " " + fvec(g.weights) for g in gs))
        try:
            g = cub.Tensor1DGrids(*gs) if it % 2 == 0 or dim == 3 else cub.Tensor1DGrids(gs[0], gs[1], None)
            impl.append(("ok", g.points, g.weights, [int(x) for x in g.shape], g))
        except Exception as e:
            impl.append((_tag(e),))
        meta.append((shape, gs))
    n_t = len(lines)
    for a in impl:
        if a[0] == "ok":
            lines.append(f"C13.gorigin {fmat(a[1])}")
    model = driver_batch(lines)
    k = n_t
    for (shape, gs), a, ans in zip(meta, impl, model[:n_t]):
        ctx.count(["gtensor", shape, _fl(gs[0].points)], tag=f"gen:tensor:{len(shape)}d:{a[0]}")
        wit = {"shape": shape, "nodes": [_fl(g.points) for g in gs], "weights": [_fl(g.weights) for g in gs]}
        if a[0] != "ok" or not ans.startswith("ok"):
            if a[0] != ans.split()[0]:
                ctx.fail("corr", "tensor:gen", f"Tensor1DGrids sizes {shape}: implementation {a[0]}, generated constructor {ans[:40]}", witness=wit)
            continue
        t = Tokens(ans)
        t.tok()
        mp, mw, ms = t.fmat(), t.fvec(), t.vec(int)
        if mp != a[1].tolist() or ms != a[3]:
            ctx.fail("corr", "tensor:gen:points", f"Tensor1DGrids sizes {shape}: points / shape differ from the generated constructor", witness=wit)
        if len(mw) != len(a[2]) or any(not close(x, y, rtol=1e-13, scale=0.0) for x, y in zip(_fl(a[2]), mw)):
            ctx.fail("corr", "tensor:gen:weights", f"Tensor1DGrids sizes {shape}: weights differ from the generated constructor", witness=wit)
        t = Tokens(model[k])
        k += 1
        if t.tok() != "ok" or t.fvec() != _fl(a[4].origin):
            ctx.fail("corr", "tensor:gen:origin", f"Tensor1DGrids sizes {shape}: origin {_fl(a[4].origin)}, generated property {model[k - 1][:60]}", witness=wit)


def corr_thresholds(ctx, cub, rng):
    """class 7: `closest_point` accepts exactly diagonal axes: off-diagonal entries of the smallest magnitudes (denormal,
    1e-300) are refused, a negative zero is a zero."""
    lines, impl, meta = [], [], []
    for dim in (2, 3):
        for off in (5e-324, -5e-324, 1e-300, -1e-300, 1e-16, -0.0, 0.0):
            for which in ("closest", "origin"):
                shape = [3, 4, 2][:dim]
                axes = np.diag([0.5, -0.25, 1.0][:dim])
                axes[0, dim - 1] = off
                origin = np.array([0.25, -1.0, 0.5][:dim])
                pt = origin + np.array([1.3, 2.6, 0.4][:dim]) * np.diag(axes)
                g = cub.UniformGrid(origin, axes.copy(), np.array(shape), weight="Rectangle")
                tail = f"{which} {fvec(origin)} {fmat(axes)} {vec(shape)} {fvec(pt)}"
                lines += ["C13.closest " + tail, "C13.gclosest " + tail]
                try:
                    r = g.closest_point(pt, which)
                    impl.append("ok " + (str(int(r)) if float(r) == int(r) else repr(float(r))))
                except Exception as e:
                    impl.append(_tag(e))
                meta.append((dim, off, which))
    model = driver_batch(lines)
    for k, ((dim, off, which), a) in enumerate(zip(meta, impl)):
        ctx.count(["closest-threshold", dim, repr(off), which], tag=f"closest:offdiag={off!r}:{a.split()[0]}")
        for name, ans in (("model", model[2 * k]), ("generated code", model[2 * k + 1])):
            if a != ans:
                ctx.fail("corr", f"closest:{which}" + ("" if name == "model" else ":gen"),
                         f"closest_point with an off-diagonal entry {off!r} ({dim}-D): implementation {a}, {name} {ans}",
                         witness={"shape": [3, 4, 2][:dim], "offdiag": repr(off), "which": which})


# ----------------------------------------------------------------------------------------------
# oracle: classes 5, 8, 9, 10, 12
# ----------------------------------------------------------------------------------------------
def _ref_trilinear(nodes, vals, shape, p):
    """exact (rational) multilinear interpolant of the cell holding p; nodes may run in either direction"""
    idx, ts = [], []
    for ax in range(3):
        n = [Fraction(float(v)) for v in nodes[ax]]
        x = Fraction(float(p[ax]))
        cell = None
        for i in range(len(n) - 1):
            lo, hi = min(n[i], n[i + 1]), max(n[i], n[i + 1])
            if lo <= x <= hi:
                cell = i
                break
        if cell is None:
            return None
        idx.append(cell)
        ts.append((x - n[cell]) / (n[cell + 1] - n[cell]))
    V = np.asarray(vals, dtype=float).reshape(shape)
    tot = Fraction(0)
    for a in (0, 1):
        for bb in (0, 1):
            for c in (0, 1):
                w = (ts[0] if a else 1 - ts[0]) * (ts[1] if bb else 1 - ts[1]) * (ts[2] if c else 1 - ts[2])
                tot += w * Fraction(float(V[idx[0] + a, idx[1] + bb, idx[2] + c]))
    return float(tot)


SNIP_HEAD = "import warnings; warnings.filterwarnings('ignore')\nimport numpy as np\nfrom grid.cubic import UniformGrid, Tensor1DGrids\nfrom grid.basegrid import OneDGrid\n"

SNIP_AXES = SNIP_HEAD + """nodes = [np.array(v) for v in {nodes!r}]
g = Tensor1DGrids(*[OneDGrid(v, np.ones(len(v))) for v in nodes])
got = g.get_points_along_axes()
assert len(got) == len(nodes) and all(np.array_equal(a, b) for a, b in zip(got, nodes)), f'get_points_along_axes() = {{[list(a) for a in got]}}, the 1-D nodes in grid order are {{[list(a) for a in nodes]}}'
"""

SNIP_LIN = SNIP_HEAD + """origin, axes, shape = np.array({origin!r}), np.array({axes!r}), np.array({shape!r})
g = UniformGrid(origin, axes, shape, weight='Rectangle')
vals = np.array({vals!r}); pt = np.array([{pt!r}])
got = float(g.interpolate(pt, vals, method={method!r})[0])
assert abs(got - {want!r}) <= 1e-9 * {scale!r}, f'{method} interpolation gives {{got}}, reference {want!r}'
"""


def or_negative_axes(ctx, cub, rng, big):
    """class 5: grids with axes running in the negative direction, through every method: node extraction (in grid order,
    2-D and 3-D, UniformGrid and Tensor1DGrids), linear / nearest interpolation of *arbitrary* data against an exact
    multilinear reference / the value at the nearest node, index maps."""
    from grid.basegrid import OneDGrid
    b = _b()
    for it in range(8 if not big else 120):
        dim = 2 + it % 2
        shape = b.rand_shape(rng, dim, 2, 6)
        nodes = []
        for ax in range(dim):
            v = np.cumsum([rng.uniform(0.2, 1.0) for _ in range(shape[ax])]) + rng.uniform(-2, 1)
            if ax == it % dim or rng.random() < 0.4:
                v = v[::-1].copy()
            nodes.append(v)
        gt = cub.Tensor1DGrids(*[OneDGrid(v, np.ones(len(v))) for v in nodes])
        st = np.array([rng.choice([-1.0, 1.0]) * rng.choice([0.25, 0.5, 1.5]) for _ in range(dim)])
        st[it % dim] = -abs(st[it % dim])
        o = np.array([rng.uniform(-1, 1) for _ in range(dim)])
        gu = cub.UniformGrid(o, np.diag(st), np.array(shape), weight="Rectangle")
        for name, g, want in (("Tensor1DGrids", gt, nodes), ("UniformGrid", gu, [o[d] + st[d] * np.arange(shape[d]) for d in range(dim)])):
            got = g.get_points_along_axes()
            ctx.tagc(f"oracle:axes-points:negative:{dim}d")
            if len(got) != dim or any(len(a) != len(w) or not np.allclose(a, w, rtol=0, atol=1e-13) for a, w in zip(got, want)):
                ctx.fail("oracle", f"cubic.get_points_along_axes:{dim}d", f"{name} shape {shape} with a descending axis: get_points_along_axes() does not return the 1-D nodes in grid order",
                         witness={"shape": shape, "nodes": [list(map(float, w)) for w in want]},
                         snippet=SNIP_AXES.format(nodes=[list(map(float, w)) for w in nodes]) if name == "Tensor1DGrids" else None)
            for c in [tuple(rng.randrange(s) for s in shape) for _ in range(6)]:
                idx = int(g.coordinates_to_index(c))
                pt = [float(want[d][c[d]]) for d in range(dim)]
                if tuple(int(x) for x in g.index_to_coordinates(idx)) != c or not np.allclose(g.points[idx], pt, rtol=0, atol=1e-12):
                    ctx.fail("oracle", f"cubic.index:{dim}d", f"{name} shape {shape} with a descending axis: coordinates {c} -> {idx} -> point {_fl(g.points[idx])}, expected {pt}",
                             witness={"shape": shape, "coords": list(c)})
            if dim == 3:
                vals = np.array([rng.uniform(-2, 2) for _ in range(g.size)])
                pts = np.vstack([b.interior_point(g, rng) for _ in range(3)])
                pts[0] = g.points[rng.randrange(g.size)]
                got = np.asarray(g.interpolate(pts, vals, method="linear")).ravel()
                for p, r in zip(pts, got):
                    ref = _ref_trilinear(want, vals, shape, p)
                    ctx.tagc("oracle:interp:linear:negative-axis:arbitrary-data")
                    if ref is None or not close(float(r), ref, rtol=1e-10, scale=4.0):
                        ctx.fail("oracle", "cubic.interpolate:linear", f"{name} shape {shape} with a descending axis: linear method gives {float(r)} at {_fl(p)}, "
                                 f"the multilinear interpolant of the cell is {ref}", witness={"shape": shape, "point": _fl(p), "nodes": [list(map(float, w)) for w in want]},
                                 snippet=SNIP_LIN.format(origin=_fl(o), axes=np.diag(st).tolist(), shape=shape, vals=_fl(vals), pt=_fl(p), method="linear",
                                                         want=ref, scale=4.0) if name == "UniformGrid" and ref is not None else None)
                got = np.asarray(g.interpolate(pts, vals, method="nearest")).ravel()
                for p, r in zip(pts, got):
                    d = np.linalg.norm(g.points - p, axis=1)
                    cand = vals[d <= d.min() + 1e-9]
                    ctx.tagc("oracle:interp:nearest:negative-axis")
                    if not np.any(np.abs(cand - r) <= 1e-12):
                        ctx.fail("oracle", "cubic.interpolate:nearest", f"{name} shape {shape} with a descending axis: nearest method returned {r}, the value at the nearest node is {cand[0]}",
                                 witness={"shape": shape, "point": _fl(p)})


def or_special_points(ctx, cub, rng, big):
    """class 12: query points on nodes, cell faces and edges. Cubic method at an interior spline node returns the datum
    there for *any* data (interpolation property of the splines, not only for cubics); linear method against the exact
    multilinear reference on arbitrary data; nearest method at a node returns the datum."""
    b = _b()
    for it in range(6 if not big else 80):
        shape = b.rand_shape(rng, 3, 7, 8, noncubic=False)
        g = b.axis_grid(cub, rng, shape, "uniform" if it % 2 else "tensor")
        vals = np.array([rng.uniform(-1, 1) for _ in range(g.size)])
        for _ in range(3):
            c = [rng.randrange(1, s - 2) for s in shape]
            idx = int(g.coordinates_to_index(c))
            got = float(np.asarray(g.interpolate(g.points[idx:idx + 1].copy(), vals)).ravel()[0])
            ctx.tagc("oracle:interp:cubic:at-node")
            if not close(got, float(vals[idx]), rtol=1e-9, scale=1.0):
                ctx.fail("oracle", "cubic.interpolate:cubic", f"shape {shape}: cubic method at the grid node {c} (a node of every spline) returns {got}, the datum there is {float(vals[idx])}",
                         witness={"shape": shape, "coords": c})
        nodes = [np.asarray(a, dtype=float) for a in g.get_points_along_axes()]
        pts = _special_points(g, rng, 8)
        got = np.asarray(g.interpolate(pts, vals, method="linear")).ravel()
        for m, (p, r) in enumerate(zip(pts, got)):
            ref = _ref_trilinear(nodes, vals, shape, p)
            ctx.tagc("oracle:interp:linear:" + ["node", "face", "edge", "interior"][m % 4])
            if ref is None or not close(float(r), ref, rtol=1e-10, scale=2.0):
                ctx.fail("oracle", "cubic.interpolate:linear", f"shape {shape}: linear method at {_fl(p)} ({['a node', 'a cell face', 'a cell edge', 'an interior point'][m % 4]}) gives {float(r)}, "
                         f"multilinear interpolant {ref}", witness={"shape": shape, "point": _fl(p)})
        idx = rng.randrange(g.size)
        r = float(np.asarray(g.interpolate(g.points[idx:idx + 1].copy(), vals, method="nearest")).ravel()[0])
        ctx.tagc("oracle:interp:nearest:at-node")
        if r != float(vals[idx]):
            ctx.fail("oracle", "cubic.interpolate:nearest", f"shape {shape}: nearest method at node {idx} returns {r}, the datum is {float(vals[idx])}", witness={"shape": shape, "index": idx})


def or_far_and_scaled(ctx, cub, rng, big):
    """class 8: grids far from the origin and with spacings 2^-20 .. 2^20. All numbers are dyadic, so that the translated /
    scaled grid holds exactly the translated / scaled points: interpolation (all methods, derivatives) must return the
    untranslated result (derivatives scaled by s^-order), closest_point the same index, the layout the exact points,
    from_molecule the translated box."""
    b = _b()
    worst = ctx.extra.setdefault("far_and_scaled", {"label": "class 8: largest relative deviation from the untranslated / unscaled result",
                                                    "translate": 0.0, "scale": 0.0})
    for it in range(6 if not big else 80):
        shape = b.rand_shape(rng, 3, 7, 8, noncubic=False)
        h = np.array([rng.choice([0.25, 0.5, 0.375]) for _ in range(3)])
        o = np.array([rng.randrange(-8, 8) / 8.0 for _ in range(3)])
        C = b.rand_tensor_cubic(rng) * 0.3
        g0 = cub.UniformGrid(o, np.diag(h), np.array(shape), weight="Rectangle")
        loc = (g0.points - o) / (h * (np.array(shape) - 1)) * 2 - 1           # local coordinates in [-1, 1]
        vals = b.poly_eval(C, loc)
        q = np.array([[o[d] + h[d] * rng.randrange(8, 8 * (shape[d] - 1) - 8) / 8.0 for d in range(3)]])
        k = rng.choice([10, 14, 17, 20])
        T = np.array([float(rng.choice([-3, -1, 1, 2, 5])) * 2.0 ** k for _ in range(3)])
        s = 2.0 ** rng.choice([-8, -5, -3, 7, 13, 20])       # (h s)^3 must stay above the constructor's absolute threshold 1e-10
        gT = cub.UniformGrid(o + T, np.diag(h), np.array(shape), weight="Rectangle")
        gS = cub.UniformGrid(o * s, np.diag(h) * s, np.array(shape), weight="Rectangle")
        if not (np.array_equal(gT.points, g0.points + T) and np.array_equal(gS.points, g0.points * s)):
            ctx.fail("oracle", "cubic.UniformGrid.layout:3d", f"shape {shape}: points of the grid translated by {_fl(T)} / scaled by {s} are not the translated / scaled points (all numbers dyadic)",
                     witness={"shape": shape, "origin": _fl(o), "spacing": _fl(h), "shift": _fl(T), "scale": s})
            continue
        for lg, method, nu in [(False, "cubic", (0, 0, 0)), (False, "cubic", (1, 0, 2)), (False, "cubic", (0, 3, 0)), (True, "cubic", (0, 0, 0)),
                               (True, "cubic", (0, 0, 2)), (False, "linear", (0, 0, 0)), (False, "nearest", (0, 0, 0))]:
            v = np.exp(vals) if lg else vals
            kw = dict(use_log=lg, nu_x=nu[0], nu_y=nu[1], nu_z=nu[2], method=method)
            r0 = float(np.asarray(g0.interpolate(q, v, **kw)).ravel()[0])
            rT = float(np.asarray(gT.interpolate(q + T, v, **kw)).ravel()[0])
            rS = float(np.asarray(gS.interpolate(q * s, v, **kw)).ravel()[0]) * (s ** sum(nu) if method == "cubic" else 1.0)
            sc = max(1.0, abs(r0)) * (4.0 ** sum(nu))
            ctx.tagc(f"oracle:interp:translated:{method}:2^{k}")
            ctx.tagc(f"oracle:interp:scaled:{method}")
            worst["translate"] = max(worst["translate"], abs(rT - r0) / sc)
            worst["scale"] = max(worst["scale"], abs(rS - r0) / sc)
            if not close(rT, r0, rtol=1e-7, scale=sc):
                ctx.fail("oracle", "cubic.interpolate:" + ("log" if lg else method), f"shape {shape}: {method} interpolation (use_log={lg}, nu={nu}) on the grid translated by {_fl(T)} "
                         f"gives {rT} at the translated point, {r0} on the untranslated grid", witness={"shape": shape, "origin": _fl(o), "spacing": _fl(h), "shift": _fl(T), "point": _fl(q), "nu": list(nu)})
            if not close(rS, r0, rtol=1e-7, scale=sc):
                ctx.fail("oracle", "cubic.interpolate:" + ("log" if lg else method), f"shape {shape}: {method} interpolation (use_log={lg}, nu={nu}) on the grid scaled by {s} "
                         f"gives {rS} (derivative rescaled) at the scaled point, {r0} on the unscaled grid", witness={"shape": shape, "origin": _fl(o), "spacing": _fl(h), "scale": s, "point": _fl(q), "nu": list(nu)})
        # closest_point: same index on the translated / scaled grid
        for which in ("closest", "origin"):
            p = o + h * np.array([rng.uniform(-1, s_ + 1) for s_ in shape])
            p = np.round(p * 64) / 64
            i0, iT, iS = g0.closest_point(p, which), gT.closest_point(p + T, which), gS.closest_point(p * s, which)
            ctx.tagc("oracle:closest:translated+scaled")
            if not (float(i0) == float(iT) == float(iS)):
                ctx.fail("oracle", "cubic.UniformGrid.closest_point" + (":origin" if which == "origin" else ""),
                         f"closest_point({which!r}) returns {i0} / {iT} / {iS} on a grid, its translate by {_fl(T)} and its multiple by {s} (same query in each frame)",
                         witness={"shape": shape, "origin": _fl(o), "spacing": _fl(h), "shift": _fl(T), "scale": s, "point": _fl(p)})
    # from_molecule: translated molecule -> translated box (rotate=False exactly the same shape; dyadic lattice coordinates)
    for it in range(6 if not big else 60):
        n = rng.randrange(2, 6)
        nums = np.array([float(rng.choice([1, 6, 8, 17])) for _ in range(n)])
        xyz = np.array([[rng.randrange(-64, 65) / 16.0 for _ in range(3)] for _ in range(n)])
        T = np.array([float(rng.choice([-3, 1, 2])) * 2.0 ** rng.choice([10, 15, 20]) for _ in range(3)])
        sp, ext = rng.choice([0.25, 0.5, 1.0]), rng.choice([1.0, 2.0, 0.75])
        g0 = cub.UniformGrid.from_molecule(nums, xyz, spacing=sp, extension=ext, rotate=False, weight="Rectangle")
        gT = cub.UniformGrid.from_molecule(nums, xyz + T, spacing=sp, extension=ext, rotate=False, weight="Rectangle")
        ctx.tagc("oracle:from_molecule:translated")
        if list(g0.shape) != list(gT.shape) or not np.array_equal(g0.axes, gT.axes) or not np.allclose(gT.origin - T, g0.origin, rtol=0, atol=1e-9 * float(np.abs(T).max())):
            ctx.fail("oracle", "cubic.UniformGrid.from_molecule:translation", f"from_molecule(rotate=False) of a molecule translated by {_fl(T)}: shape {list(gT.shape)} origin {_fl(gT.origin - T)} "
                     f"(shift removed), untranslated shape {list(g0.shape)} origin {_fl(g0.origin)}", witness={"atcorenums": _fl(nums), "atcoords": xyz.tolist(), "shift": _fl(T), "spacing": sp, "extension": ext})
    # weights: translation leaves them unchanged, scaling multiplies them by s^dim
    for it in range(6 if not big else 60):
        dim = 2 + it % 2
        shape = b.rand_shape(rng, dim, 2, 6)
        while True:
            axes = np.round(b.rand_axes(rng, dim, "skew") * 16) / 16
            if abs(np.linalg.det(axes)) > 1e-2:      # dyadic and far from the constructor's threshold also after scaling by 2^-4
                break
        o = np.round(b.rand_origin(rng, dim) * 16) / 16
        sch = rng.choice(["Rectangle", "Trapezoid", "Fourier1", "Alternative"])
        s = 2.0 ** rng.choice([-4, -2, 9, 20])
        T = 2.0 ** rng.choice([10, 20]) * np.ones(dim)
        w0 = cub.UniformGrid(o, axes, np.array(shape), weight=sch).weights
        wT = cub.UniformGrid(o + T, axes, np.array(shape), weight=sch).weights
        wS = cub.UniformGrid(o * s, axes * s, np.array(shape), weight=sch).weights
        ctx.tagc(f"oracle:weights:translated+scaled:{sch}")
        if not np.array_equal(w0, wT) or not np.allclose(wS, w0 * s ** dim, rtol=1e-13, atol=0):
            ctx.fail("oracle", f"cubic.UniformGrid:weight={sch}:sum", f"{sch} weights of shape {shape} change under a translation of the grid or do not scale with s^{dim} (s = {s})",
                     witness={"scheme": sch, "shape": shape, "origin": _fl(o), "axes": axes.tolist(), "scale": s})


def or_handed_out(ctx, cub, rng, big):
    """classes 9 and 10 on what the interpolation / index methods return: the arrays returned by `interpolate`,
    `closest_point`, `index_to_coordinates`, `coordinates_to_index` are edited by the caller, the same call is made again and
    must give the first answer; `get_points_along_axes()` twice (second answer = first answer); methods in both orders."""
    b = _b()
    for it in range(4 if not big else 40):
        shape = b.rand_shape(rng, 3, 7, 8, noncubic=False)
        g = b.axis_grid(cub, rng, shape, "uniform" if it % 2 else "tensor")
        C = b.rand_tensor_cubic(rng) * 0.3
        vals = b.poly_eval(C, g.points)
        q = np.vstack([b.interior_point(g, rng) for _ in range(2)])
        pts0 = np.array(g.points)
        first = {}
        order = [("cubic", {}), ("linear", {"method": "linear"}), ("nearest", {"method": "nearest"}), ("log", {"use_log": True, "nu_y": 1}), ("axes", None)]
        if it % 2:
            order.reverse()
        for rnd in range(2):
            for name, kw in order:
                if kw is None:
                    r = [np.array(a) for a in g.get_points_along_axes()]
                    flat = np.concatenate(r)
                else:
                    v = np.exp(vals) if name == "log" else vals
                    r = g.interpolate(q, v, **kw)
                    flat = np.array(r, dtype=float).ravel()
                    try:
                        r[...] = -7.0                    # the caller uses the returned array as its own
                    except ValueError:                   # np.diag hands out a read-only view: nothing to protect
                        ctx.tagc("oracle:handed-out:read-only-result")
                ctx.tagc("oracle:handed-out:" + name)
                if rnd == 0:
                    first[name] = flat
                elif not np.array_equal(first[name], flat):
                    ctx.fail("oracle", "cubic.interpolate:repeat", f"shape {shape}: second call of {name} (methods called in {'reverse ' if it % 2 else ''}order, returned arrays edited in between) "
                             f"gives {_fl(flat)[:4]}, first call {_fl(first[name])[:4]}", witness={"shape": shape, "which": name})
        if not np.array_equal(pts0, g.points):
            ctx.fail("oracle", "cubic.interpolate:repeat", f"shape {shape}: the grid points changed while the results of interpolate were edited", witness={"shape": shape})
        c = tuple(int(x) for x in g.index_to_coordinates(5))
        i1 = int(g.coordinates_to_index(c))
        cp = float(g.closest_point(g.points[7], "closest")) if hasattr(g, "closest_point") else None
        again = (tuple(int(x) for x in g.index_to_coordinates(5)), int(g.coordinates_to_index(c)),
                 float(g.closest_point(g.points[7], "closest")) if cp is not None else None)
        if again != (c, i1, cp) or i1 != 5 or (cp is not None and cp != 7.0):
            ctx.fail("oracle", "cubic.index:3d", f"shape {shape}: repeated index queries give {again}, first {(c, i1, cp)}", witness={"shape": shape})

def _check_linear_nearest(ctx, cub, rng, g, shape, label):
    """linear / nearest method on two different data arrays in alternation on one object, every answer against an
    independent reference (exact multilinear interpolant / datum at the nearest node)"""
    b = _b()
    nodes = [np.asarray(a, dtype=float) for a in g.get_points_along_axes()]
    vA = np.array([rng.uniform(-2, 2) for _ in range(g.size)])
    vB = np.array([rng.uniform(-2, 2) for _ in range(g.size)])
    pts = np.vstack([b.interior_point(g, rng) for _ in range(2)])
    for method, v in (("linear", vA), ("nearest", vB), ("linear", vB), ("nearest", vA), ("linear", vA)):
        got = np.asarray(g.interpolate(pts, v, method=method)).ravel()
        for p, r in zip(pts, got):
            ctx.tagc(f"oracle:interp:{method}:{label}")
            if method == "linear":
                ref = _ref_trilinear(nodes, v, shape, p)
                ok = ref is not None and close(float(r), ref, rtol=1e-10, scale=4.0)
            else:
                d = np.linalg.norm(g.points - p, axis=1)
                cand = v[d <= d.min() + 1e-9]
                ref = float(cand[0])
                ok = bool(np.any(np.abs(cand - r) <= 1e-12))
            if not ok:
                ctx.fail("oracle", f"cubic.interpolate:{method}", f"shape {shape} ({label}): {method} method gives {float(r)} at {_fl(p)}, reference {ref} "
                         "(linear and nearest called in alternation on one grid object with two data arrays)", witness={"shape": shape, "point": _fl(p), "case": label})


def or_method_order(ctx, cub, rng, big):
    """class 10: linear and nearest alternating on one object with other data in between"""
    b = _b()
    for it in range(3 if not big else 30):
        shape = b.rand_shape(rng, 3, 2, 6)
        g = b.axis_grid(cub, rng, shape, "uniform" if it % 2 else "tensor")
        _check_linear_nearest(ctx, cub, rng, g, shape, "alternating")


def oracle_at_r3(ctx, failure):
    """round-3 correspondence keys -> the property at that kind of input; True when handled"""
    import random
    import importlib
    cub = importlib.import_module("grid.cubic")
    b = _b()
    w = failure.witness if isinstance(failure.witness, dict) else {}
    key = failure.key
    rng = random.Random(f"C13:at3:{key}:{b.json_key(w)}")
    if key in ("interp:gen:linear", "interp:gen:nearest") and "shape" in w and len(w["shape"]) == 3:
        shape = [max(2, int(x)) for x in w["shape"]]
        for kind in ("uniform", "tensor"):
            _check_linear_nearest(ctx, cub, rng, b.axis_grid(cub, rng, shape, kind), shape, "at-disagreement")
        or_special_points(ctx, cub, rng, False)
        or_negative_axes(ctx, cub, rng, False)
        return True
    if key == "axes_points:gen":
        or_negative_axes(ctx, cub, rng, True)
        return True
    if key.startswith("ugrid:gen:") and "axes" not in w:
        return True
    return False


ORACLE_PARTS = (or_method_order, or_negative_axes, or_special_points, or_far_and_scaled, or_handed_out)
CORR_PARTS = (corr_gen_interp, corr_gen_ctor, corr_gen_tensor, corr_thresholds)

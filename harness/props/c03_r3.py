"""C03, round 3 (AGENT_ROUND3.md): generator classes 7-12 for the radial transforms, and the correspondence of the
definitions the translator carries since round 3 (`set_maximum_parameter_b`, the `power < 2` warning).

correspondence (implementation vs the generated Lean text at Float)
  * class 7  — every hard-coded threshold of rtransform.py from both sides, within a factor ~1.01 and ~100 (and one ulp):
      `np.abs(self.b) < 1e-16` of the three `set_maximum_parameter_b` (directly and through the methods that call it),
      `power < 2` of `PowerRTransform.transform` (warning issued or not, category, stack level),
      the `== 0` / `<= 0` / `>= rmax` constructor guards at +-5e-324, +-1e-300, -0.0, neighbouring doubles,
      `b * (size - 1) >= 1` of HyperbolicRTransform, `_convert_inf`'s 1e16 (method values 0.01 .. 100 x 1e16 with trimming on),
      the `d1 == 0` guards of `deriv*_inverse` (first derivatives down to 1e-30 by scaling the parameters);
  * class 8  — parameters scaled by 2^-100 .. 2^100, very short intervals (rmax - rmin = 2^-26 rmin), HandyMod next to and
      far from its admissibility bound;
  * class 9  — the array a method returned is overwritten by the caller, then the method is called again;
  * class 10 — `set_maximum_parameter_b` as a public method before / between / after the other methods;
  * class 11 — every one of the 8 methods as the *first* call on a fresh object with `b=None` (plain and wrapped).

oracle (the property itself on the implementation, reference-free identities and the 40-digit run)
  * scale covariance with exactly representable factors: T[s R](x) = s T[R](x) etc. (class 8; any absolute tolerance or cap
      hidden in a method shows as a concrete parameter set),
  * trimming changes nothing but +-inf: trim_inf=True and trim_inf=False agree bit for bit wherever the untrimmed value is
      finite, values within 1 % and a factor 100 of 1e16 on both sides in every run (class 7),
  * every method of every class on integer / bool / float32 arrays, 0-d arrays, Python ints / bools, NumPy integer and bool
      scalars = the float64 computation at the same points (class 2 again: interior points, the regular end and, for the
      forward map, the singular end: `np.array(tf.domain)` is an integer array),
  * the 40-digit reference at scale-extreme parameters, the end points with the scale b inferred from grids whose maximum
      is 1.01e-16 .. 1e12, and rejected grids (class 7/8/12).
"""
import importlib
import math
import warnings

import numpy as np

from ..common import Ctx, b2f, close, driver_batch, f2b, fvec

B_SCALED = ("LinearInfiniteRTransform", "ExpRTransform", "PowerRTransform")
R_SCALED = ("BeckeRTransform", "MultiExpRTransform", "KnowlesRTransform", "HandyRTransform")
SING_END = {"BeckeRTransform": 1.0, "MultiExpRTransform": -1.0, "KnowlesRTransform": 1.0, "HandyRTransform": 1.0}
SCALE_EXPONENTS = [-100, -60, -40, -27, -13, 13, 27, 40, 60, 100]
T16 = 1e-16


def rt():
    return importlib.import_module("grid.rtransform")


def run_parts(parts):
    """run every part; re-raise the first exception afterwards (so that one part that cannot run on a changed tree does not
    silence the parts after it, and the runner still sees the crash)"""
    first = None
    for part in parts:
        try:
            part()
        except Exception as e:  # noqa: BLE001
            first = first or e
    if first is not None:
        raise first


def _describe():
    from ..translate import rtransform as tr
    return tr.describe()


def _vals(v):
    return [float(u) for u in np.atleast_1d(np.asarray(v, dtype=float)).ravel()]


def _quiet():
    class _Q:
        def __enter__(self):
            self.a = np.errstate(all="ignore")
            self.b = warnings.catch_warnings()
            self.a.__enter__()
            self.b.__enter__()
            warnings.simplefilter("ignore")

        def __exit__(self, *e):
            self.b.__exit__(*e)
            self.a.__exit__(*e)
    return _Q()


# =============================================================================================================================
# parameter families
# =============================================================================================================================
def scaled_pair(H, cls, rng, e=None):
    """-> dict(ps0, xs0, ps, xs, fin, fout): parameters `ps` are `ps0` with a scale 2^e applied so that
    T[ps].transform(fin * x) = fout * T[ps0].transform(x) holds exactly over the reals (and, powers of two being exact,
    in floating point up to the rounding of pow / log); None for the classes without such a law."""
    ps0, trim = H.gen_params(cls, rng)
    e = rng.choice(SCALE_EXPONENTS) if e is None else e
    s = 2.0 ** e
    xs0 = H.interior_points(cls, ps0, rng, 3)
    fin = fout = 1.0
    if cls in R_SCALED:
        ps = [ps0[0] * s, ps0[1] * s] + list(ps0[2:])
        fout = s
    elif cls == "LinearFiniteRTransform":
        ps = [ps0[0] * s, ps0[1] * s]
        fout = s
    elif cls in B_SCALED:
        # (PowerRTransform has no law in b: (x + 1) is not homogeneous)
        if cls == "PowerRTransform" or rng.random() < 0.5:
            ps = [ps0[0] * s, ps0[1] * s, ps0[2]]
            fout = s
        else:
            ps = [ps0[0], ps0[1], ps0[2] * s]
            fin = s
    elif cls == "HyperbolicRTransform":
        if rng.random() < 0.5:
            ps = [ps0[0] * s, ps0[1]]
            fout = s
        else:
            ps = [ps0[0] / s, ps0[1] / s]
            fin = s
    else:
        return None
    return dict(cls=cls, trim=trim, e=e, ps0=[float(p) if not isinstance(p, int) else p for p in ps0], xs0=xs0, ps=ps,
                xs=[x * fin for x in xs0], fin=fin, fout=fout)


def short_interval_sets(cls, rng):
    """very short intervals: rmax - rmin = 2^-26 (absolute, around 1) or 2^-26 rmin (relative)"""
    w = 2.0 ** rng.choice([-26, -30, -20])
    rmin = rng.choice([1.0, 3.5, 0.0, 2.0 ** -20, 2.0 ** 20])
    rmax = rmin * (1 + w) if rmin > 0 else w
    if cls == "LinearFiniteRTransform":
        return [rmin, rmax], None
    if cls in B_SCALED:
        if cls != "LinearInfiniteRTransform" and rmin == 0.0:
            rmin, rmax = 0.75, 0.75 * (1 + w)
        return [rmin, rmax, rng.choice([1.0, 7.5, 2.0 ** 20, 2.0 ** -20])], None
    return None


def handymod_extreme(rng):
    """HandyModRTransform next to (d = 2^-13) and far from (d = 2^40) its admissibility bound rmax - rmin > 2^m - 1"""
    d = 2.0 ** rng.choice([-13, -6, 0, 13, 27, 40])
    m = rng.choice([1, 2, 3, 4]) if d < 1 else rng.choice([1, 2, 3, 0.5, 2.5, 3.7])
    rmin = rng.choice([0.0, 2.0 ** -40, 1.0, 2.0 ** 10])
    return [rmin, rmin + (2.0 ** m - 1) + d, m], rng.random() < 0.6


C_WIN = [0.01, 0.99, 1.0 - 2.0 ** -52, 1.0, 1.0 + 2.0 ** -51, 1.01, 100.0]


def window_1e16_sets(H, cls, rng):
    """-> list of (ps, xs): parameters for which a forward method of `cls` takes values c x 1e16, c in C_WIN, at interior
    points (the threshold constant of `_convert_inf` from both sides)"""
    out = []
    if cls in R_SCALED:
        expo = [rng.choice([1, 2, 3, 0.5, 2.5, 3.7])] if cls in ("KnowlesRTransform", "HandyRTransform") else []
        x0 = rng.choice([0.0, 0.5, -0.5, round(rng.uniform(-0.9, 0.9), 3)])
        meth = rng.choice(["transform", "deriv", "deriv2", "deriv3"])
        with _quiet():
            T1 = H.construct(cls, [0.0, 1.0] + expo, False)
            v0 = abs(_vals(getattr(T1, meth)(np.array([x0])))[0])
        if not (math.isfinite(v0) and v0 > 0):
            return out
        for c in C_WIN:
            out.append(([0.0, c * 1e16 / v0] + expo, [x0, rng.uniform(-0.9, 0.9)]))
        # values exactly 1e16 (finite: must pass through unchanged)
        if cls in ("BeckeRTransform", "HandyRTransform"):
            out.append(([0.0, 1e16] + expo, [0.0]))                 # transform(0) = R exactly
        if cls == "BeckeRTransform":
            out.append(([0.0, 5e15], [0.0]))                        # deriv(0) = 2 R exactly
    elif cls == "HandyModRTransform":
        m = rng.choice([1, 2, 3, 2.5])
        for c in C_WIN:
            out.append(([0.0, c * 1e16, m], [1.0, 0.9, 0.0]))       # transform(1) = rmax
    return out


# =============================================================================================================================
# correspondence
# =============================================================================================================================
def setb_values(rng):
    t = T16
    vals = [0.0, -0.0, 5e-324, 1e-300, t / 100, t * 0.99, float(np.nextafter(t, 0.0)), t, float(np.nextafter(t, 1.0)), t * 1.01,
            t * 100, 1e-8, 1.0, 37.5]
    vals += [-v for v in vals[2:]]
    vals += [rng.choice([-1, 1]) * 10.0 ** rng.uniform(-19, -13) for _ in range(6)]
    return vals


def corr_setb(ctx: Ctx, H):
    """`set_maximum_parameter_b` of the three b-scaled classes against the generated definition: the guard from both sides
    (directly and through the methods that call it first), the attribute afterwards, no-op once b is set."""
    rng = ctx.rng
    mod = rt()
    d = _describe()
    cases, lines = [], []
    for cls in B_SCALED:
        if d[cls].get("setb") is None:
            ctx.fail("corr", f"setb:{cls}", f"the translator no longer carries {cls}.set_maximum_parameter_b")
            continue
        C = getattr(mod, cls)
        for mx in setb_values(rng):
            for route in ("direct", "transform", "inverse", "deriv", "deriv3_inverse"):
                for b0 in (None, rng.choice([1.0, 2.5, 1e-3])):
                    T = C(0.5, 3.0) if b0 is None else C(0.5, 3.0, b0)
                    arr = np.array([mx]) if rng.random() < 0.5 else np.array([mx - 1.0 - abs(mx), mx])
                    tag = "ok"
                    with _quiet():
                        try:
                            if route == "direct":
                                T.set_maximum_parameter_b(arr)
                            else:
                                getattr(T, route)(arr)
                        except ValueError:
                            tag = "value-error"
                        except ZeroDivisionError:
                            pass        # the `d1 == 0` guard further down the method, on these meaningless radii: b was accepted
                        except Exception as e:  # noqa: BLE001
                            tag = type(e).__name__
                    after = T.b
                    cases.append((cls, mx, route, b0, tag, None if after is None else float(after), arr.tolist()))
                    lines.append(f"C03.setb {cls} {0 if b0 is None else 1} {f2b(0.0 if b0 is None else b0)} {f2b(mx)}")
    for (cls, mx, route, b0, tag, after, arr), ans in zip(cases, driver_batch(lines)):
        near = b0 is None and 0 < abs(mx) and 0.009 <= abs(mx) / T16 <= 101
        ctx.count(["setb", cls, mx, route, b0], nontrivial=(b0 is None), tag=f"r3:setb:{'window' if near else 'far' if b0 is None else 'already-set'}:{tag}")
        # the generated definition gives the attribute after the call, also after a rejected one (`none` = None): whether the
        # check stands before or after the assignment in the source is carried by the translator
        toks = ans.split()
        model_after = None if len(toks) != 2 else (None if toks[1] == "none" else b2f(toks[1]))
        ok = len(toks) == 2 and toks[0] == tag and ((after is None and toks[1] == "none") or (after is not None and model_after == after))
        if ok and tag == "ok":
            ok = after == (mx if b0 is None else b0)
        if not ok:
            ctx.fail("corr", f"setb:{cls}", f"{cls}(0.5, 3.0{'' if b0 is None else ', b=' + repr(b0)}) "
                     f"{'set_maximum_parameter_b' if route == 'direct' else route}(np.array({arr})): implementation {tag}, b afterwards {after!r}; "
                     f"generated definition: {toks[0] if toks else ans}, b afterwards {model_after!r}",
                     witness={"class": cls, "max": mx, "route": route, "b": b0, "array": arr, "impl": [tag, after], "model": ans})


def _observed_warning(T, meth, arg):
    """-> (issued?, category name, observed stack level 1|2|3|None) of the 'power' warning of one call"""
    def level2():
        return getattr(T, meth)(arg)                        # LINE_A

    def level3():
        return level2()                                     # LINE_B
    la = level2.__code__.co_firstlineno + 1
    lb = level3.__code__.co_firstlineno + 1
    with np.errstate(all="ignore"), warnings.catch_warnings(record=True) as w:
        warnings.simplefilter("always")
        level3()
    mine = [x for x in w if "power need to be larger" in str(x.message)]
    if not mine:
        return False, None, None
    x = mine[0]
    lvl = 2 if (x.filename == __file__ and x.lineno == la) else 3 if (x.filename == __file__ and x.lineno == lb) \
        else 1 if x.filename.endswith("rtransform.py") else None
    return True, x.category.__name__, lvl


def corr_warns(ctx: Ctx, H):
    """`if power < 2: warnings.warn(..., RuntimeWarning, stacklevel=2)` of PowerRTransform.transform against the generated
    `transform_warns` / `warnKindOf`: both sides of 2 (factor 1.01, 100, one ulp), category, attributed frame; the other
    methods of the class issue nothing."""
    rng = ctx.rng
    mod = rt()
    d = _describe()
    if "transform" not in d["PowerRTransform"].get("warns", {}):
        ctx.fail("corr", "warns:PowerRTransform.transform", "the translator no longer carries the warning of PowerRTransform.transform")
        return
    cases, lines = [], []
    targets = [0.02, 1.98, 2.0 * (1 - 1e-12), 2.0, 2.0 * (1 + 1e-12), 2.02, 200.0]
    sets = [([1.0, 4.0, 1.0], 2.0), ([0.25, 16.0, 7.0], 2.0), ([1.0, 9.0, 2.0], 2.0)]       # power = 2 (up to the rounding of log)
    for _ in range(ctx.n(6, 60)):
        for p in targets:
            rmin, b = rng.choice([0.5, 1.0, 0.01, 3.0]), rng.choice([1.0, 3.0, 0.5, 10.0])
            sets.append(([rmin, rmin * (b + 1) ** p, b], p))
    for ps, p in sets:
        if not ps[1] > ps[0]:
            continue
        for meth in ("transform", "deriv", "deriv2", "deriv3", "inverse"):
            if meth != "transform" and rng.random() < 0.7:
                continue
            T = mod.PowerRTransform(*ps)
            x = rng.uniform(0.1, 2.0) * ps[2]
            issued, cat, lvl = _observed_warning(T, meth, np.array([x]) if rng.random() < 0.6 else float(x))
            power = (math.log(ps[1]) - math.log(ps[0])) / math.log(ps[2] + 1)
            cases.append((ps, p, meth, x, issued, cat, lvl, power))
            lines.append(f"C03.warns PowerRTransform {meth} 0 {fvec(ps)} {f2b(x)}")
    for (ps, p, meth, x, issued, cat, lvl, power), ans in zip(cases, driver_batch(lines)):
        ctx.count(["warns", ps, meth, x], nontrivial=(meth == "transform"),
                  tag=f"r3:warns:{meth}:{'issued' if issued else 'silent'}:{'window' if 0.98 <= power / 2 <= 1.02 else 'far'}")
        if meth != "transform":
            ok = ans == "ok none" and not issued
        else:
            toks = ans.split()
            ok = len(toks) == 4 and toks[0] == "ok" and toks[1] in "01"
            if ok and abs(power - 2.0) <= 1e-13 and (toks[1] == "1") != issued:
                ctx.tagc("r3:warns:tie-at-the-threshold-not-compared")       # log of two libraries, last bit
                continue
            ok = ok and (toks[1] == "1") == issued and (not issued or (toks[2] == cat and int(toks[3]) == lvl))
        if not ok:
            ctx.fail("corr", f"warns:PowerRTransform.{meth}", f"PowerRTransform{tuple(ps)}.{meth}({x!r}) [power = {power!r}]: implementation "
                     f"{'warns ' + str(cat) + ' attributed to stack level ' + str(lvl) if issued else 'does not warn'}; generated definition: {ans}",
                     witness={"class": "PowerRTransform", "params": ps, "method": meth, "x": x, "power": power, "impl": [issued, cat, lvl], "model": ans})


def corr_guard_windows(ctx: Ctx, H):
    """constructor guards next to their literals (0, and rmin = rmax), the size guard of HyperbolicRTransform next to 1"""
    rng = ctx.rng
    mod = rt()
    tiny = [0.0, -0.0, 5e-324, -5e-324, 1e-300, -1e-300, 1e-16, -1e-16, 1.0, float(np.nextafter(1.0, 2.0)), float(np.nextafter(1.0, 0.0)),
            1e300, -1e300, 0.5, 2.0]
    lines, want, info = [], [], []
    for cls in H.CLASSES:
        if cls == "IdentityRTransform":
            continue
        arity = {"BeckeRTransform": 2, "LinearFiniteRTransform": 2, "MultiExpRTransform": 2, "HyperbolicRTransform": 2}.get(cls, 3)
        for _ in range(ctx.n(40, 400)):
            ps = [rng.choice(tiny) for _ in range(arity)]
            try:
                with _quiet():
                    H.construct(cls, ps, True)
                w = "ok 1"
            except ValueError:
                w = "ok 0"
            lines.append(f"C03.admissible {cls} 1 {fvec(ps)}")
            want.append(w)
            info.append((cls, ps))
    for a, w, (cls, ps) in zip(driver_batch(lines), want, info):
        ctx.count(["admissible-window", cls, [f2b(p) for p in ps]], nontrivial=True, tag="r3:guard-window:" + ("accept" if w == "ok 1" else "reject"))
        if a != w:
            ctx.fail("corr", f"admissible:{cls}", f"{cls}{tuple(ps)}: constructor {'accepts' if w == 'ok 1' else 'raises ValueError'}, "
                     f"generated Admissible says {a}", witness={"class": cls, "params": ps})
    # b * (size - 1) >= 1
    lines, want, info = [], [], []
    for _ in range(ctx.n(40, 300)):
        n = rng.randrange(2, 13)
        c = rng.choice([0.01, 0.5, 0.99, float(np.nextafter(1.0, 0.0)), 1.0, float(np.nextafter(1.0, 2.0)), 1.01, 2.0, 100.0])
        b_ = c / (n - 1)
        a_ = round(rng.uniform(0.1, 3.0), 3)
        T = mod.HyperbolicRTransform(a_, b_)
        meth = rng.choice(H.METHODS)
        xs = np.linspace(0.0, 0.4 / b_, n)
        with _quiet():
            tag, v = H._impl_call(T, meth, xs)
        j = rng.randrange(n)
        lines.append(H._line("eval", "HyperbolicRTransform", meth, False, n, [a_, b_], float(xs[j])))
        want.append((tag, None if v is None else _vals(v)[j]))
        info.append((a_, b_, n, meth, j, c))
    for a, (tag, v), inf in zip(driver_batch(lines), want, info):
        ctx.count(["size-guard-window", inf], nontrivial=True, tag=f"r3:hyperbolic-size-window:{tag}")
        ok = (a == tag) if tag != "ok" else (a.startswith("ok ") and close(v, b2f(a.split()[1]), rtol=1e-10, atol=1e-300))
        if not ok:
            ctx.fail("corr", "eval:HyperbolicRTransform.size-guard", f"HyperbolicRTransform({inf[0]}, {inf[1]!r}).{inf[3]}(array of {inf[2]}) "
                     f"[b (size-1) = {inf[1] * (inf[2] - 1)!r}]: implementation {tag} {v!r}, model {a}",
                     witness={"a": inf[0], "b": inf[1], "size": inf[2], "method": inf[3]})


def _steps_all_methods(H, o, cls, ps, trim, xs, kind, sub, one_by_one=False, methods=None):
    """script steps: every method on the array of the points (forward side) / of their images (codomain side)"""
    with _quiet():
        try:
            T = H.construct(cls, ps, trim)
            if one_by_one:
                rs = [_vals(T.transform(np.array([x])))[0] for x in xs]
            else:
                rs = _vals(T.transform(np.array(xs)))
        except Exception:  # noqa: BLE001
            return []
    rs = [r for r in rs if math.isfinite(r) and abs(r) != 1e16]
    steps = []
    for meth in (methods or H.METHODS):
        arg = xs if (meth in H.FWD) != o["wrapped"] else rs
        if not arg:
            continue
        groups = [[a] for a in arg] if one_by_one else [arg]
        for g in groups:
            steps.append(H._step(o, meth, [f"a = np.array({H._flist(g)})"], "a", g, kind, shape=(len(g),), argvar="a", sub=sub))
    return steps


def corr_scales(ctx: Ctx, H):
    """classes 7/8: scale-extreme parameters, very short intervals, HandyMod next to its bound, values around 1e16 with
    trimming on — every method against the generated model (script machinery of round 2: `_Scripts.judge_model`)."""
    rng = ctx.rng
    mod = rt()
    S = H._Scripts(ctx, mod, "r3-scale")
    for cls in H.CLASSES:
        for _ in range(ctx.n(4, 60)):
            sp = scaled_pair(H, cls, rng)
            if sp is None:
                break
            o = H._obj("T0", cls, sp["ps"], sp["trim"], wrapped=rng.random() < 0.2)
            hyp = cls == "HyperbolicRTransform"
            S.run([o], _steps_all_methods(H, o, cls, o["ps"], o["trim"], sp["xs"], "float64", f"{cls}:2^{sp['e']}", one_by_one=hyp))
        for _ in range(ctx.n(3, 40)):
            got = short_interval_sets(cls, rng)
            if got is None:
                break
            ps, trim = got
            o = H._obj("T0", cls, ps, trim, wrapped=rng.random() < 0.2)
            xs = H.interior_points(cls, ps, rng, 3)
            S.run([o], _steps_all_methods(H, o, cls, o["ps"], o["trim"], xs, "float64", f"{cls}:short-interval"))
    # points over many orders of magnitude (the half-infinite domains: x = scale * 10^k; the finite one: 1 - |x| = 10^-k)
    for cls in H.CLASSES:
        for _ in range(ctx.n(2, 30)):
            ps, trim = H.gen_params(cls, rng)
            ks = rng.sample(range(-14, 4), 4)
            if cls in H_FINITE:
                xs = [rng.choice([-1, 1]) * (1 - 10.0 ** -abs(k)) for k in ks if k != 0]
            elif cls == "HyperbolicRTransform":
                xs = [10.0 ** -abs(k) / ps[1] * 0.9 for k in ks]
            else:
                xs = [(ps[2] if cls in B_SCALED else 1.0) * 10.0 ** k for k in ks]
            o = H._obj("T0", cls, ps, trim, wrapped=rng.random() < 0.2)
            S.run([o], _steps_all_methods(H, o, cls, o["ps"], o["trim"], xs, "float64", f"{cls}:points-10^k", one_by_one=True))
    for _ in range(ctx.n(8, 120)):
        ps, trim = handymod_extreme(rng)
        o = H._obj("T0", "HandyModRTransform", ps, trim, wrapped=rng.random() < 0.2)
        xs = [rng.uniform(-0.9, 0.9) for _ in range(3)]
        S.run([o], _steps_all_methods(H, o, "HandyModRTransform", o["ps"], o["trim"], xs, "float64", "HandyModRTransform:bound"))
    S.judge_model()
    S = H._Scripts(ctx, mod, "r3-1e16")
    for cls in list(R_SCALED) + ["HandyModRTransform"]:
        for _ in range(ctx.n(2, 20)):
            for ps, xs in window_1e16_sets(H, cls, rng):
                o = H._obj("T0", cls, ps, True)
                # (HandyMod with rmax ~ 1e16: the inverse map at r ~ rmax has no digits left in double precision; forward methods only)
                S.run([o], _steps_all_methods(H, o, cls, o["ps"], True, xs, "float64", f"{cls}:window-1e16",
                                              methods=(sorted(H.FWD) if cls == "HandyModRTransform" else None)))
    S.judge_model()


def corr_first_call_and_handed_out(ctx: Ctx, H):
    """classes 9, 10, 11: every method as the first call on a fresh `b=None` object (the first array that reaches
    `set_maximum_parameter_b` fixes b), the public `set_maximum_parameter_b` before / between the other methods, and the
    array a method handed out overwritten by the caller before the same call is repeated."""
    rng = ctx.rng
    mod = rt()
    S = H._Scripts(ctx, mod, "r3-first")
    for cls in B_SCALED:
        for rep in range(ctx.n(1, 8)):
            for first in H.METHODS + ["set_maximum_parameter_b"]:
                ps, _ = H.gen_params(cls, rng)
                wrapped = rng.random() < 0.3
                o = H._obj("T0", cls, ps, None, b_none=True, wrapped=wrapped, style=rng.choice(["kwtrim", "kw"]))
                A = [rng.uniform(0.3, 12.0) for _ in range(rng.choice([1, 2, 3]))]
                Bv = [rng.uniform(0.3, 30.0) for _ in range(rng.choice([1, 2, 4]))]
                state = {}

                def mk(meth, pre, arg, xs, kind, argvar=None, o=o, state=state, cls=cls, wrapped=wrapped):
                    psx = list(o["ps"])
                    skips = cls == "LinearInfiniteRTransform" and not wrapped and meth in ("deriv2", "deriv3")
                    if "b" not in state and not skips:
                        state["b"] = float(max(xs))
                    psx[2] = state.get("b", 1.0)
                    return H._step(o, meth, pre, arg, xs, kind, shape=None, argvar=argvar, ps=psx)
                steps = []
                pre0 = [f"a = np.array({H._flist(A)})", f"c = np.array({H._flist(Bv)})"]
                if first == "set_maximum_parameter_b":
                    # the public setter first (the wrapper has none: call it on the wrapped object before wrapping is not possible
                    # in one script, so only plain objects)
                    if wrapped:
                        continue
                    pre0.append("T0.set_maximum_parameter_b(a)")
                    state["b"] = float(max(A))
                    m1 = rng.choice(H.METHODS)
                    steps.append(mk(m1, pre0, "c", Bv, "setter-then-query", "c"))
                else:
                    steps.append(mk(first, pre0, "a", A, "first-call-fresh-b-none", "a"))
                m2, m3 = rng.choice(H.METHODS), rng.choice(H.METHODS)
                steps.append(mk(m2, [], "c", Bv, "second-call-other-array", "c"))
                if not wrapped:
                    # (LinearInfiniteRTransform.deriv2 / deriv3 never look at b: the setter may still be the first to fix it)
                    state.setdefault("b", float(max(Bv)))
                    steps.append(mk(m3, ["T0.set_maximum_parameter_b(c)"], "a", A, "query-setter-query", "a"))
                steps.append(mk(first if first in H.METHODS else m2, [], "a", A, "repeat", "a"))
                S.run([o], steps)
    S.judge_model()
    # class 9: the caller overwrites what it was handed
    S = H._Scripts(ctx, mod, "r3-handed-out")
    for cls in H.CLASSES:
        for rep in range(ctx.n(1, 8)):
            ps, trim = H.gen_params(cls, rng)
            wrapped = rng.random() < 0.25
            o = H._obj("T0", cls, ps, trim, wrapped=wrapped)
            for meth in H.METHODS:
                if cls == "IdentityRTransform" and meth in ("transform", "inverse"):
                    continue            # hands back the argument object itself (reported as information by round 2)
                fwd = (meth in H.FWD) != wrapped
                xs = H.interior_points(cls, ps, rng, rng.choice([1, 2, 3]))
                if not fwd:
                    with _quiet():
                        xs = _vals(H.construct(cls, ps, trim).transform(np.array(xs)))
                    if not all(math.isfinite(t) for t in xs):
                        continue
                steps = [H._step(o, meth, [f"a = np.array({H._flist(xs)})"], "a", xs, "first", argvar="a"),
                         H._step(o, meth, [f"res = T0.{meth}(a)", "res *= 0.0", "res -= 7.5"], "a", xs, "handed-out-array-overwritten", argvar="a"),
                         H._step(o, meth, ["res[...] = np.nan"], f"np.array({H._flist(xs)})", xs, "handed-out-array-overwritten-temporary")]
                S.run([o], steps)
    S.judge_model()


def corr_r3(ctx: Ctx, H):
    # (the two parts that ask the translator what it carries come last: it raises on source it cannot carry, which the
    # runner reports as a broken obligation already)
    run_parts([lambda: corr_guard_windows(ctx, H), lambda: corr_scales(ctx, H), lambda: corr_first_call_and_handed_out(ctx, H),
               lambda: corr_setb(ctx, H), lambda: corr_warns(ctx, H)])


# =============================================================================================================================
# oracle
# =============================================================================================================================
SNIPPET_COV = """import warnings; warnings.filterwarnings('ignore')
import numpy as np
from grid import rtransform as rt
np.seterr(all='ignore')
cls, ps0, ps, trim, meth, x0, x, factor, atol = {cls!r}, {ps0!r}, {ps!r}, {trim!r}, {meth!r}, {x0!r}, {x!r}, {factor!r}, {atol!r}
kw = dict(trim_inf=trim) if trim is not None else dict()
T0, T = getattr(rt, cls)(*ps0, **kw), getattr(rt, cls)(*ps, **kw)       # T: parameters of T0 scaled by a power of two
want = float(np.asarray(getattr(T0, meth)(np.array([x0])), dtype=float)[0]) * factor      # exact scaling law of the class
try:
    got = float(np.asarray(getattr(T, meth)(np.array([x])), dtype=float)[0])
except Exception as e:
    raise AssertionError(f'{{cls}}{{tuple(ps)}}.{{meth}}({{x}}) raises {{type(e).__name__}} on an interior point: {{e}}')
assert abs(got - want) <= 1e-11 * abs(want) + atol, f'{{cls}}{{tuple(ps)}}.{{meth}}({{x}}) = {{got}}, but {{factor}} * {{cls}}{{tuple(ps0)}}.{{meth}}({{x0}}) = {{want}}'
"""

SNIPPET_TRIM = """import warnings; warnings.filterwarnings('ignore')
import numpy as np
from grid import rtransform as rt
np.seterr(all='ignore')
cls, ps, meth, x = {cls!r}, {ps!r}, {meth!r}, {x!r}
a = float(np.asarray(getattr(getattr(rt, cls)(*ps, trim_inf=False), meth)(np.array([x])), dtype=float)[0])
b = float(np.asarray(getattr(getattr(rt, cls)(*ps, trim_inf=True), meth)(np.array([x])), dtype=float)[0])
want = a if np.isfinite(a) or a != a else np.sign(a) * 1e16           # trimming replaces +-inf and nothing else
assert (b == want) or (b != b and want != want), f'{{cls}}{{tuple(ps)}}.{{meth}}({{x}}): trim_inf=False gives {{a}}, trim_inf=True gives {{b}}'
"""

SNIPPET_DTYPE = """import warnings; warnings.filterwarnings('ignore')
import numpy as np
from grid import rtransform as rt
np.seterr(all='ignore')
{ctor}
try:
    got = np.atleast_1d(np.asarray(T.{meth}({typed}), dtype=float)).ravel()
except Exception as e:
    got = type(e).__name__
try:
    want = np.atleast_1d(np.asarray(T.{meth}({plain}), dtype=float)).ravel()
except Exception as e:
    want = type(e).__name__
ok = (isinstance(got, str) and got == want) or (not isinstance(got, str) and not isinstance(want, str) and got.shape == want.shape
      and all((g == w) or (g != g and w != w) or abs(g - w) <= {rtol!r} * abs(w) + {atol!r} for g, w in zip(got, want)))
assert ok, f'{meth}({typed}) = {{got}}, the float64 computation {meth}({plain}) = {{want}}'
"""

SNIPPET_SETB = """import warnings; warnings.filterwarnings('ignore')
import numpy as np
from grid import rtransform as rt
np.seterr(all='ignore')
cls, rmin, rmax, grid = {cls!r}, {rmin!r}, {rmax!r}, np.array({grid!r})
T = getattr(rt, cls)(rmin, rmax)                # b is taken from the first grid
r = T.transform(grid)
b = float(T.b)
assert b == grid.max(), f'b = {{b}}'
lo, hi = float(T.transform(np.array([0.0]))[0]), float(T.transform(np.array([b]))[0])
assert abs(lo - rmin) <= 1e-11 * rmax and abs(hi - rmax) <= 1e-11 * rmax, f'{{cls}}({{rmin}}, {{rmax}}) with b = {{b}} from the grid: transform(0) = {{lo}}, transform(b) = {{hi}}'
"""


SNIPPET_REJECTED = """import warnings; warnings.filterwarnings('ignore')
import numpy as np
from grid import rtransform as rt
np.seterr(all='ignore')
T = rt.{cls}(0.5, 3.0)
try:
    T.transform(np.array([0.0, {mx!r}]))
    raise AssertionError('a grid whose maximum is below 1e-16 was accepted')
except ValueError:
    pass
r = T.transform(np.array([0.0, 1.0, 2.0]))           # the rejected grid must not have fixed the scale
assert T.b == 2.0 and abs(r[0] - 0.5) <= 1e-12 and abs(r[2] - 3.0) <= 1e-11, f'b = {{T.b}}, transform([0, 1, 2]) = {{r}}'
"""


def _cov_exponent(meth):
    return {"transform": 0, "deriv": 1, "deriv2": 2, "deriv3": 3, "inverse": 0, "deriv_inverse": 1, "deriv2_inverse": 2, "deriv3_inverse": 3}[meth]


def oracle_scale_covariance(ctx: Ctx, budget, H):
    """class 8 / 13-style homogeneity where the class has an exact scaling law: parameters scaled by 2^e, e in -100 .. 100."""
    rng = ctx.rng
    reps = 6 if budget == "small" else 60
    for cls in H.CLASSES:
        for rep in range(reps):
            e = SCALE_EXPONENTS[(rep + rng.randrange(len(SCALE_EXPONENTS))) % len(SCALE_EXPONENTS)]
            sp = scaled_pair(H, cls, rng, e=e)
            if sp is None:
                break
            trim = sp["trim"]
            with _quiet():
                try:
                    T0 = H.construct(cls, sp["ps0"], trim)
                except ValueError:
                    continue
                try:
                    T = H.construct(cls, sp["ps"], trim)
                except ValueError as ex:
                    # a positive power-of-two multiple of admissible parameters is admissible (every constructor guard is homogeneous)
                    ctx.fail("oracle", f"rtransform.{cls}.constructor", f"{cls}{tuple(sp['ps0'])} is accepted but the same parameters scaled by "
                             f"2^{e}, {cls}{tuple(sp['ps'])}, are rejected: {ex}", witness={"class": cls, "params": sp["ps"], "params0": sp["ps0"]},
                             snippet=f"from grid import rtransform as rt\nrt.{cls}(*{sp['ps0']!r})\ntry:\n    rt.{cls}(*{sp['ps']!r})\n"
                                     f"except ValueError as e:\n    raise AssertionError(f'admissible parameters rejected: {{e}}')\n")
                    continue
                for x0, x in zip(sp["xs0"], sp["xs"]):
                    r0 = _vals(T0.transform(np.array([x0])))[0]
                    if not math.isfinite(r0) or abs(r0) == 1e16:
                        continue
                    for meth in H.METHODS:
                        fwd = meth in H.FWD
                        k = _cov_exponent(meth)
                        if fwd:
                            a0, a1, factor = x0, x, sp["fout"] / sp["fin"] ** k
                        else:
                            a0, a1, factor = r0, r0 * sp["fout"], sp["fin"] / sp["fout"] ** k
                        try:
                            base = _vals(getattr(T0, meth)(np.array([a0])))[0]
                        except ZeroDivisionError:
                            continue
                        want = base * factor
                        if not math.isfinite(base) or abs(base) == 1e16 or (base == 0.0 and meth != "inverse") or \
                                not (abs(want) < 1e290 and (1e-290 < abs(want) or meth == "inverse")):
                            ctx.tagc("r3:oracle:scale:out-of-range-not-compared")
                            continue
                        if meth in ("deriv2_inverse", "deriv3_inverse") and not (1e-300 < abs(_vals(T.deriv(np.array([x])))[0]) ** 5 < 1e300):
                            ctx.tagc("r3:oracle:scale:out-of-range-not-compared")       # d1**5 under/overflows: not a statement about the map
                            continue
                        try:
                            got = _vals(getattr(T, meth)(np.array([a1])))[0]
                            # (values in the x-domain come out of a cancellation of O(1) terms: absolute tolerance there)
                            atol = 1e-11 * sp["fin"] * max(abs(x0), 1.0 if cls in H_FINITE else 0.0) if meth == "inverse" else 0.0
                            bad = not abs(got - want) <= 1e-11 * abs(want) + atol
                        except Exception as ex:  # noqa: BLE001 - an interior point must be accepted
                            got, bad = type(ex).__name__, True
                        ctx.count(["oracle-scale", cls, sp["ps"], trim, meth, a1], nontrivial=True, tag=f"r3:oracle:scale:2^{e}")
                        if bad:
                            ctx.fail("oracle", f"rtransform.{cls}.{meth}", f"{cls}{tuple(sp['ps'])} trim={trim}: {meth}({a1!r}) = {got!r}, but the same "
                                     f"class with the parameters scaled back by 2^{-e} gives {base!r} at {a0!r}, i.e. {want!r} by the scaling law of the map",
                                     witness={"class": cls, "params": sp["ps"], "params0": sp["ps0"], "trim": trim, "method": meth, "x": a1, "x0": a0,
                                              "got": got, "want": want},
                                     snippet=SNIPPET_COV.format(cls=cls, ps0=sp["ps0"], ps=sp["ps"], trim=(trim if cls in H.HAS_TRIM else None),
                                                                meth=meth, x0=a0, x=a1, factor=factor, atol=atol))


def oracle_trim_identity(ctx: Ctx, budget, H):
    """class 7 (`_convert_inf`'s 1e16): trimming on and off agree bit for bit wherever the untrimmed value is finite; +-inf
    becomes +-1e16; values within 1 % / a factor 100 of 1e16 on both sides, exactly 1e16, ordinary and huge ones."""
    rng = ctx.rng
    seen = {"below": 0, "above": 0, "exact": 0, "inf": 0}
    for cls in list(R_SCALED) + ["HandyModRTransform"]:
        sets = []
        for _ in range(2 if budget == "small" else 20):
            sets += window_1e16_sets(H, cls, rng)
            ps, _t = H.gen_params(cls, rng)
            sets.append((ps, H.interior_points(cls, ps, rng, 3) + H.end_points(cls, ps)))
            if cls in R_SCALED:
                big = rng.choice([1e10, 1e17, 1e100, 1e250])
                sets.append(([ps[0], big] + list(ps[2:]), H.interior_points(cls, ps, rng, 2) + [SING_END[cls] * (1 - 1e-9), SING_END[cls]]))
        for ps, xs in sets:
            with _quiet():
                try:
                    Tn, Tt = H.construct(cls, ps, False), H.construct(cls, ps, True)
                except ValueError:
                    continue
                for meth in ("transform", "deriv", "deriv2", "deriv3"):
                    a = _vals(getattr(Tn, meth)(np.array(xs)))
                    b = _vals(getattr(Tt, meth)(np.array(xs)))
                    for x, u, v in zip(xs, a, b):
                        want = u if (math.isfinite(u) or u != u) else math.copysign(1e16, u)
                        trimmed_site = True
                        if math.isinf(u) and v == u:
                            trimmed_site = False        # a method that does not trim (deriv2 / deriv3 of most classes): nothing claimed
                        k = "inf" if math.isinf(u) else "exact" if abs(u) == 1e16 else "above" if 1e16 < abs(u) <= 1e18 else \
                            "below" if 1e14 <= abs(u) < 1e16 else None
                        if k:
                            seen[k] += 1
                        ctx.count(["oracle-trim", cls, ps, meth, x], nontrivial=k is not None, tag=f"r3:oracle:trim:{k or 'ordinary'}")
                        if trimmed_site and not ((v == want) or (v != v and want != want)):
                            ctx.fail("oracle", f"rtransform.{cls}.{meth}", f"{cls}{tuple(ps)}: {meth}({x!r}) = {u!r} with trim_inf=False but {v!r} with "
                                     "trim_inf=True: trimming may replace +-inf by +-1e16 and nothing else",
                                     witness={"class": cls, "params": ps, "method": meth, "x": x, "trim_off": u, "trim_on": v},
                                     snippet=SNIPPET_TRIM.format(cls=cls, ps=list(ps), meth=meth, x=x))
    if min(seen.values()) == 0:
        ctx.fail("oracle", "rtransform.trim.coverage", f"the 1e16 window cases no longer produce values on both sides of 1e16 / exactly 1e16 / inf: {seen}")


INT_KINDS = ["int64", "int32", "int16", "0d-int", "pyint", "np.int64", "np.int32"]
BOOL_KINDS = ["bool", "0d-bool", "pybool", "np.bool_"]


def _typed_sources(vals, kind):
    """-> (typed argument source, float64 argument source) or None"""
    fl = "[" + ", ".join(repr(float(v)) for v in vals) + "]"
    il = "[" + ", ".join(repr(int(v)) for v in vals) + "]"
    if kind in ("int64", "int32", "int16"):
        return f"np.array({il}, dtype=np.{kind})", f"np.array({fl})"
    if kind == "bool":
        if not set(int(v) for v in vals) <= {0, 1}:
            return None
        return "np.array([" + ", ".join(repr(bool(v)) for v in vals) + "])", f"np.array({fl})"
    # scalars and 0-d arrays are compared with the float64 argument of the same container kind (Python float, np.float64,
    # 0-d float64 array): NumPy's scalar and array loops of exp / pow may differ in the last bit, which an ill-conditioned
    # point amplifies; container kinds against each other are round 2's `kinds` section
    v = vals[0]
    if kind == "0d-int":
        return f"np.array({int(v)})", f"np.array({float(v)!r})"
    if kind == "pyint":
        return repr(int(v)), repr(float(v))
    if kind in ("np.int64", "np.int32"):
        return f"{kind}({int(v)})", f"np.float64({float(v)!r})"
    if int(v) not in (0, 1):
        return None
    if kind == "0d-bool":
        return f"np.array({bool(v)})", f"np.array({float(v)!r})"
    if kind == "pybool":
        return repr(bool(v)), repr(float(v))
    if kind == "np.bool_":
        return f"np.bool_({bool(v)})", f"np.float64({float(v)!r})"
    raise KeyError(kind)


def _int_points(cls, ps, T, fwd, rng):
    """integer points of the closed domain (forward side) / closed codomain (other side), end points included"""
    if fwd:
        if cls in H_FINITE:
            return [-1, 0, 1]
        if cls == "HyperbolicRTransform":
            top = int(0.9 / ps[1])
            return [0, 1] + sorted(rng.sample(range(2, max(top, 3)), min(2, max(top - 2, 0)))) if top >= 2 else [0, 1]
        top = int(3 * ps[2]) if cls in B_SCALED else 40
        return [0, 1] + (sorted(rng.sample(range(2, top + 1), min(2, top - 1))) if top >= 2 else [])
    lo, hi = (float(t) for t in T.codomain)
    lo_i = math.ceil(lo)
    hi_i = math.floor(hi) if math.isfinite(hi) else lo_i + 40
    cand = list(range(lo_i, min(hi_i, lo_i + 40) + 1))
    pts = [c for c in (0, 1) if c in cand]
    rest = [c for c in cand if c not in (0, 1)]
    return pts + sorted(rng.sample(rest, min(3, len(rest))))


H_FINITE = {"BeckeRTransform", "LinearFiniteRTransform", "MultiExpRTransform", "KnowlesRTransform", "HandyRTransform", "HandyModRTransform"}


def oracle_dtype_equivalence(ctx: Ctx, budget, H):
    """class 2 again, every method of every class: an argument of integer / bool / single-precision type, array, 0-d array or
    scalar, must give what the float64 array of the same points gives (exceptions included)."""
    rng = ctx.rng
    mod = rt()
    reps = 3 if budget == "small" else 20
    for cls in H.CLASSES:
        for rep in range(reps):
            ps, trim = H.gen_params(cls, rng)
            ps = [float(p) for p in ps]                 # float parameters: integer-typed parameters are the known fixed-width quirk (round 2)
            wrapped = rep % 3 == 2
            args = [repr(p) for p in ps] + ([f"trim_inf={bool(trim)}"] if cls in H.HAS_TRIM else [])
            ctor = f"T = rt.{cls}({', '.join(args)})" + ("\nT = rt.InverseRTransform(T)" if wrapped else "")
            ns = {"np": np, "rt": mod}
            with _quiet():
                exec(ctor, ns)
                T = ns["T"]
                Tin = H.construct(cls, ps, trim)
                for meth in H.METHODS:
                    fwd = (meth in H.FWD) != wrapped
                    ipts = _int_points(cls, ps, Tin, fwd, rng)
                    if not ipts:
                        continue
                    # single precision: dyadic benign points (exact as float32)
                    cases = []
                    for kind in INT_KINDS + BOOL_KINDS:
                        arr_kind = kind in ("int64", "int32", "int16", "bool")
                        pool = [v for v in ipts if v in (0, 1)] if kind in BOOL_KINDS else ipts
                        if not pool:
                            continue
                        for vals in ([pool] if arr_kind else [[v] for v in pool]):
                            got = _typed_sources(vals, kind)
                            if got:
                                cases.append((kind, vals, got[0], got[1], 1e-12, 0.0))
                    # 0-d float32 / float64 and empty arrays
                    side = H._side_points(cls, ps, trim, rng)[fwd]
                    if side["dy"]:
                        v = side["dy"][0]
                        cases.append(("0d-float32", [v], f"np.array({float(v)!r}, dtype=np.float32)", f"np.array({float(v)!r})", None, None))
                    cases.append(("empty", [], "np.array([], dtype=float)", "np.array([], dtype=np.float64)", 1e-13, 0.0))
                    for kind, vals, typed, plain, rtol, atol in cases:
                        _dtype_case(ctx, H, cls, ps, trim, wrapped, ctor, T, ns, meth, kind, vals, typed, plain, rtol, atol)


def _dtype_case(ctx, H, cls, ps, trim, wrapped, ctor, T, ns, meth, kind, vals, typed, plain, rtol, atol):
    def call(src):
        try:
            return "ok", np.atleast_1d(np.asarray(getattr(T, meth)(eval(src, ns)), dtype=float)).ravel()
        except Exception as e:  # noqa: BLE001
            return type(e).__name__, str(e)
    if cls == "HyperbolicRTransform" and len(vals) >= 2 and ps[1] * (len(vals) - 1) >= 1.0:
        return
    tg, g = call(typed)
    tw, w = call(plain)
    if kind == "empty":
        # an empty array is an array: accepted, empty result
        tw, w = "ok", np.array([], dtype=float)
    eff = H.WRAP_OF[meth] if wrapped else meth
    ctx.count(["oracle-dtype", cls, ps, trim, wrapped, meth, kind, vals], nontrivial=True, tag=f"r3:oracle:dtype:{kind}")
    if tg != "ok" or tw != "ok":
        if tg == tw:
            return
        bad = f"raises {tg}: {g[:80]}" if tg != "ok" else f"= {g.tolist()}"
        bad2 = f"raises {tw}" if tw != "ok" else f"= {w.tolist()}"
        what = f"{meth}({typed}) {bad}, the float64 computation {meth}({plain}) {bad2}"
    else:
        if rtol is None:        # single precision: 2e-3 plus the movement of the float64 value under a float32 ulp of the point
            x = float(vals[0])
            h = 2.0 ** -22 * max(abs(x), 1.0)
            nb = []
            for s in (1, -1):
                t, u = call(f"np.array([{x + s * h!r}])")
                nb.append(u[0] if t == "ok" and u.size == 1 else float("nan"))
            rtol = 2e-3
            atol = 50 * max((abs(n - w[0]) for n in nb if n == n), default=0.0) + 1e-6 * abs(w[0]) if w.size == 1 else 0.0
        what = None
        if g.shape != w.shape:
            what = f"{meth}({typed}) has {g.size} elements, the float64 computation {w.size}"
        else:
            for j, (a, b) in enumerate(zip(g, w)):
                if not ((a == b) or (a != a and b != b) or abs(a - b) <= rtol * abs(b) + atol):
                    if (a != a or abs(a) >= 1e15) and (b != b or abs(b) >= 1e15) and H.exponent_of(cls, ps) not in (None, 1.0, 2.0, 3.0, 4.0, 5.0, 6.0):
                        # the singular end with a non-integer exponent: the last bit of pow (integer base vs float base take
                        # different NumPy loops) decides between inf (trimmed: 1e16) and a huge finite value
                        ctx.tagc("r3:oracle:dtype:pole-noninteger-exponent-not-compared")
                        continue
                    if rtol < 1e-6 and math.isfinite(a) and math.isfinite(b):
                        # conditioning: how far the float64 value moves when the point moves by a few ulp
                        x = float(vals[j])
                        h = 2.0 ** -50 * max(abs(x), 1.0)
                        mv = []
                        for sg in (1, -1):
                            t, u = call(f"np.array([{x + sg * h!r}])")
                            mv.append(abs(u[0] - b) if t == "ok" and u.size == 1 and math.isfinite(u[0]) else float("inf"))
                        # (capped: next to a pole the value moves by its own size, which must not excuse a wrong value)
                        if abs(a - b) <= min(50 * min(mv), 1e-6 * abs(b)) + rtol * abs(b):
                            ctx.tagc("r3:oracle:dtype:conditioning-allowance")
                            continue
                    what = f"{meth}({typed}) = {g.tolist()}, the float64 computation {meth}({plain}) = {w.tolist()} (element {j})"
                    break
    if what is None:
        return
    key = f"rtransform.{cls}.{eff}"
    if len([f for f in ctx.failures if f.kind == "oracle" and f.key == key]) >= 3:
        return
    ctx.fail("oracle", key, f"{'InverseRTransform of ' if wrapped else ''}{cls}{tuple(ps)} trim={trim}, argument kind {kind}: {what}",
             witness={"class": cls, "params": ps, "trim": trim, "wrapped": wrapped, "method": meth, "kind": kind, "typed": typed, "plain": plain},
             snippet=SNIPPET_DTYPE.format(ctor=ctor, meth=meth, typed=typed, plain=plain, rtol=float(rtol), atol=float(atol)))


def oracle_extreme_reference(ctx: Ctx, budget, H):
    """classes 8 / 12: the 40-digit reference (numerical derivatives of the implementation's own transform / inverse run in 40-digit
    arithmetic, round trips) at scale-extreme parameters, short intervals, HandyMod next to its bound, and at special points
    (x = 0, the zero of the second derivative of the Handy map x = -m for m < 1)."""
    rng = ctx.rng
    mod = rt()
    refs = {}
    S = H._Scripts(ctx, mod, "r3-scale")
    n = 1 if budget == "small" else 8
    for cls in H.CLASSES:
        for _ in range(n):
            sp = scaled_pair(H, cls, rng)
            if sp is None:
                break
            o = H._obj("T0", cls, sp["ps"], sp["trim"])
            # (finite domain: |x| <= 0.7 — next to x = -1 the maps with (1 + x)**m, m up to 6, leave r - rmin below the rounding of
            # rmin, the double-precision inverse has no digits there; the main oracle keeps the same distance for large exponents)
            xs = [x for x0, x in zip(sp["xs0"], sp["xs"]) if cls not in H_FINITE or abs(x0) <= 0.7][:2] or [0.25 * sp["fin"]]
            S.run([o], _steps_all_methods(H, o, cls, o["ps"], o["trim"], xs, "float64", f"{cls}:2^{sp['e']}", one_by_one=(cls == "HyperbolicRTransform")))
    for _ in range(2 * n):
        ps, trim = handymod_extreme(rng)
        if ps[1] - ps[0] - (2.0 ** ps[2] - 1) < 1e-3:
            # next to the bound the pole of the map sits next to x = 1: keep away from it
            xs = [rng.uniform(-0.9, 0.3)]
        else:
            xs = [rng.uniform(-0.9, 0.9)]
        o = H._obj("T0", "HandyModRTransform", ps, trim)
        S.run([o], _steps_all_methods(H, o, "HandyModRTransform", o["ps"], o["trim"], xs, "float64", "HandyModRTransform:bound"))
    # special points
    for m in ([0.5] if budget == "small" else [0.5, 0.25, 0.75]):
        o = H._obj("T0", "HandyRTransform", [0.0, 1.5, m], True)
        S.run([o], _steps_all_methods(H, o, "HandyRTransform", o["ps"], True, [-m, 0.0], "float64", "HandyRTransform:deriv2-zero"))
    S.judge_reference(refs)


def oracle_setb(ctx: Ctx, budget, H):
    """class 7 (b thresholds), the property's end-point clause with the scale taken from the grid: accepted grids (maximum from
    1.01e-16 up to 1e12) send 0 -> rmin and b -> rmax; grids whose maximum is below the threshold are rejected."""
    rng = ctx.rng
    mod = rt()
    for cls in B_SCALED:
        C = getattr(mod, cls)
        for mx in [T16 * 1.01, 1.3e-16, 1e-14, 1e-10, 1e-6, 1e-3, 1.0, 37.5, 1e6, 1e12]:
            rmin, rmax = rng.choice([(0.5, 3.0), (1e-3, 20.0), (1.0, 1.0 + 2.0 ** -20)])
            if cls == "PowerRTransform" and not (1.0 + mx > 1.0):
                continue
            grid = [0.0, mx / 2, mx]
            with _quiet():
                T = C(rmin, rmax)
                try:
                    T.transform(np.array(grid))
                    lo = _vals(T.transform(np.array([0.0])))[0]
                    hi = _vals(T.transform(np.array([float(T.b)])))[0]
                    ok = float(T.b) == mx and abs(lo - rmin) <= 1e-11 * rmax and abs(hi - rmax) <= 1e-11 * rmax
                    what = f"b = {T.b!r}, transform(0) = {lo!r}, transform(b) = {hi!r}; the reference points must go to rmin = {rmin}, rmax = {rmax}"
                except Exception as e:  # noqa: BLE001
                    ok, what = False, f"raises {type(e).__name__}: {e}"
            ctx.count(["oracle-setb", cls, mx, rmin, rmax], nontrivial=True, tag="r3:oracle:setb:accepted")
            if not ok:
                ctx.fail("oracle", f"rtransform.{cls}.endpoints", f"{cls}({rmin}, {rmax}) with b taken from the grid {grid}: {what}",
                         witness={"class": cls, "rmin": rmin, "rmax": rmax, "grid": grid},
                         snippet=SNIPPET_SETB.format(cls=cls, rmin=rmin, rmax=rmax, grid=grid))
        for mx in [0.0, 1e-300, T16 / 100, T16 * 0.99]:
            T = C(0.5, 3.0)
            try:
                with _quiet():
                    T.transform(np.array([0.0, mx]))
                got = "accepted"
            except ValueError:
                got = "ValueError"
            ctx.count(["oracle-setb-reject", cls, mx], nontrivial=True, tag="r3:oracle:setb:rejected")
            if got != "ValueError":
                ctx.fail("oracle", f"rtransform.{cls}.set_maximum_parameter_b", f"{cls}(0.5, 3.0).transform(np.array([0.0, {mx!r}])): a grid whose "
                         f"maximum is below 1e-16 must be rejected (b = 0 is no scale), got {got}; b = {T.b!r}",
                         witness={"class": cls, "max": mx})
                continue
            # a rejected grid is no grid (repair 92a7e5b): the object is as fresh as before, the next grid fixes the scale
            with _quiet():
                try:
                    r2 = _vals(T.transform(np.array([0.0, 1.0, 2.0])))
                    ok2 = T.b is not None and float(T.b) == 2.0 and abs(r2[0] - 0.5) <= 1e-12 and abs(r2[2] - 3.0) <= 1e-11
                    what2 = f"b = {T.b!r}, transform([0, 1, 2]) = {r2}"
                except Exception as e:  # noqa: BLE001
                    ok2, what2 = False, f"raises {type(e).__name__}: {e}"
            if not ok2:
                ctx.fail("oracle", f"rtransform.{cls}.set_maximum_parameter_b", f"{cls}(0.5, 3.0): after the rejected grid [0.0, {mx!r}] the next grid "
                         f"[0, 1, 2] must fix b = 2 and be mapped onto [0.5, 3.0]: {what2}", witness={"class": cls, "max": mx},
                         snippet=SNIPPET_REJECTED.format(cls=cls, mx=mx))
    # information: what the unchanged code does in the corner between the guard (1e-16) and the spacing of doubles at 1
    with _quiet():
        T = mod.PowerRTransform(0.5, 3.0)
        v = _vals(T.transform(np.array([0.0, 1.05e-16])))
    ctx.info("information (threshold corner): PowerRTransform(0.5, 3.0) with b inferred from a grid whose maximum is in [1e-16, 1.11e-16] is "
             f"accepted by the guard, but b + 1 == 1 in double precision (power = inf): transform([0, 1.05e-16]) = {v} (b does not go to rmax); "
             "the end-point clause is asserted for 1 + b > 1 only (over the reals it holds from the guard on: Thresholds.power_inferred_end_points)")


SNIPPET_HANDED = """import warnings; warnings.filterwarnings('ignore')
import numpy as np
from grid import rtransform as rt
np.seterr(all='ignore')
{ctor}
a = np.array({arr!r})
first = T.{meth}(a)
keep = np.array(first, dtype=float, copy=True)
first[...] = -7.5                      # the caller uses the array it was handed as its own
second = np.asarray(T.{meth}(a), dtype=float)
assert np.array_equal(second, keep, equal_nan=True), f'{meth}: second answer {{second}} differs from the first answer {{keep}}'
assert np.array_equal(a, np.array({arr!r})), 'the argument was changed'
"""

SNIPPET_FIRST = """import warnings; warnings.filterwarnings('ignore')
import numpy as np
from grid import rtransform as rt
np.seterr(all='ignore')
a = np.array({arr!r})
T = rt.{cls}({rmin!r}, {rmax!r})                     # b = None: taken from the first grid
E = rt.{cls}({rmin!r}, {rmax!r}, b=float(a.max()))   # the same map with b given
{wrap}
try:
    got = np.asarray(T.{meth}(a), dtype=float)
except Exception as e:
    raise AssertionError(f'{meth} as the first call on a fresh object raises {{type(e).__name__}}: {{e}}')
want = np.asarray(E.{meth}(a), dtype=float)
assert np.array_equal(got, want, equal_nan=True), f'{meth} as the first call: {{got}}, with b given: {{want}}'
"""


def oracle_handed_out_and_first_call(ctx: Ctx, budget, H):
    """classes 9 and 11 as reference-free statements: (i) the array a method returned is overwritten by the caller, the same
    call is repeated: the second answer is the first answer, the argument is untouched; (ii) every method as the first call
    on a fresh b=None object answers what the object with b = max(first array) given explicitly answers."""
    rng = ctx.rng
    mod = rt()
    for cls in H.CLASSES:
        for rep in range(1 if budget == "small" else 6):
            ps, trim = H.gen_params(cls, rng)
            wrapped = rng.random() < 0.3
            args = [repr(p) for p in ps] + ([f"trim_inf={bool(trim)}"] if cls in H.HAS_TRIM else [])
            ctor = f"T = rt.{cls}({', '.join(args)})" + ("\nT = rt.InverseRTransform(T)" if wrapped else "")
            ns = {"np": np, "rt": mod}
            with _quiet():
                exec(ctor, ns)
                T = ns["T"]
                Tin = H.construct(cls, ps, trim)
                for meth in H.METHODS:
                    if cls == "IdentityRTransform" and meth in ("transform", "inverse"):
                        continue        # returns the argument object itself (information of round 2)
                    fwd = (meth in H.FWD) != wrapped
                    xs = H.interior_points(cls, ps, rng, rng.choice([1, 2, 3]))
                    if not fwd:
                        xs = _vals(Tin.transform(np.array(xs)))
                        if not all(math.isfinite(t) for t in xs):
                            continue
                    a = np.array(xs)
                    try:
                        first = getattr(T, meth)(a)
                    except Exception:  # noqa: BLE001 - judged elsewhere
                        continue
                    if not isinstance(first, np.ndarray) or first.ndim == 0:
                        continue
                    keep = np.array(first, dtype=float, copy=True)
                    first[...] = -7.5
                    second = np.asarray(getattr(T, meth)(a), dtype=float)
                    ctx.count(["oracle-handed-out", cls, ps, trim, wrapped, meth, xs], nontrivial=True, tag="r3:oracle:handed-out")
                    if not (np.array_equal(second, keep, equal_nan=True) and np.array_equal(a, np.array(xs))):
                        eff = H.WRAP_OF[meth] if wrapped else meth
                        ctx.fail("oracle", f"rtransform.{cls}.{eff}", f"{'InverseRTransform of ' if wrapped else ''}{cls}{tuple(ps)} trim={trim}: "
                                 f"{meth}({xs}) answered {keep.tolist()}; after the caller overwrote that array the same call answers "
                                 f"{second.tolist()} (argument now {a.tolist()})",
                                 witness={"class": cls, "params": ps, "trim": trim, "wrapped": wrapped, "method": meth, "x": xs},
                                 snippet=SNIPPET_HANDED.format(ctor=ctor, arr=xs, meth=meth))
    for cls in B_SCALED:
        C = getattr(mod, cls)
        for rep in range(1 if budget == "small" else 6):
            for meth in H.METHODS:
                ps, _ = H.gen_params(cls, rng)
                wrapped = rng.random() < 0.3
                arr = [rng.uniform(0.3, 12.0) for _ in range(rng.choice([1, 2, 3]))]
                if (meth in H.FWD) == wrapped:
                    arr = [rng.uniform(ps[0] + 0.05 * (ps[1] - ps[0]), ps[1]) for _ in arr]     # radii
                skips = cls == "LinearInfiniteRTransform" and not wrapped and meth in ("deriv2", "deriv3")
                with _quiet():
                    T, E = C(ps[0], ps[1]), C(ps[0], ps[1], b=float(max(arr)))
                    if wrapped:
                        T, E = mod.InverseRTransform(T), mod.InverseRTransform(E)
                    want = np.asarray(getattr(E, meth)(np.array(arr)), dtype=float)
                    try:
                        got = np.asarray(getattr(T, meth)(np.array(arr)), dtype=float)
                        bad = not np.array_equal(got, want, equal_nan=True)
                        got = got.tolist()
                    except Exception as e:  # noqa: BLE001 - a fresh object must accept every method as its first call
                        got, bad = f"{type(e).__name__}: {e}", True
                ctx.count(["oracle-first-call", cls, ps[:2], wrapped, meth, arr], nontrivial=True, tag=f"r3:oracle:first-call:{meth}")
                if bad and not skips:
                    eff = H.WRAP_OF[meth] if wrapped else meth
                    ctx.fail("oracle", f"rtransform.{cls}.{eff}", f"{'InverseRTransform of ' if wrapped else ''}{cls}({ps[0]}, {ps[1]}) with b=None, "
                             f"{meth}(np.array({arr})) as the first call: {got}; the object with b = {max(arr)!r} given answers {want.tolist()}",
                             witness={"class": cls, "rmin": ps[0], "rmax": ps[1], "wrapped": wrapped, "method": meth, "x": arr},
                             snippet=SNIPPET_FIRST.format(cls=cls, rmin=ps[0], rmax=ps[1], arr=arr, meth=meth,
                                                          wrap="T, E = rt.InverseRTransform(T), rt.InverseRTransform(E)" if wrapped else ""))


def oracle_r3(ctx: Ctx, budget, H):
    run_parts([lambda: oracle_handed_out_and_first_call(ctx, budget, H), lambda: oracle_scale_covariance(ctx, budget, H),
               lambda: oracle_trim_identity(ctx, budget, H), lambda: oracle_dtype_equivalence(ctx, budget, H),
               lambda: oracle_setb(ctx, budget, H), lambda: oracle_extreme_reference(ctx, budget, H)])

"""C03, round 4 (AGENT_ROUND4.md): generator classes 14-20 for the radial transforms.

  * class 14 — kinds of what an object *holds*: constructor parameters of every NumPy scalar kind (np.float64 / np.float32 /
      np.int64 / np.int32 / Python int, integer-valued and non-integer, trim_inf as bool / np.bool_ / 0 / 1) for every class and
      every method, against the object built from Python floats; the scale b taken from grids of every kind (int64 / int32 / bool /
      float32 / read-only / strided / negative stride / Fortran-ordered 2-D / 0-d) against the object with b given;
      the transform held by InverseRTransform likewise.
  * class 15 — every spelling of the constructor (positional / keyword / keywords in another order / trim_inf and b omitted,
      explicitly the default, explicitly None) and of the method call (positional / by its documented keyword).
  * class 16 — one argument object for several requests: a view into a larger caller array handed to every method in turn
      (and used as the grid that fixes b): every answer equals the one for a pristine copy on a fresh object, the bytes of the
      whole caller array are unchanged.
  * class 17 — does not apply (no callbacks; the maps are real functions of real points).
  * class 18 — a call that raises leaves no trace: after calls ending in TypeError / ValueError / ZeroDivisionError (no
      argument, two arguments, None, a string, a list, an object array, an oversized HyperbolicRTransform array, a rejected grid,
      a radius where the Jacobian vanishes) every method answers what a fresh object answers.
  * class 19 / the lead's request — every method at both ends of the declared domain and codomain and at +-inf, -0.0, +-1e300,
      for parameters with the codomain below 1, above 1 and straddling 1: implementation vs the generated model (IEEE special
      values included); as a statement of the property: at an infinite end of the declared domain the forward map and its
      derivative methods return the limit of their values (no nan), and 0 / b go to rmin / rmax in all three ranges.
  * class 20 — argument shapes with unequal dimensions and sizes 1 and 2 ((1,), (2,), (1,2), (2,1), (1,3), (3,2), (2,1,3),
      (1,1), a transposed view), also as the first grid of a b=None object (b is the maximum over the whole array).
"""
import importlib
import math
import warnings

import numpy as np

from ..common import Ctx, b2f, close, driver_batch
from .c03_r3 import B_SCALED, H_FINITE, R_SCALED, _quiet, _vals, run_parts

INF = float("inf")
FINITE_CODOMAIN = ("LinearFiniteRTransform", "LinearInfiniteRTransform", "ExpRTransform", "PowerRTransform", "HandyModRTransform")


def rt():
    return importlib.import_module("grid.rtransform")


# =============================================================================================================================
# parameters with the codomain below 1, above 1, straddling 1
# =============================================================================================================================
def range_params(cls, rng, which):
    """-> (ps, trim): admissible parameters whose codomain lies below 1 / above 1 / straddles 1 (`which`)"""
    trim = rng.random() < 0.6
    e = rng.choice([1, 2, 3, 0.5, 2.5, 3.7, 1.5])
    if cls in FINITE_CODOMAIN:
        if cls == "HandyModRTransform":
            m = 0.5 if which == "below" else e
            gap = 2.0 ** m - 1
            if which == "below":
                rmin = round(rng.uniform(0.0, 0.1), 3)
                rmax = round(rmin + gap + rng.uniform(0.05, 0.4), 3)
            elif which == "above":
                rmin = round(rng.uniform(1.05, 3.0), 3)
                rmax = round(rmin + gap + rng.uniform(0.2, 20.0), 3)
            else:
                rmin = round(rng.uniform(0.0, 0.9), 3)
                rmax = round(max(rmin + gap, 1.0) + rng.uniform(0.2, 20.0), 3)
            return [rmin, rmax, m], trim
        if which == "below":
            rmin = round(rng.uniform(0.01, 0.4), 3)
            rmax = round(rng.uniform(rmin + 0.05, 0.95), 3)
        elif which == "above":
            rmin = round(rng.uniform(1.05, 3.0), 3)
            rmax = round(rmin + rng.uniform(0.1, 20.0), 3)
        else:
            rmin = round(rng.uniform(0.01, 0.9), 3)
            rmax = round(rng.uniform(1.1, 20.0), 3)
        if cls == "LinearFiniteRTransform":
            return [rmin, rmax], None
        return [rmin, rmax, rng.choice([1.0, 10.0, round(rng.uniform(0.5, 50.0), 2)])], None
    lo = {"below": round(rng.uniform(0.0, 0.9), 3), "above": round(rng.uniform(1.05, 4.0), 3), "straddle": rng.choice([0.0, 1.0])}[which]
    sc = {"below": round(rng.uniform(0.05, 0.9), 3), "above": round(rng.uniform(1.1, 6.0), 3), "straddle": 1.0}[which]
    if cls in ("BeckeRTransform", "MultiExpRTransform"):
        return [lo, sc], trim
    if cls in ("KnowlesRTransform", "HandyRTransform"):
        return [lo, sc, e], trim
    if cls == "HyperbolicRTransform":
        return [sc, rng.choice([1e-3, 0.01, 0.05])], None
    return [], None


def special_points(cls, ps, T):
    """-> (forward-side points, codomain-side points): the ends of the declared intervals (+inf where an interval is half-infinite),
    their neighbouring doubles, -0.0 / 0.0, 1e300 and +-1e16 where they belong to the closed interval, the scale point b, the pole
    1/b of the hyperbolic map.  Points outside the closed declared intervals (x = -inf for a map on [-1, 1], say) are not inputs
    of the property: there NumPy's vectorised pow and the C library disagree on (-inf)**(-0.5) (nan vs +0), measured on /repo."""
    def interval(lo, hi, extra):
        pts = [lo, hi]
        for t in (lo, hi):
            if math.isfinite(t) and t != 0:
                pts += [float(np.nextafter(t, 0.0)), float(np.nextafter(t, 2 * t))]
        pts += [p for p in extra if lo <= p <= hi]
        return [p for p in pts if lo <= p <= hi or p in (lo, hi)]
    lo, hi = (float(t) for t in T.domain)
    fwd = interval(lo, hi, [-0.0, 0.0, 5e-324, 1e300] + ([float(ps[2])] if cls in B_SCALED else []) + ([1.0 / ps[1]] if cls == "HyperbolicRTransform" else []))
    clo, chi = (float(t) for t in T.codomain)
    cod = interval(clo, chi, [0.0, 1e16, -1e16, 1e300, 1.0])
    out = []
    for pts in (fwd, cod):
        seen, u = set(), []
        for p in pts:
            k = (p, math.copysign(1, p))
            if k not in seen:
                seen.add(k)
                u.append(p)
        out.append(u)
    return out[0], out[1]


# =============================================================================================================================
# correspondence
# =============================================================================================================================
def corr_special_inputs(ctx: Ctx, H):
    """class 19: every method of every class at the ends of the declared intervals, +-inf, -0.0, +-1e300, for the three codomain
    ranges, plain and wrapped in InverseRTransform: implementation vs generated model at Float (both IEEE)."""
    rng = ctx.rng
    mod = rt()
    cases, lines = [], []
    for cls in H.CLASSES:
        for which in ("below", "above", "straddle"):
            for _ in range(ctx.n(1, 12)):
                ps, trim = range_params(cls, rng, which)
                with _quiet():
                    try:
                        T = H.construct(cls, ps, trim)
                    except ValueError:
                        ctx.fail("corr", f"admissible:{cls}", f"{cls}{tuple(ps)} (codomain {which} 1) is rejected by the constructor")
                        continue
                    wrapped = rng.random() < 0.3
                    TT = mod.InverseRTransform(T) if wrapped else T
                    fwd_pts, cod_pts = special_points(cls, ps, T)
                    for meth in H.METHODS:
                        pts = fwd_pts if (meth in H.FWD) != wrapped else cod_pts
                        for x in pts:
                            try:
                                tag, v = H._impl_call(TT, meth, np.array([x]))
                            except Exception as e:  # noqa: BLE001 - a float64 array must not make a method fail in any other way
                                tag, v = type(e).__name__, None
                            cases.append((cls, ps, trim, wrapped, which, meth, x, tag, None if v is None else _vals(v)[0]))
                            lines.append(H._line("evalinv" if wrapped else "eval", cls, meth, trim, 1, ps, x))
    for (cls, ps, trim, wrapped, which, meth, x, tag, v), ans in zip(cases, driver_batch(lines)):
        toks = ans.split()
        m = b2f(toks[1]) if toks and toks[0] == "ok" and len(toks) == 2 else None
        kind = "nan" if v is not None and v != v else "inf" if v is not None and math.isinf(v) else "trimmed" if v is not None and abs(v) == 1e16 else \
            tag if v is None else "finite"
        ctx.count(["special", cls, [float(p) for p in ps], trim, wrapped, meth, repr(x)], nontrivial=True, tag=f"r4:special:{which}:{kind}")
        if (tag == "zero-division-error") != (ans == "zero-division-error") and _is_end_neighbour(x):
            # one double off an end of the codomain the preimage is the domain end itself or one double off it, depending on the last
            # bit of exp / pow of the two libraries (1 - exp(-5e-17)): the `d1 == 0` guard fires on one side only
            ctx.tagc("r4:special:end-neighbour-guard-decided-by-last-bit")
            continue
        if tag != "ok":
            ok = ans == tag
        elif m is None:
            ok = False
        else:
            e = H.exponent_of(cls, ps)
            # a pole reached through pow / exp of two libraries: the last bit decides between inf, nan (inf - inf, 0 * inf) and a huge
            # number — only for non-integer exponents and only when both sides are non-finite or huge
            loose = e is not None and e != int(e)
            ok = close(v, m, rtol=1e-10, atol=1e-300) or (loose and c03_huge(v) and c03_huge(m))
            if not ok and math.isfinite(v) and math.isfinite(m) and math.isfinite(x):
                # an ill-conditioned point (one double off a codomain end: 1 - exp(-5e-17)): both double evaluations judged against the
                # 40-digit run of the implementation, as in round 2 ('ill': neither has digits there; 'ok': within 100x the rounding noise)
                verdict = H._noise_verdict(cls, [float(p) for p in ps], trim, wrapped, meth, x, v, m)
                ctx.tagc("r4:special:ill-conditioned-point-not-compared" if verdict == "ill" else "r4:special:conditioning-fallback")
                ok = verdict != "bad"
            codomain_side = (meth in H.FWD) == wrapped
            if not ok and _is_end_neighbour(x) and ((v == v and m == m and (abs(v) >= 1e8 or abs(m) >= 1e8 or abs(abs(v) - 1) < 1e-3))
                                                    or (codomain_side and cls not in ("LinearFiniteRTransform", "LinearInfiniteRTransform", "IdentityRTransform"))):
                # one double off an end the inverse map of the exponent classes moves by 1e-4 and its derivatives by orders of magnitude
                # with the last bit of exp / pow: nothing to compare
                ctx.tagc("r4:special:end-neighbour-not-compared")
                ok = True
        if not ok:
            ctx.fail("corr", f"{'evalinv' if wrapped else 'eval'}:{cls}.{meth}:special", f"{'InverseRTransform of ' if wrapped else ''}{cls}{tuple(ps)} "
                     f"trim={trim} (codomain {which} 1): {meth}(np.array([{x!r}])): implementation {tag if v is None else repr(v)}, generated model "
                     f"{ans if m is None else repr(m)}",
                     witness={"class": cls, "params": ps, "trim": trim, "wrapped": wrapped, "method": meth, "x": x, "impl": v if v is not None else tag,
                              "model": m if m is not None else ans})


def _is_end_neighbour(x):
    """is x one double off a number with at most 4 significant decimal digits (the ends rmin, rmax, +-1, b of the generated sets)?"""
    if not math.isfinite(x) or x == 0:
        return False
    for t in (float(np.nextafter(x, 0.0)), float(np.nextafter(x, 2 * x))):
        if float(f"{t:.4g}") == t or float(f"{t:.6g}") == t:
            return True
    return False


def c03_huge(v):
    return v != v or abs(v) >= 1e15


SHAPES = [(1,), (2,), (1, 2), (2, 1), (1, 3), (3, 2), (2, 1, 3), (1, 1), "T"]


def _shaped_src(vals, shape, H):
    """source of an array with the given values in C order of the requested shape; "T": a transposed (non-contiguous) view"""
    if shape == "T":
        a = np.array(vals).reshape(3, 2)
        return f"np.array({H._flist(a.T.ravel())}).reshape(2, 3).T", (3, 2), [float(t) for t in a.ravel()]
    return f"np.array({H._flist(vals)}).reshape{tuple(shape)!r}", tuple(shape), [float(t) for t in vals]


def corr_shapes(ctx: Ctx, H):
    """class 20: arguments whose shape has unequal dimensions and dimensions 1 and 2; the first grid of a b=None object of such
    a shape (b = maximum over the whole array)."""
    rng = ctx.rng
    mod = rt()
    S = H._Scripts(ctx, mod, "r4-shapes")
    for cls in H.CLASSES:
        for rep in range(ctx.n(1, 8)):
            ps, trim = H.gen_params(cls, rng)
            if cls == "HyperbolicRTransform":
                ps = [ps[0], min(ps[1], 0.05)]
            wrapped = rng.random() < 0.25
            o = H._obj("T0", cls, ps, trim, wrapped=wrapped)
            steps = []
            for shape in SHAPES:
                n = 6 if shape == "T" else int(np.prod(shape))
                xs = H.interior_points(cls, ps, rng, n)
                with _quiet():
                    rs = _vals(H.construct(cls, ps, trim).transform(np.array(xs)))
                if not all(math.isfinite(r) for r in rs):
                    continue
                for meth in rng.sample(H.METHODS, 4):
                    vals = xs if (meth in H.FWD) != wrapped else rs
                    src, shp, flat = _shaped_src(vals, shape, H)
                    steps.append(H._step(o, meth, [f"a = {src}"], "a", flat, f"shape{shp if shape != 'T' else '(3, 2).T'}", shape=shp, argvar="a"))
            S.run([o], steps)
    for cls in B_SCALED:
        for rep in range(ctx.n(2, 12)):
            ps, _ = H.gen_params(cls, rng)
            o = H._obj("T0", cls, ps, None, b_none=True)
            shape = rng.choice([(2, 3), (3, 1), (1, 2), (2, 1, 2)])
            vals = [rng.uniform(0.3, 12.0) for _ in range(int(np.prod(shape)))]
            psx = [o["ps"][0], o["ps"][1], float(max(vals))]
            first = rng.choice(["transform", "deriv", "deriv2"] if cls != "LinearInfiniteRTransform" else ["transform", "deriv"])
            steps = [H._step(o, first, [f"a = np.array({H._flist(vals)}).reshape{tuple(shape)!r}"], "a", vals, f"first-grid-shape{tuple(shape)}",
                             shape=tuple(shape), argvar="a", ps=psx),
                     H._step(o, rng.choice(H.METHODS), [f"c = np.array({H._flist(vals[:2])})"], "c", vals[:2], "after-shaped-first-grid", argvar="c", ps=psx)]
            S.run([o], steps)
    S.judge_model()


def corr_r4(ctx: Ctx, H):
    run_parts([lambda: corr_special_inputs(ctx, H), lambda: corr_shapes(ctx, H)])


# =============================================================================================================================
# oracle (implementation only)
# =============================================================================================================================
def _eq(a, b, rtol, atol=0.0):
    return (a == b) or (a != a and b != b) or (math.isfinite(a) and math.isfinite(b) and abs(a - b) <= rtol * abs(b) + atol)


def _call_vals(T, meth, arg):
    try:
        return "ok", _vals(getattr(T, meth)(arg))
    except Exception as e:  # noqa: BLE001
        return type(e).__name__, str(e)[:100]


def _points_for(H, cls, ps, trim, rng, n=3):
    """-> (interior points, their finite images)"""
    xs = H.interior_points(cls, ps, rng, n)
    with _quiet():
        rs = _vals(H.construct(cls, ps, trim).transform(np.array(xs)))
    keep = [(x, r) for x, r in zip(xs, rs) if math.isfinite(r) and abs(r) != 1e16]
    return [k[0] for k in keep], [k[1] for k in keep]


SNIPPET_EQUIV = """import warnings; warnings.filterwarnings('ignore')
import numpy as np
from grid import rtransform as rt
np.seterr(all='ignore')
{setup}
def val(f):
    try:
        return np.atleast_1d(np.asarray(f(), dtype=float)).ravel()
    except Exception as e:
        return type(e).__name__
got, want = val(lambda: {got}), val(lambda: {want})
ok = (isinstance(got, str) and isinstance(want, str) and got == want) or (not isinstance(got, str) and not isinstance(want, str) and got.size == want.size
      and all((g == w) or (g != g and w != w) or abs(g - w) <= {rtol!r} * abs(w) + {atol!r} for g, w in zip(got, want)))
assert ok, f'{what}: {{got}}, reference {{want}}'
"""


def _report(ctx, key, what, setup, got_src, want_src, tg, g, tw, w, rtol, atol, witness):
    """compare two evaluations (tags and values); report a failure with a self-contained snippet"""
    bad = None
    if tg != "ok" or tw != "ok":
        if tg != tw:
            bad = f"{got_src} {'raises ' + tg + ': ' + str(g) if tg != 'ok' else '= ' + repr(g)}; {want_src} {'raises ' + tw if tw != 'ok' else '= ' + repr(w)}"
    elif len(g) != len(w):
        bad = f"{got_src} has {len(g)} elements, {want_src} has {len(w)}"
    else:
        for j, (a, b) in enumerate(zip(g, w)):
            if not _eq(a, b, rtol, atol):
                bad = f"{got_src} = {g}; {want_src} = {w} (element {j})"
                break
    if bad is None:
        return True
    if len([f for f in ctx.failures if f.kind == "oracle" and f.key == key]) < 3:
        ctx.fail("oracle", key, f"{what}: {bad}", witness=witness,
                 snippet=SNIPPET_EQUIV.format(setup=setup, got=got_src, want=want_src, rtol=float(rtol), atol=float(atol), what=what.replace("{", "(").replace("}", ")").replace("'", "")))
    return False


PARAM_KINDS = ["np.float64", "np.float32", "np.int64", "np.int32", "int", "np.float64-nonint", "np.float32-nonint"]


def _kinded_params(cls, rng, kind):
    """-> (typed sources, float values) or None: parameters of the class exactly representable in the requested kind"""
    integer = not kind.endswith("nonint")
    base = kind.replace("-nonint", "")
    if integer:
        e = rng.choice([1, 2, 3])
        rmin = rng.choice([0, 1, 2])
        R = rng.choice([1, 2, 3])
        width = rng.choice([1, 4, 20])
        b = rng.choice([1, 3, 10])
    else:
        e = rng.choice([0.5, 1.5, 2.5, 0.75, 3.25])
        rmin = rng.choice([0.125, 0.5, 1.25])
        R = rng.choice([0.5, 1.5, 0.375])
        width = rng.choice([0.75, 4.5, 20.25])
        b = rng.choice([0.5, 7.5, 2.25])
    if cls in ("BeckeRTransform", "MultiExpRTransform"):
        vals = [rmin, R]
    elif cls == "LinearFiniteRTransform":
        vals = [rmin, rmin + width]
    elif cls == "IdentityRTransform":
        return None
    elif cls in B_SCALED:
        if cls != "LinearInfiniteRTransform" and rmin == 0:
            rmin = 1
        vals = [rmin, rmin + width, b]
    elif cls == "HyperbolicRTransform":
        vals = [R, 0.0625 if not integer else None]
        if integer:
            return None         # b < 1 is needed for a usable map: no integer-valued b
    elif cls in ("KnowlesRTransform", "HandyRTransform"):
        vals = [rmin, R, e]
    else:
        vals = [rmin, rmin + math.ceil(2.0 ** e - 1) + width, e]
    if base == "int":
        srcs = [repr(int(v)) for v in vals]
    elif base.startswith("np.int"):
        srcs = [f"{base}({int(v)})" for v in vals]
    else:
        srcs = [f"{base}({float(v)!r})" for v in vals]
    return srcs, [float(v) for v in vals]


def oracle_param_kinds(ctx: Ctx, budget, H):
    """class 14 (what the object holds): parameters of every NumPy scalar kind, for every class and every method, against the object
    built from Python floats of the same values; trim_inf as bool / np.bool_ / int."""
    rng = ctx.rng
    mod = rt()
    for cls in H.CLASSES:
        for kind in PARAM_KINDS:
            for rep in range(1 if budget == "small" else 5):
                got = _kinded_params(cls, rng, kind)
                if got is None:
                    continue
                srcs, vals = got
                trim = rng.random() < 0.5
                tsrc = rng.choice([repr(trim), f"np.bool_({trim})", repr(int(trim))])
                kw = f", trim_inf={tsrc}" if cls in H.HAS_TRIM else ""
                kwf = f", trim_inf={trim}" if cls in H.HAS_TRIM else ""
                wrapped = rng.random() < 0.25
                setup = (f"T = rt.{cls}({', '.join(srcs)}{kw})\nF = rt.{cls}({', '.join(repr(v) for v in vals)}{kwf})"
                         + ("\nT, F = rt.InverseRTransform(T), rt.InverseRTransform(F)" if wrapped else ""))
                ns = {"np": np, "rt": mod}
                with _quiet():
                    try:
                        exec(setup, ns)
                    except Exception as e:  # noqa: BLE001 - parameters of a NumPy scalar kind must be accepted like floats
                        ctx.fail("oracle", f"rtransform.{cls}.constructor", f"{setup.splitlines()[0]} raises {type(e).__name__}: {e}",
                                 witness={"class": cls, "params": srcs})
                        continue
                    xs, rs = _points_for(H, cls, vals, trim, rng)
                    f32 = "float32" in kind
                    for meth in H.METHODS:
                        pts = xs if (meth in H.FWD) != wrapped else rs
                        if not pts:
                            continue
                        eff = H.WRAP_OF[meth] if wrapped else meth
                        arg = np.array(pts)
                        tg, g = _call_vals(ns["T"], meth, arg)
                        tw, w = _call_vals(ns["F"], meth, arg)
                        # single-precision parameters: parameter-only subexpressions (2**k, 1/m, log(rmax/rmin)) are evaluated in single
                        # precision; the second and third derivative of the inverse cancel (round 3: factor ~100)
                        rtol = (1e-3 if eff in ("deriv2_inverse", "deriv3_inverse") else 2e-5) if f32 else 1e-12
                        atol = (1e-6 if f32 else 1e-13) if eff == "inverse" else 0.0
                        if f32 and tw == "ok":
                            # a value that vanishes by cancellation for these parameters (Knowles deriv2 at x = -1/2, k = 1/2) leaves a
                            # single-precision residue: allowance on the scale of the other elements
                            atol += rtol * max([abs(t) for t in w if math.isfinite(t)] + [0.0])
                        ctx.count(["oracle-pkind", cls, srcs, tsrc, wrapped, meth, pts], nontrivial=True, tag=f"r4:oracle:param-kind:{kind}")
                        asrc = f"np.array({pts!r})"
                        _report(ctx, f"rtransform.{cls}.{eff}", f"{'InverseRTransform of ' if wrapped else ''}{cls} with parameters of kind {kind}",
                                setup, f"T.{meth}({asrc})", f"F.{meth}({asrc})", tg, g, tw, w, rtol, atol,
                                {"class": cls, "params": srcs, "trim": tsrc, "wrapped": wrapped, "method": meth, "x": pts})


GRID_KINDS = ["int64", "int32", "bool", "float32", "readonly", "strided", "negative-stride", "fortran-2d", "0d", "list-free-float64"]


def _grid_src(kind, rng):
    """-> (source of the first grid, its maximum as a float, single precision?)"""
    ints = sorted(rng.sample(range(1, 40), 3))
    fl = sorted(round(rng.uniform(0.5, 30.0), 3) for _ in range(4))
    if kind in ("int64", "int32"):
        return f"np.array({[0] + ints!r}, dtype=np.{kind})", float(max(ints)), False
    if kind == "bool":
        return "np.array([False, True])", 1.0, False
    if kind == "float32":
        d = [0.0, 0.5, 2.25, float(rng.choice([7.5, 12.0, 3.125]))]
        return f"np.array({d!r}, dtype=np.float32)", max(d), True
    if kind == "readonly":
        return f"(lambda a: (a.setflags(write=False), a)[1])(np.array({fl!r}))", max(fl), False
    if kind == "strided":
        inter = [t for v in fl for t in (v, 99.0)]
        return f"np.array({inter!r})[::2]", max(fl), False
    if kind == "negative-stride":
        return f"np.array({fl!r})[::-1]", max(fl), False
    if kind == "fortran-2d":
        return f"np.asfortranarray(np.array([{fl[:2]!r}, {fl[2:]!r}]))", max(fl), False
    if kind == "0d":
        return f"np.array({fl[-1]!r})", fl[-1], False
    return f"np.array({fl!r})", max(fl), False


def oracle_inferred_b_kinds(ctx: Ctx, budget, H):
    """class 14: the scale b of the three b-scaled maps taken from a first grid of every dtype / layout; afterwards every method
    answers what the object with b = float(max) given answers (single-precision grids: to single precision)."""
    rng = ctx.rng
    mod = rt()
    for cls in B_SCALED:
        for kind in GRID_KINDS:
            for rep in range(1 if budget == "small" else 4):
                ps, _ = H.gen_params(cls, rng)
                gsrc, mx, f32 = _grid_src(kind, rng)
                wrapped = rng.random() < 0.25
                first = rng.choice(["transform", "deriv", "set_maximum_parameter_b"])
                setup = (f"T = rt.{cls}({ps[0]!r}, {ps[1]!r})\nF = rt.{cls}({ps[0]!r}, {ps[1]!r}, b={mx!r})\ng = {gsrc}\n"
                         + (f"T.set_maximum_parameter_b(g)" if first == "set_maximum_parameter_b" else f"_ = T.{first}(g)")
                         + ("\nT, F = rt.InverseRTransform(T), rt.InverseRTransform(F)" if wrapped else ""))
                ns = {"np": np, "rt": mod}
                with _quiet():
                    try:
                        exec(setup, ns)
                    except Exception as e:  # noqa: BLE001 - a grid of any numeric dtype / layout is a grid
                        ctx.fail("oracle", f"rtransform.{cls}.set_maximum_parameter_b", f"{cls}({ps[0]}, {ps[1]}): first grid {gsrc} ({kind}) through {first} "
                                 f"raises {type(e).__name__}: {e}", witness={"class": cls, "grid": gsrc, "first": first},
                                 snippet=SNIPPET_EQUIV.format(setup=setup, got="1.0", want="1.0", rtol=0.0, atol=0.0, what="first grid accepted"))
                        continue
                    inner = ns["T"]._tfm if wrapped else ns["T"]
                    if inner.b is None or float(inner.b) != mx:
                        ctx.fail("oracle", f"rtransform.{cls}.set_maximum_parameter_b", f"{cls}({ps[0]}, {ps[1]}): after the first grid {gsrc} ({kind}) b = "
                                 f"{inner.b!r}, the maximum of the grid is {mx!r}", witness={"class": cls, "grid": gsrc, "first": first})
                        continue
                    xs = [rng.uniform(0.05, 1.5) * mx for _ in range(3)]
                    rs = [rng.uniform(ps[0] + 0.02 * (ps[1] - ps[0]), ps[1]) for _ in range(3)]
                    for meth in H.METHODS:
                        pts = xs if (meth in H.FWD) != wrapped else rs
                        eff = H.WRAP_OF[meth] if wrapped else meth
                        tg, g = _call_vals(ns["T"], meth, np.array(pts))
                        tw, w = _call_vals(ns["F"], meth, np.array(pts))
                        rtol = (1e-3 if eff in ("deriv2_inverse", "deriv3_inverse") else 2e-5) if f32 else 1e-12
                        ctx.count(["oracle-bkind", cls, ps[:2], gsrc, first, wrapped, meth, pts], nontrivial=True, tag=f"r4:oracle:b-from-grid:{kind}")
                        asrc = f"np.array({pts!r})"
                        _report(ctx, f"rtransform.{cls}.{eff}", f"{'InverseRTransform of ' if wrapped else ''}{cls}({ps[0]}, {ps[1]}) with b taken from a "
                                f"{kind} grid", setup, f"T.{meth}({asrc})", f"F.{meth}({asrc})", tg, g, tw, w, rtol, 1e-6 * mx if f32 and eff == "inverse" else 0.0,
                                {"class": cls, "rmin": ps[0], "rmax": ps[1], "grid": gsrc, "first": first, "wrapped": wrapped, "method": meth, "x": pts})


PARAM_NAMES = {
    "BeckeRTransform": ["rmin", "R"], "LinearFiniteRTransform": ["rmin", "rmax"], "IdentityRTransform": [],
    "LinearInfiniteRTransform": ["rmin", "rmax", "b"], "ExpRTransform": ["rmin", "rmax", "b"],
    "PowerRTransform": ["rmin", "rmax", "b"], "HyperbolicRTransform": ["a", "b"], "MultiExpRTransform": ["rmin", "R"],
    "KnowlesRTransform": ["rmin", "R", "k"], "HandyRTransform": ["rmin", "R", "m"], "HandyModRTransform": ["rmin", "rmax", "m"]}
ARG_NAME = {"transform": "x", "inverse": "r", "deriv": "x", "deriv2": "x", "deriv3": "x", "deriv_inverse": "r", "deriv2_inverse": "r",
            "deriv3_inverse": "r"}


def oracle_spellings(ctx: Ctx, budget, H):
    """class 15: every documented way to write the same constructor call and the same method call gives the same answers."""
    rng = ctx.rng
    mod = rt()
    for cls in H.CLASSES:
        for rep in range(1 if budget == "small" else 4):
            ps, trim = H.gen_params(cls, rng)
            names = PARAM_NAMES[cls]
            pos = [repr(p) for p in ps]
            kws = [f"{n}={p!r}" for n, p in zip(names, ps)]
            forms = []
            if cls in H.HAS_TRIM:
                ref = f"rt.{cls}({', '.join(pos)}, trim_inf={trim})"
                forms += [f"rt.{cls}({', '.join(pos + [repr(trim)])})", f"rt.{cls}({', '.join(kws + [f'trim_inf={trim}'])})",
                          f"rt.{cls}({', '.join([f'trim_inf={trim}'] + kws[::-1])})", f"rt.{cls}({', '.join(pos[:1] + kws[1:] + [f'trim_inf={trim}'])})"]
                if trim:
                    forms += [f"rt.{cls}({', '.join(pos)})", f"rt.{cls}({', '.join(kws)})"]        # trim_inf omitted = True (the documented default)
            else:
                ref = f"rt.{cls}({', '.join(pos)})"
                forms += [f"rt.{cls}({', '.join(kws)})", f"rt.{cls}({', '.join(kws[::-1])})"]
                if len(pos) > 1:
                    forms.append(f"rt.{cls}({', '.join(pos[:1] + kws[1:])})")
            xs, rs = _points_for(H, cls, ps, trim, rng)
            if not xs:
                continue
            ns = {"np": np, "rt": mod}
            with _quiet():
                R = eval(ref, ns)
                for form in forms:
                    try:
                        T = eval(form, ns)
                    except Exception as e:  # noqa: BLE001
                        ctx.fail("oracle", f"rtransform.{cls}.constructor", f"{form} raises {type(e).__name__}: {e} ({ref} is accepted)",
                                 witness={"class": cls, "form": form})
                        continue
                    for meth in H.METHODS:
                        pts = xs if meth in H.FWD else rs
                        asrc = f"np.array({pts!r})"
                        usekw = rng.random() < 0.5
                        call = f"{meth}({ARG_NAME[meth]}={asrc})" if usekw else f"{meth}({asrc})"
                        tg, g = _kwcall(T, meth, pts) if usekw else _call_vals(T, meth, np.array(pts))
                        tw, w = _call_vals(R, meth, np.array(pts))
                        ctx.count(["oracle-spelling", cls, form, call], nontrivial=True, tag="r4:oracle:spelling")
                        _report(ctx, f"rtransform.{cls}.{meth}", f"{cls}: two spellings of the same call", f"T = {form}\nF = {ref}", f"T.{call}", f"F.{meth}({asrc})",
                                tg, g, tw, w, 0.0, 0.0, {"class": cls, "form": form, "reference": ref, "method": meth, "x": pts})
    # b omitted, b=None, b positional None: the same fresh object
    for cls in B_SCALED:
        ps, _ = H.gen_params(cls, rng)
        grid = [0.0, 1.5, float(ps[2])]
        ns = {"np": np, "rt": mod}
        with _quiet():
            ref = f"rt.{cls}({ps[0]!r}, {ps[1]!r})"
            for form in (f"rt.{cls}({ps[0]!r}, {ps[1]!r}, None)", f"rt.{cls}({ps[0]!r}, {ps[1]!r}, b=None)", f"rt.{cls}(rmin={ps[0]!r}, rmax={ps[1]!r}, b=None)",
                         f"rt.{cls}(b=None, rmax={ps[1]!r}, rmin={ps[0]!r})"):
                try:
                    T, R = eval(form, ns), eval(ref, ns)
                    tg, g = _call_vals(T, "transform", np.array(grid))
                    tw, w = _call_vals(R, "transform", np.array(grid))
                except Exception as e:  # noqa: BLE001
                    tg, g, tw, w = type(e).__name__, str(e), "ok", []
                ctx.count(["oracle-spelling-b", cls, form], nontrivial=True, tag="r4:oracle:spelling")
                _report(ctx, f"rtransform.{cls}.transform", f"{cls}: b omitted and b=None are the same request", f"T = {form}\nF = {ref}",
                        f"T.transform(np.array({grid!r}))", f"F.transform(np.array({grid!r}))", tg, g, tw, w, 0.0, 0.0, {"class": cls, "form": form})


def _kwcall(T, meth, pts):
    try:
        return "ok", _vals(getattr(T, meth)(**{ARG_NAME[meth]: np.array(pts)}))
    except Exception as e:  # noqa: BLE001
        return type(e).__name__, str(e)[:100]


SNIPPET_VIEW = """import warnings; warnings.filterwarnings('ignore')
import numpy as np
from grid import rtransform as rt
np.seterr(all='ignore')
{ctor}
big = np.array({big!r})
keep = big.copy()
view = big[{sl}]
for m in {meths!r}:
    got = np.asarray(getattr(T, m)(view), dtype=float).copy()
    F = make()
    want = np.asarray(getattr(F, m)(keep[{sl}].copy()), dtype=float)
    assert np.array_equal(got, want, equal_nan=True), f'{{m}} on the shared view: {{got}}, on a pristine copy with a fresh object: {{want}}'
    assert np.array_equal(big, keep), f'{{m}} changed the caller array: {{big}} (was {{keep}})'
"""


def oracle_shared_argument(ctx: Ctx, budget, H):
    """class 16: one argument object — a view into a larger caller array — handed to every method in turn, several times; every
    answer equals the answer for a pristine copy on a fresh object; the whole caller array keeps its bytes."""
    rng = ctx.rng
    mod = rt()
    for cls in H.CLASSES:
        for rep in range(1 if budget == "small" else 5):
            ps, trim = H.gen_params(cls, rng)
            b_none = cls in B_SCALED and rng.random() < 0.5
            wrapped = rng.random() < 0.25
            args = [repr(p) for p in (ps[:2] if b_none else ps)] + ([f"trim_inf={bool(trim)}"] if cls in H.HAS_TRIM else [])
            ctor = f"def make():\n    T = rt.{cls}({', '.join(args)})\n" + ("    T = rt.InverseRTransform(T)\n" if wrapped else "") + "    return T\nT = make()"
            for side in (True, False):
                meths = [m for m in H.METHODS if ((m in H.FWD) != wrapped) == side]
                xs, rs = _points_for(H, cls, ps, trim, rng, 4)
                pts = xs if side else rs
                if len(pts) < 2:
                    continue
                n = len(pts)
                sl = rng.choice([f"2:{2 + n}", f"1:{1 + 2 * n}:2", f"-2:{-2 - n}:-1"])
                big = np.full(2 * n + 4, float(pts[0]))          # the rest of the caller's array: other valid points
                idx = eval(f"np.arange({2 * n + 4})[{sl}]")
                big[idx] = pts
                order = meths + meths[::-1] + meths[:1]
                ns = {"np": np, "rt": mod}
                with _quiet():
                    exec(ctor, ns)
                    T = ns["T"]
                    B = big.copy()
                    view = eval(f"B[{sl}]", {"B": B})
                    for m in order:
                        try:
                            got = np.asarray(getattr(T, m)(view), dtype=float).copy()
                            want = np.asarray(getattr(ns["make"](), m)(big[idx].copy()), dtype=float)
                            bad = None if np.array_equal(got, want, equal_nan=True) else f"{m} on the shared view = {got.tolist()}, on a pristine copy with a fresh object = {want.tolist()}"
                        except Exception as e:  # noqa: BLE001
                            bad = f"{m} raises {type(e).__name__}: {e}"
                        if bad is None and not np.array_equal(B, big):
                            bad = f"{m} changed the caller array: {B.tolist()} (was {big.tolist()})"
                        ctx.count(["oracle-shared", cls, ps, trim, wrapped, b_none, m, sl, pts], nontrivial=True, tag="r4:oracle:shared-view")
                        if bad:
                            eff = H.WRAP_OF[m] if wrapped else m
                            ctx.fail("oracle", f"rtransform.{cls}.{eff}", f"{'InverseRTransform of ' if wrapped else ''}{cls}({', '.join(args)}), one view "
                                     f"big[{sl}] handed to {order}: {bad}", witness={"class": cls, "params": ps, "b_none": b_none, "wrapped": wrapped, "slice": sl},
                                     snippet=SNIPPET_VIEW.format(ctor=ctor, big=big.tolist(), sl=sl, meths=order))
                            break


SNIPPET_TRACE = """import warnings; warnings.filterwarnings('ignore')
import numpy as np
from grid import rtransform as rt
np.seterr(all='ignore')
{ctor}
for bad in {bads!r}:
    try:
        eval(bad)
    except Exception:
        pass
F = make()
a = np.array({pts!r})
for m in {meths!r}:
    got, want = np.asarray(getattr(T, m)(a), dtype=float), np.asarray(getattr(F, m)(a), dtype=float)
    assert np.array_equal(got, want, equal_nan=True), f'after the failed calls {{m}} answers {{got}}, a fresh object answers {{want}}'
"""


def oracle_raise_leaves_no_trace(ctx: Ctx, budget, H):
    """class 18: calls that end in an exception, then every method: the answers of a fresh object."""
    rng = ctx.rng
    mod = rt()
    known = ctx.__dict__.setdefault("_c03_r4_known_trace", [])
    for cls in H.CLASSES:
        for rep in range(1 if budget == "small" else 4):
            ps, trim = H.gen_params(cls, rng)
            b_none = cls in B_SCALED and rep % 2 == 0
            wrapped = rng.random() < 0.25
            args = [repr(p) for p in (ps[:2] if b_none else ps)] + ([f"trim_inf={bool(trim)}"] if cls in H.HAS_TRIM else [])
            ctor = f"def make():\n    T = rt.{cls}({', '.join(args)})\n" + ("    T = rt.InverseRTransform(T)\n" if wrapped else "") + "    return T\nT = make()"
            xs, rs = _points_for(H, cls, ps, trim, rng)
            if not xs:
                continue
            m0 = rng.choice(H.METHODS)
            bads = [f"T.{m0}()", f"T.{m0}(np.array([0.5]), 3)", f"T.{m0}(None)", f"T.{m0}('abc')", f"T.{m0}(np.array(['a', 'b']))", f"T.{m0}(np.array([None, 1.0], dtype=object))",
                    f"T.{rng.choice(H.METHODS)}(x=1, r=2)", "T._convert_inf('abc')", "T.no_such_method(1.0)"]
            if cls == "HyperbolicRTransform":
                bads.append(f"T.{m0}(np.arange({int(1 / ps[1]) + 3}, dtype=float))")
            if cls in B_SCALED and b_none:
                bads += ["T.transform(np.array([0.0]))", "T.deriv(np.array([1e-300, 0.0]))", "(T._tfm if hasattr(T, '_tfm') else T).set_maximum_parameter_b(np.array([-1e-20]))"]
            if cls in ("KnowlesRTransform", "HandyRTransform") and ps[2] > 1 and not wrapped:
                bads.append(f"T.deriv_inverse(np.array([{float(ps[0])!r}]))")        # the Jacobian vanishes at x = -1: ZeroDivisionError
            lists = [f"T.{m0}([0.5, 0.25])", f"T.{m0}((0.5, 0.25))"]
            for label, seq in (("errors", bads), ("errors+sequences", bads + lists)):
                ns = {"np": np, "rt": mod}
                with _quiet():
                    exec(ctor, ns)
                    raised = 0
                    for bad in seq:
                        try:
                            eval(bad, ns)
                        except Exception:  # noqa: BLE001
                            raised += 1
                    T, F = ns["T"], ns["make"]()
                    fails = []
                    for m in H.METHODS:
                        pts = xs if (m in H.FWD) != wrapped else rs
                        tg, g = _call_vals(T, m, np.array(pts))
                        tw, w = _call_vals(F, m, np.array(pts))
                        ctx.count(["oracle-trace", cls, ps, trim, wrapped, b_none, label, m], nontrivial=True, tag=f"r4:oracle:no-trace:{label}")
                        if tg != tw or (tg == "ok" and not all(_eq(a, b, 0.0) for a, b in zip(g, w))):
                            fails.append((m, pts, g if tg == "ok" else tg, w if tw == "ok" else tw))
                if not fails:
                    continue
                m, pts, g, w = fails[0]
                what = (f"{'InverseRTransform of ' if wrapped else ''}{cls}({', '.join(args)}): after {raised} calls that raised ({'; '.join(seq[-3:])} ...) "
                        f"{m}({pts}) answers {g}, a fresh object answers {w}")
                if label == "errors+sequences" and b_none:
                    # unchanged tree: a list / tuple argument raises TypeError only after set_maximum_parameter_b took its maximum
                    # (np.max accepts sequences): reported to the lead as information, see `oracle_r4`
                    known.append(what)
                    ctx.tagc("r4:information:sequence-argument-fixes-b-before-raising")
                    continue
                eff = H.WRAP_OF[m] if wrapped else m
                ctx.fail("oracle", f"rtransform.{cls}.{eff}", what, witness={"class": cls, "params": ps, "b_none": b_none, "wrapped": wrapped, "bad_calls": seq},
                         snippet=SNIPPET_TRACE.format(ctor=ctor, bads=seq, pts=(xs if (m in H.FWD) != wrapped else rs), meths=[m]))
    if known:
        ctx.info("information (a call that raises leaves a trace; proposed to the lead): on a b=None object a list / tuple argument makes every method raise "
                 "TypeError, but only after set_maximum_parameter_b has taken np.max of the sequence, so b stays fixed by the failed call; e.g. "
                 "T = LinearInfiniteRTransform(0.5, 3.0); T.transform([1.0, 2.0]) -> TypeError, T.b == 2.0; then T.transform(np.array([0, 2.5, 5])) = "
                 f"[0.5, 3.625, 6.75] instead of [0.5, 1.75, 3.0]. First case of this run: {known[0][:300]}")


SNIPPET_LIMIT = """import warnings; warnings.filterwarnings('ignore')
import numpy as np
from grid import rtransform as rt
np.seterr(all='ignore')
T = rt.{cls}(*{ps!r})
f = lambda x: float(np.asarray(T.{meth}(np.array([x])), dtype=float)[0])
v1, v2, vinf = f(1e100), f(1e200), f(float('inf'))
want = (np.sign(v2) * np.inf if abs(v2) > abs(v1) or abs(v2) == np.inf else 0.0 if abs(v2) < abs(v1) else v2)
assert vinf == want, f'{cls}{{tuple({ps!r})}}.{meth}: values {{v1}}, {{v2}} at 1e100, 1e200, but {{vinf}} at the infinite end of the declared domain (limit {{want}})'
"""


def oracle_infinite_ends(ctx: Ctx, budget, H):
    """class 19 / ends: (i) 0 -> rmin and b -> rmax (domain ends -> codomain ends) for the codomain below 1, above 1, straddling 1;
    (ii) at the infinite end of the declared domain the forward map and its derivative methods return the limit of their values
    (measured on the unchanged tree: holds for Identity, LinearInfinite, Exp, Power; HyperbolicRTransform is used on [0, 1/b) and
    returns nan beyond the pole: C04's listed finding, not asserted here)."""
    rng = ctx.rng
    for cls in H.CLASSES:
        for which in ("below", "above", "straddle"):
            for rep in range(1 if budget == "small" else 5):
                ps, trim = range_params(cls, rng, which)
                with _quiet():
                    try:
                        T = H.construct(cls, ps, trim)
                    except ValueError as e:
                        ctx.fail("oracle", f"rtransform.{cls}.constructor", f"{cls}{tuple(ps)} (codomain {which} 1) is rejected: {e}", witness={"class": cls, "params": ps})
                        continue
                    lo_d, hi_d = (float(t) for t in T.domain)
                    lo_c, hi_c = (float(t) for t in T.codomain)
                    if cls in B_SCALED:
                        pts = [(0.0, lo_c), (float(ps[2]), hi_c)]
                    elif cls in ("HyperbolicRTransform", "IdentityRTransform"):
                        pts = [(0.0, 0.0)]
                    elif cls == "MultiExpRTransform":
                        pts = [(hi_d, lo_c), (lo_d, hi_c)]
                    else:
                        pts = [(lo_d, lo_c), (hi_d, hi_c)]
                    for x, want in pts:
                        if want == INF and trim:
                            want = 1e16
                        for arg, kind in ((np.array([x]), "array"), (np.float64(x), "np.float64"), (float(x), "float")):
                            tg, g = _call_vals(T, "transform", arg)
                            ctx.count(["oracle-ends", cls, ps, trim, x, kind], nontrivial=True, tag=f"r4:oracle:ends:{which}")
                            if tg != "ok" or not (g[0] == want or close(g[0], want, rtol=1e-12, atol=1e-12)):
                                ctx.fail("oracle", f"rtransform.{cls}.endpoints", f"{cls}{tuple(ps)} trim={trim} (codomain {which} 1): transform({x!r}) [{kind}] = "
                                         f"{g[0] if tg == 'ok' else tg!r}, the codomain end is {want!r}", witness={"class": cls, "params": ps, "trim": trim, "x": x},
                                         snippet=H.SNIPPET_END.format(cls=cls, ps=list(ps), trim=(trim if cls in H.HAS_TRIM else None), x=x, want=want))
                    if hi_d == INF and cls != "HyperbolicRTransform":
                        for meth in ("transform", "deriv", "deriv2", "deriv3"):
                            v1, v2, vinf = (_vals(getattr(T, meth)(np.array([t])))[0] for t in (1e100, 1e200, INF))
                            if v1 != v1 or v2 != v2:
                                continue
                            want = math.copysign(INF, v2) if (abs(v2) > abs(v1) or math.isinf(v2)) else 0.0 if abs(v2) < abs(v1) else v2
                            ctx.count(["oracle-inf-end", cls, ps, meth], nontrivial=True, tag=f"r4:oracle:infinite-end:{which}")
                            if not vinf == want:
                                ctx.fail("oracle", f"rtransform.{cls}.{meth}", f"{cls}{tuple(ps)} (codomain {which} 1): {meth} = {v1!r}, {v2!r} at x = 1e100, 1e200 "
                                         f"but {vinf!r} at x = inf, the upper end of the declared domain (limit {want!r})",
                                         witness={"class": cls, "params": ps, "method": meth, "x": INF, "got": vinf, "want": want},
                                         snippet=SNIPPET_LIMIT.format(cls=cls, ps=list(ps), meth=meth))


def oracle_shapes(ctx: Ctx, budget, H):
    """class 20, implementation only: a method on an array of shape (1,2), (2,1), (1,3), (3,2), (2,1,3), (1,1), a transposed view
    answers element for element what it answers on the flattened array; a b=None object takes b from the whole first grid."""
    rng = ctx.rng
    mod = rt()
    for cls in H.CLASSES:
        for rep in range(1 if budget == "small" else 4):
            ps, trim = H.gen_params(cls, rng)
            if cls == "HyperbolicRTransform":
                ps = [ps[0], min(ps[1], 0.05)]
            wrapped = rng.random() < 0.25
            args = [repr(p) for p in ps] + ([f"trim_inf={bool(trim)}"] if cls in H.HAS_TRIM else [])
            setup = f"T = rt.{cls}({', '.join(args)})" + ("\nT = rt.InverseRTransform(T)" if wrapped else "")
            ns = {"np": np, "rt": mod}
            with _quiet():
                exec(setup, ns)
                for shape in SHAPES:
                    n = 6 if shape == "T" else int(np.prod(shape))
                    xs = H.interior_points(cls, ps, rng, n)
                    rs = _vals(H.construct(cls, ps, trim).transform(np.array(xs)))
                    if not all(math.isfinite(r) for r in rs):
                        continue
                    for meth in H.METHODS:
                        vals = xs if (meth in H.FWD) != wrapped else rs
                        src, shp, flat = _shaped_src(vals, shape, H)
                        tg, g = _call_vals(ns["T"], meth, eval(src, ns))
                        tw, w = _call_vals(ns["T"], meth, np.array(flat))
                        eff = H.WRAP_OF[meth] if wrapped else meth
                        ctx.count(["oracle-shape", cls, ps, trim, wrapped, meth, str(shape), flat], nontrivial=True, tag=f"r4:oracle:shape:{shape}")
                        _report(ctx, f"rtransform.{cls}.{eff}", f"{'InverseRTransform of ' if wrapped else ''}{cls}: an argument of shape {shp}", setup,
                                f"T.{meth}({src})", f"T.{meth}(np.array({flat!r}))", tg, g, tw, w, 1e-13, 0.0,
                                {"class": cls, "params": ps, "trim": trim, "wrapped": wrapped, "method": meth, "shape": str(shp)})
    for cls in B_SCALED:
        for shape in [(2, 3), (3, 1), (1, 2), (2, 1, 2)]:
            ps, _ = H.gen_params(cls, rng)
            vals = [rng.uniform(0.3, 12.0) for _ in range(int(np.prod(shape)))]
            first = rng.choice(["transform", "deriv", "inverse"])
            setup = (f"T = rt.{cls}({ps[0]!r}, {ps[1]!r})\nF = rt.{cls}({ps[0]!r}, {ps[1]!r})\n"
                     f"g = np.array({vals!r})\n_ = F.{first}(g)")
            ns = {"np": np, "rt": mod}
            with _quiet():
                exec(setup, ns)
                tg, g = _call_vals(ns["T"], first, np.array(vals).reshape(shape))
                tw, w = _call_vals(ns["F"], first, np.array(vals))
                ctx.count(["oracle-shape-b", cls, ps[:2], str(shape), vals], nontrivial=True, tag="r4:oracle:shape:first-grid")
                ok = _report(ctx, f"rtransform.{cls}.set_maximum_parameter_b", f"{cls}({ps[0]}, {ps[1]}): first grid of shape {shape}", setup,
                             f"T.{first}(g.reshape{tuple(shape)!r})", f"F.{first}(g)", tg, g, tw, w, 1e-13, 0.0, {"class": cls, "shape": str(shape), "grid": vals})
                if ok and not (ns["T"].b is not None and np.ndim(ns["T"].b) == 0 and float(ns["T"].b) == max(vals)):
                    ctx.fail("oracle", f"rtransform.{cls}.set_maximum_parameter_b", f"{cls}({ps[0]}, {ps[1]}): after a first grid of shape {shape} b = {ns['T'].b!r}, "
                             f"the maximum of the grid is {max(vals)!r}", witness={"class": cls, "shape": str(shape), "grid": vals})


def oracle_r4(ctx: Ctx, budget, H):
    run_parts([lambda: oracle_param_kinds(ctx, budget, H), lambda: oracle_inferred_b_kinds(ctx, budget, H), lambda: oracle_spellings(ctx, budget, H),
               lambda: oracle_shared_argument(ctx, budget, H), lambda: oracle_raise_leaves_no_trace(ctx, budget, H),
               lambda: oracle_infinite_ends(ctx, budget, H), lambda: oracle_shapes(ctx, budget, H)])

"""C07, round 5 — generators for the classes 21-26 of AGENT_ROUND5.md (implementation only; every replay snippet is the oracle itself:
KINDS_PRELUDE of c07.py + EXT_PRELUDE of c07_ext.py + R4_PRELUDE of c07_r4.py + "P = {...}" + BODY).

* SIZES_BODY     class 21: grids / atom counts / evaluation points just above 2^k and {1,2,5}*10^k (1025, 4097, 20001, 31234, 65537; thorough:
                 2^19 + 1 and beyond) on the cheapest objects (LocalGrid atoms with synthetic points, array or Becke aim weights); references per
                 element and by additivity over a split of the same input.
* ORDER_BODY     class 22: descending / shuffled radial grids (also the descending ones the library's own decreasing transforms produce),
                 permuted atoms, shuffled evaluation points; references that treat every shell / atom / point on its own.
* PRECISION_BODY class 23: longdouble / float32 / float16 / integer arrays given *directly* as atcoords, radius, aim weights, function values,
                 evaluation points, local-grid centre; against the float64 answer, argument unchanged, second call with the same object equal.
* INPLACE_BODY   class 25: every array / list argument of every entry point modified in place between two calls; the second answer against the
                 one on fresh copies of the new contents.
* INSTANCES_BODY classes 26 and 24: two grids that differ in one hidden dependency (store, radial grid, a node at r = 0, aim weights, element
                 with another default radial grid) alive together and used in both orders; each answer against the one computed before the other
                 existed and against the instance alone in a fresh interpreter; default radial grids of elements with different npt in both orders
                 against the closed form (the exponent of the power transform is inferred per grid).
"""
import importlib

from ..common import Ctx


def _base():
    return importlib.import_module("harness.props.c07")


def _r4():
    return importlib.import_module("harness.props.c07_r4")


# -- class 21 ------------------------------------------------------------------------------------------------------------------------------
SIZES_BODY = r"""
KEY = P['key']
rs = np.random.default_rng(P['seed'])
sizes = P['sizes']; n = len(sizes); total = sum(sizes)
co = rs.uniform(-4, 4, (n, 3)) if P['coords'] is None else np.array(P['coords'], dtype=float)
ats = [LocalGrid(co[k] + rs.normal(0, 1.0, (sizes[k], 3)), rs.uniform(0.5, 1.5, sizes[k]), co[k].copy()) for k in range(n)]
atn = np.array([[1, 6, 7, 8, 9, 16, 17][k % 7] for k in range(n)])
ind = cums(ats)
A = rs.uniform(0, 1, total)
for store in (False, True):
    what = f'MolGrid of {n} atoms with {total} points (largest atom {max(sizes)}), aim weights {P["aim"]}, store={store}'
    m = MolGrid(atn, ats, A.copy() if P['aim'] == 'array' else BeckeWeights(order=3), store=store)
    assert np.array_equal(np.asarray(m.indices), ind) and m.size == total, f'{KEY} :: {what}: index table / size'
    assert np.array_equal(m.points, np.concatenate([g.points for g in ats])) and np.array_equal(m.atweights, np.concatenate([g.weights for g in ats])), f'{KEY} :: {what}: points / atweights are not the concatenation'
    # per element: the last points of the last atom, the points around every boundary of the index table and of the sizes 2^k, 10^k
    probe = sorted({j for b in list(ind) + [2 ** k for k in range(6, 21)] + [10 ** k for k in range(2, 6)] for j in (b - 2, b - 1, b, b + 1) if 0 <= j < total} | {total - 1, total - 2})
    aimw = np.asarray(m.aim_weights, dtype=float)
    assert aimw.shape == (total,), f'{KEY} :: {what}: aim_weights has shape {aimw.shape}'
    for j in probe:
        k = int(np.searchsorted(ind, j, side='right') - 1)
        assert np.array_equal(m.points[j], ats[k].points[j - ind[k]]) and m.atweights[j] == ats[k].weights[j - ind[k]] and m.weights[j] == m.atweights[j] * aimw[j], (
            f'{KEY} :: {what}: point {j} (atom {k}, its point {j - ind[k]}) is not that point of the atomic grid / its weight is not atweight * aim weight')
    assert np.array_equal(m.weights, m.atweights * aimw), f'{KEY} :: {what}: weights != atweights * aim_weights'
    if P['aim'] == 'array':
        assert np.array_equal(aimw, A), f'{KEY} :: {what}: aim_weights is not the given array'
    else:
        # Becke weights are a function of the point and of the atom it belongs to: atom by atom on pristine copies, and additivity over a split
        bw = BeckeWeights(order=3)
        for k in range(n):
            seg = np.asarray(bw.generate_weights(ats[k].points.copy(), co.copy(), atn.copy(), select=[k], pt_ind=[0, sizes[k]]), dtype=float)
            dev = float(np.max(np.abs(seg - aimw[ind[k]:ind[k + 1]]), initial=0.0))
            assert dev <= 1e-13, f'{KEY} :: {what}: the aim weights of atom {k} (points {ind[k]}:{ind[k + 1]}) differ from BeckeWeights evaluated on that atom alone by {dev:.3g}'
        assert np.all(np.isfinite(aimw)) and aimw.min() >= 0 and aimw.max() <= 1 + 1e-12, f'{KEY} :: {what}: Becke weights outside [0, 1]'
    # reductions: additivity over a split of the same input
    f = rs.uniform(-1, 1, total); g2 = rs.uniform(-1, 1, total)
    tot = float(m.integrate(f)); sc = math.fsum(np.abs(m.weights * f).tolist())
    assert abs(tot - math.fsum((m.weights * f).tolist())) <= 1e-12 * sc, f'{KEY} :: {what}: integrate(f) != sum(weights * f)'
    parts = math.fsum(float(ats[k].integrate(aimw[ind[k]:ind[k + 1]] * f[ind[k]:ind[k + 1]])) for k in range(n))
    assert abs(tot - parts) <= 1e-12 * sc, f'{KEY} :: {what}: integrate(f) = {tot!r}, the atomic integrals of aim*f sum to {parts!r}'
    t2 = float(m.integrate(f, g2)); assert abs(t2 - math.fsum((m.weights * f * g2).tolist())) <= 1e-12 * sc, f'{KEY} :: {what}: integrate(f, g) != sum(weights * f * g)'
    for k in sorted({0, n - 1, n // 2}):
        for acc, gk in (('get_atomic_grid', m.get_atomic_grid(k)), ('__getitem__', m[k])):
            assert gk.size == sizes[k] and np.array_equal(gk.points, ats[k].points), f'{KEY} :: {what}: {acc}({k}) has {gk.size} points, atom {k} has {sizes[k]}'
    # local grids: brute force over all points
    c = co[0]; r = P['radius']
    L = m.get_localgrid(c, r); d = np.linalg.norm(m.points - c, axis=1); sure = np.abs(d - r) > 1e-9
    assert set(np.asarray(L.indices)[sure[np.asarray(L.indices)]].tolist()) == set(np.nonzero((d <= r) & sure)[0].tolist()), f'{KEY} :: {what}: get_localgrid does not hold exactly the points inside the sphere'
# ---- interpolate at many evaluation points: element-wise in the points (additivity over a split, per-point evaluation at the probes)
if P['npts']:
    R0 = GaussLaguerre(4)
    cc = np.array([[0.0, 0.0, -0.7], [0.0, 0.1, 0.8], [1.5, 0.0, 0.0]])
    hand = [AtomGrid(R0, degrees=[5], center=cc[i], rotate=0) for i in range(3)]
    ms = MolGrid(np.array([1, 8, 6]), hand, BeckeWeights(order=3), store=True)
    fv = np.exp(-((ms.points[:, None, :] - cc[None, :, :]) ** 2).sum(axis=2)).sum(axis=1)
    I = ms.interpolate(fv)
    M = P['npts']; Q = rs.uniform(-2.5, 2.5, (M, 3))
    def per_point(v, k):
        # (on this tree the spherical derivatives come back as the flattened (3, M) array, component by component: per point here)
        v = np.array(v, dtype=float)
        return v.reshape(3, k).T if (v.ndim == 1 and k and v.size == 3 * k) else v
    for args in ([], [1], [1, True]):
        allv = per_point(I(Q.copy(), *args), M)
        cut = P['cut']
        two = np.concatenate([per_point(I(Q[:cut].copy(), *args), cut), per_point(I(Q[cut:].copy(), *args), M - cut)])
        sc = float(np.max(np.abs(two))) + 1e-300
        assert allv.shape == two.shape and float(np.max(np.abs(allv - two))) <= 1e-12 * sc, (
            f'{KEY} :: interpolate(f)(points, *{args}) at {M} points differs from the two halves [:{cut}] and [{cut}:] evaluated separately (max deviation {float(np.max(np.abs(allv - two))):.3g}, shapes {allv.shape} / {two.shape})')
        for j in sorted({0, 1, M - 1, M - 2, cut - 1, cut} | {b + e for b in (1024, 4096, 16384, 65536, 1000, 10000) for e in (-1, 0) if b + e < M}):
            one = per_point(I(Q[j:j + 1].copy(), *args), 1)
            assert float(np.max(np.abs(one[0] - allv[j]))) <= 1e-12 * sc, f'{KEY} :: interpolate(f)(points, *{args}): entry {j} of {M} differs from the evaluation at that point alone'
"""

# -- class 22 ------------------------------------------------------------------------------------------------------------------------------
ORDER_BODY = r"""
from grid.rtransform import MultiExpRTransform, BeckeRTransform
from grid.onedgrid import GaussChebyshev, GaussLegendre
KEY = P['key']
atn = np.array(P['atnums']); co = np.array(P['coords'], dtype=float); n = len(atn); rot = P['rotate']
rs = np.random.default_rng(P['seed'])
asc = GaussLaguerre(P['nrad'])
def reorder(rg, perm): return OneDGrid(rg.points[perm].copy(), rg.weights[perm].copy(), (0, np.inf))
lib = {'multiexp': MultiExpRTransform(1e-3, 1.5).transform_1d_grid(GaussLegendre(P['nrad'])),
       'becke-cheb': BeckeRTransform(1e-3, 1.5).transform_1d_grid(GaussChebyshev(P['nrad']))}
nr = P['nrad']
CASES = {'reversed': lambda: (asc, reorder(asc, np.arange(nr)[::-1])), 'shuffled': lambda: (asc, reorder(asc, rs.permutation(nr)))}
for nm, g in lib.items():
    o = np.argsort(g.points, kind='stable')
    CASES['library:' + nm + (':descending' if g.points[0] > g.points[-1] else ':ascending')] = (lambda g=g, o=o: (reorder(g, o), g))
opt = dict(degs=P['degs'], presets=['coarse', 'medium'], size=14, shift=1)
ftest = lambda p: np.exp(-((p[:, None, :] - co[None, :, :]) ** 2).sum(axis=2)).sum(axis=1) * (1 + 0.1 * p[:, 0])
def canon(m):      # the set of (point, atomic weight, aim weight) triples, order-free
    t = np.column_stack([np.round(m.points, 9), m.atweights, np.asarray(m.aim_weights, dtype=float)])
    return t[np.lexsort(t.T[::-1])]
for cname in P['cases']:
    sorted_rg, other = CASES[cname]()
    for route in P['routes']:
        ctor_a, hand_a = routes(route, atn, co, [sorted_rg] * n, rot, opt)
        ctor_b, hand_b = routes(route, atn, co, [other] * n, rot, opt)
        what = f'{route} with a radial grid in {cname} order ({other.points[:3].round(4).tolist()} ...)'
        try:
            hb = hand_b()
        except Exception as e:
            REJECTED = f'{cname}:{type(e).__name__}'; continue        # the atomic layer rejects this order: a rejection, consistent below
        for store in (False, True):
            try:
                mb = ctor_b(None, store)
            except Exception as e:
                raise AssertionError(f'{KEY}:raises :: {what} raises {type(e).__name__}: {str(e)[:120]} although the atomic grids build by hand')
            check_after(KEY, mb, hb, atn, co, what, store, seed=P['seed'])
        # every shell stands on its own: the same set of points with the same weights, hence the same integrals (without the random
        # rotation of the shells, whose seed depends on the position of the shell)
        ma = routes(route, atn, co, [sorted_rg] * n, 0, opt)[0](None, False); mb = routes(route, atn, co, [other] * n, 0, opt)[0](None, False)
        ia, ib = float(ma.integrate(ftest(ma.points))), float(mb.integrate(ftest(mb.points)))
        assert ma.size == mb.size and abs(ia - ib) <= 1e-11 * abs(ia), f'{KEY} :: {what}: the integral {ib!r} differs from the one with the radial points in ascending order {ia!r} (sizes {mb.size} / {ma.size})'
        ca, cb = canon(ma), canon(mb)
        assert ca.shape == cb.shape and np.allclose(ca, cb, rtol=1e-9, atol=1e-9), f'{KEY} :: {what}: not the same set of (point, atomic weight, aim weight) as with ascending radial points'
# ---- permuted atoms: the same set of weighted points, the per-atom grids permuted
rgs = [GaussLaguerre(3 + i % 3) for i in range(n)]
perm = np.array(P['perm'])
for route in P['routes']:
    if route in ('from_preset', 'from_pruned_d', 'from_pruned_s'):
        continue          # presets / sector lists are assigned by position in `routes`: the permuted molecule is another molecule there
    use = rgs if route == 'init' else [rgs[0]] * n
    ctor, hand = routes(route, atn, co, use, rot, opt)
    a = ctor(None, True)
    cp, hp = routes(route, atn[perm], co[perm], [use[i] for i in perm], rot, dict(opt, degs=[P['degs'][i] for i in perm]))
    b = cp(None, True)
    what = f'{route} with the atoms in the order {perm.tolist()}'
    for k in range(n):
        ga, gb = a.get_atomic_grid(int(perm[k])), b.get_atomic_grid(k)
        assert np.array_equal(ga.points, gb.points) and np.array_equal(ga.weights, gb.weights), f'{KEY} :: {what}: atomic grid {k} is not atomic grid {perm[k]} of the original order'
        sa = slice(int(a.indices[perm[k]]), int(a.indices[perm[k] + 1])); sb = slice(int(b.indices[k]), int(b.indices[k + 1]))
        dev = float(np.max(np.abs(np.asarray(a.aim_weights)[sa] - np.asarray(b.aim_weights)[sb]), initial=0.0))
        assert dev <= 1e-12, f'{KEY} :: {what}: the aim weights of atom {k} differ from those of atom {perm[k]} in the original order by {dev:.3g}'
    ia, ib = float(a.integrate(ftest(a.points))), float(b.integrate(ftest(b.points)))
    assert abs(ia - ib) <= 1e-11 * abs(ia), f'{KEY} :: {what}: integral {ib!r} vs {ia!r} in the original order'
# ---- shuffled evaluation points
hand = [AtomGrid(GaussLaguerre(4), degrees=[5], center=co[i], rotate=0) for i in range(min(n, 3))]
ms = MolGrid(atn[: len(hand)], hand, BeckeWeights(order=3), store=True)
I = ms.interpolate(ftest(ms.points))
Q = rs.uniform(-2, 2, (P['npts'], 3)); pq = rs.permutation(P['npts'])
for order_name, o in (('shuffled', pq), ('reversed', np.arange(P['npts'])[::-1]), ('sorted by x', np.argsort(Q[:, 0]))):
    for args in ([], [1], [1, True], [2, False, True]):
        k = P['npts']
        pp = lambda v: (np.array(v).reshape(3, k).T if (np.ndim(v) == 1 and np.size(v) == 3 * k and args[:2] == [1, True] and len(args) == 2) else np.array(v))
        x, y = pp(I(Q[o].copy(), *args)), pp(I(Q.copy(), *args))[o]
        assert x.shape == y.shape and float(np.max(np.abs(x - y), initial=0.0)) <= 1e-12 * (float(np.max(np.abs(y), initial=0.0)) + 1e-300), f'{KEY} :: interpolate(f)(points {order_name}, *{args}) is not the permuted answer for the points in the given order'
"""

# -- class 23 ------------------------------------------------------------------------------------------------------------------------------
PRECISION_BODY = r"""
KEY = P['key']
atn = np.array(P['atnums']); co = np.array(P['coords'], dtype=float); n = len(atn); rot = P['rotate']      # coordinates on a 1/8 lattice: exact in float16
R0 = GaussLaguerre(P['nrad'])
rsec = [[0.5, 1.0][: i % 3] for i in range(n)]; dsec = [[3, 5, 7][: len(r) + 1] for r in rsec]
rad64 = np.array([1.0 + 0.25 * i for i in range(n)])
def narrow(kind): return {'float16': 1e-3, 'float32': 1e-7}.get(kind, 1e-13)
def twice(what, fn, arg, ref, tol, attrs=ATTRS):
    snap = np.array(arg, copy=True)
    outs = []
    for rep in (1, 2):
        try:
            outs.append(fn(arg))
        except Exception as e:
            return type(e).__name__
        assert arg.dtype == snap.dtype and np.array_equal(arg, snap), f'{KEY} :: {what}: the argument was modified by call {rep}'
    for rep, m in enumerate(outs):
        for t in attrs:
            x, y = np.asarray(getattr(m, t), dtype=float), np.asarray(getattr(ref, t), dtype=float)
            ok = x.shape == y.shape and (np.array_equal(x, y) if tol == 0 else np.allclose(x, y, rtol=tol, atol=tol * 10))
            assert ok, f'{KEY} :: {what} (call {rep + 1} with the same object): {t} differs from the float64 answer' + (f' by {np.max(np.abs(x - y)):.3g}' if x.shape == y.shape else f' (shapes {x.shape} / {y.shape})')
    same(KEY, outs[1], outs[0], what + ': second call with the same argument object vs the first')
    return None
REF = {'from_preset': MolGrid.from_preset(atn, co, 'coarse', R0, rotate=rot), 'from_size': MolGrid.from_size(atn, co, 14, R0, rotate=rot),
       'from_pruned': MolGrid.from_pruned(atn, co, rad64, rsec, dsec, rgrid=R0, rotate=rot)}
rej = []
for kind in P['kinds']:
    c = kind_of(co if kind not in ('int64', 'int32') else np.round(co), kind)
    cref = np.asarray(c, dtype=float)
    exact = np.array_equal(cref, co)
    for ctor, fn in (('from_preset', lambda a: MolGrid.from_preset(atn, a, 'coarse', R0, rotate=rot)), ('from_size', lambda a: MolGrid.from_size(atn, a, 14, R0, rotate=rot)),
                     ('from_pruned', lambda a: MolGrid.from_pruned(atn, a, rad64, rsec, dsec, rgrid=R0, rotate=rot))):
        ref = REF[ctor] if exact else {'from_preset': lambda: MolGrid.from_preset(atn, cref, 'coarse', R0, rotate=rot), 'from_size': lambda: MolGrid.from_size(atn, cref, 14, R0, rotate=rot),
                                       'from_pruned': lambda: MolGrid.from_pruned(atn, cref, rad64, rsec, dsec, rgrid=R0, rotate=rot)}[ctor]()
        r = twice(f'MolGrid.{ctor} with atcoords given as {kind}', fn, c, ref, 0 if kind != 'longdouble' else 1e-15)
        if r: rej.append(f'{ctor}(atcoords {kind}): {r}')
    if kind not in ('int64', 'int32'):
        rk = kind_of(rad64, kind)
        r = twice(f'MolGrid.from_pruned with radius given as a {kind} array', lambda a: MolGrid.from_pruned(atn, co, a, rsec, dsec, rgrid=R0, rotate=rot), rk, REF['from_pruned'], 0 if kind != 'longdouble' else 1e-15)
        if r: rej.append(f'from_pruned(radius {kind}): {r}')
# ---- aim weights, function values, evaluation points, centres given directly in these kinds
hand = [AtomGrid(R0, degrees=[5], center=co[i], rotate=0) for i in range(n)]; size = sum(g.size for g in hand)
rs = np.random.default_rng(P['seed'])
A_full = rs.uniform(0, 1, size)
fv_full = np.exp(-((np.concatenate([g.points for g in hand])[:, None, :] - co[None, :, :]) ** 2).sum(axis=2)).sum(axis=1)
Q_full = rs.uniform(-2, 2, (P['npts'], 3))
I64 = {tuple(a): None for a in ([], [1], [1, True])}
for kind in P['kinds']:
    ints = kind in ('int64', 'int32')
    # values that use the precision of the kind: full float64 digits for longdouble, float32 digits for float32, 1/256 steps for float16
    step = {'float16': lambda v, q: np.round(v * q) / q, 'float32': lambda v, q: v.astype(np.float32).astype(float)}.get(kind, lambda v, q: v)
    A64, fv64, Q64 = step(A_full, 256), step(fv_full, 256), step(Q_full, 8)
    ms = MolGrid(atn, hand, A64.copy(), store=True)
    A = kind_of(A64 if not ints else np.round(A64 * 4), kind); snapA = A.copy()
    for rep in (1, 2):
        m = MolGrid(atn, hand, A, store=bool(rep % 2))
        assert np.array_equal(np.asarray(m.weights, dtype=float), np.concatenate([g.weights for g in hand]) * np.asarray(snapA, dtype=float)), f'{KEY} :: aim weights given as a {kind} array (construction {rep} with the same object): weights are not atweights * the values'
        assert A.dtype == snapA.dtype and np.array_equal(A, snapA), f'{KEY} :: the {kind} aim-weights array was modified'
    F = kind_of(fv64 if not ints else np.round(fv64 * 4), kind); snapF = F.copy(); Fref = np.asarray(F, dtype=float)
    want_int = float(ms.integrate(Fref.copy())); want_I = np.array(ms.interpolate(Fref.copy())(Q64.copy()), dtype=float)
    for rep in (1, 2):
        gi = float(ms.integrate(F)); gI = np.array(ms.interpolate(F)(Q64.copy()), dtype=float)
        assert abs(gi - want_int) <= 1e-12 * abs(want_int) + 1e-300, f'{KEY} :: integrate of {kind} values (call {rep}) = {gi!r}, float64 answer {want_int!r}'
        assert float(np.max(np.abs(gI - want_I))) <= 1e-10 * (float(np.max(np.abs(want_I))) + 1e-300), f'{KEY} :: interpolate of {kind} values (call {rep}) differs from the float64 answer by {float(np.max(np.abs(gI - want_I))):.3g}'
        assert F.dtype == snapF.dtype and np.array_equal(F, snapF), f'{KEY} :: the {kind} function values were modified'
    Qk = kind_of(Q64 if not ints else np.round(Q64), kind); snapQ = Qk.copy(); Qref = np.asarray(Qk, dtype=float)
    for a, _ in I64.items():
        want = np.array(ms.interpolate(fv64.copy())(Qref.copy(), *a), dtype=float)
        for rep in (1, 2):
            try:
                got = np.array(ms.interpolate(fv64.copy())(Qk, *a), dtype=float)
            except Exception as e:
                rej.append(f'interpolant(points {kind}, {list(a)}): {type(e).__name__}'); break
            assert got.shape == want.shape and float(np.max(np.abs(got - want), initial=0.0)) <= 1e-10 * (float(np.max(np.abs(want), initial=0.0)) + 1e-300), (
                f'{KEY} :: interpolate(f)(points given as {kind}, *{list(a)}) (call {rep}) differs from the float64 points by {float(np.max(np.abs(got - want), initial=0.0)):.3g}')
            assert Qk.dtype == snapQ.dtype and np.array_equal(Qk, snapQ), f'{KEY} :: the {kind} evaluation points were modified'
    ck = kind_of(co[0] if not ints else np.round(co[0]), kind); cref = np.asarray(ck, dtype=float)
    want = np.sort(np.asarray(ms.get_localgrid(cref, 1.5).indices))
    for rep in (1, 2):
        got = np.sort(np.asarray(ms.get_localgrid(ck, 1.5).indices))
        assert np.array_equal(got, want), f'{KEY} :: get_localgrid with the centre given as {kind} (call {rep}) selects other points than with float64'
if rej: REJECTED = '; '.join(sorted(set(rej)))[:300]
"""

# -- class 25 ------------------------------------------------------------------------------------------------------------------------------
INPLACE_BODY = r"""
KEY = P['key']
n = len(P['atnums']); rot = P['rotate']
rs = np.random.default_rng(P['seed'])
atn = np.array(P['atnums']); co = np.array(P['coords'], dtype=float)
atn2 = np.array(P['atnums2']); co2 = np.array(P['coords2'], dtype=float)
R0 = GaussLaguerre(P['nrad'])
rsec = [[0.5, 1.0][: i % 3] for i in range(n)]; dsec = [[3, 5, 7][: len(r) + 1] for r in rsec]; ssec = [[6, 14, 26][: len(r) + 1] for r in rsec]
rad = np.array([1.0 + 0.25 * i for i in range(n)])
presets = ['coarse'] * n; rglist = [GaussLaguerre(P['nrad']) for _ in range(n)]; rgdict = {int(z): GaussLaguerre(P['nrad']) for z in set(P['atnums']) | set(P['atnums2'])}
CALL = {
    'from_preset': lambda: MolGrid.from_preset(atn, co, presets, rglist, rotate=rot),
    'from_preset-dict': lambda: MolGrid.from_preset(atn, co, 'coarse', rgdict, rotate=rot),
    'from_size': lambda: MolGrid.from_size(atn, co, 14, R0, rotate=rot),
    'from_pruned_d': lambda: MolGrid.from_pruned(atn, co, rad, rsec, dsec, rgrid=rglist, rotate=rot),
    'from_pruned_s': lambda: MolGrid.from_pruned(atn, co, rad, rsec, s_sectors=ssec, rgrid=R0, rotate=rot),
}
def fresh(name):
    # the same call on fresh copies of the present contents of every argument
    z, c, r = np.array(atn, copy=True), np.array(co, copy=True), np.array(rad, copy=True)
    rl = [OneDGrid(g.points.copy(), g.weights.copy(), (0, np.inf)) for g in rglist]; rd = {k: OneDGrid(g.points.copy(), g.weights.copy(), (0, np.inf)) for k, g in rgdict.items()}
    Rn = OneDGrid(R0.points.copy(), R0.weights.copy(), (0, np.inf))
    rsc, dsc, ssc, prs = [list(x) for x in rsec], [list(x) for x in dsec], [list(x) for x in ssec], list(presets)
    return {'from_preset': lambda: MolGrid.from_preset(z, c, prs, rl, rotate=rot), 'from_preset-dict': lambda: MolGrid.from_preset(z, c, 'coarse', rd, rotate=rot),
            'from_size': lambda: MolGrid.from_size(z, c, 14, Rn, rotate=rot), 'from_pruned_d': lambda: MolGrid.from_pruned(z, c, r, rsc, dsc, rgrid=rl, rotate=rot),
            'from_pruned_s': lambda: MolGrid.from_pruned(z, c, r, rsc, s_sectors=ssc, rgrid=Rn, rotate=rot)}[name]()
EDITS = [
    ('atcoords[:] = other centres', lambda: co.__setitem__(slice(None), co2)), ('atcoords *= 1.5', lambda: co.__imul__(1.5)),
    ('atnums[:] = other elements', lambda: atn.__setitem__(slice(None), atn2)), ('radius *= 1.25', lambda: rad.__imul__(1.25)),
    ('the last sector lists edited in place', lambda: (rsec[-1].__setitem__(slice(None), [0.75]), dsec[-1].__setitem__(slice(None), [5, 9]), ssec[-1].__setitem__(slice(None), [14, 38]))),
    ('a preset name replaced in the list', lambda: presets.__setitem__(0, 'medium')),
    ('the points of the radial grids scaled in place', lambda: [g.points.__imul__(1.5) for g in rglist + list(rgdict.values()) + [R0]]),
    ('the weights of the radial grids scaled in place', lambda: [g.weights.__imul__(0.5) for g in rglist + list(rgdict.values()) + [R0]]),
]
first = {k: fn() for k, fn in CALL.items()}
for t in P['order']:
    label, edit = EDITS[t % len(EDITS)]
    edit()
    for name in P['calls']:
        got = CALL[name](); want = fresh(name)
        same(KEY, got, want, f'{name} after the caller changed its argument in place ({label}; history {[EDITS[u % len(EDITS)][0] for u in P["order"]]}) vs the same call on fresh copies of the new contents')
# ---- MolGrid(...), integrate, interpolate, get_localgrid
hand = [AtomGrid(GaussLaguerre(4), degrees=[5], center=np.array(P['coords'], dtype=float)[i], rotate=0) for i in range(n)]; size = sum(g.size for g in hand)
A = rs.uniform(0.1, 1, size); F = rs.uniform(-1, 1, size); Q = rs.uniform(-2, 2, (P['npts'], 3)); C = np.array(P['coords'], dtype=float)[0].copy()
glist = list(hand)
for rep in range(3):
    for store in (True, False):
        m = MolGrid(np.array(P['atnums']), glist, A, store=store); w = MolGrid(np.array(P['atnums']), list(glist), A.copy(), store=store)
        same(KEY, m, w, f'MolGrid(...) (store={store}) after {rep} in-place changes of the aim-weights array / the list of atomic grids vs fresh copies of the new contents')
        assert float(m.integrate(F)) == float(w.integrate(F.copy())), f'{KEY} :: integrate after {rep} in-place changes of the function values differs from the call on a fresh copy'
        L1, L2 = m.get_localgrid(C, 1.5), w.get_localgrid(C.copy(), 1.5)
        assert np.array_equal(np.sort(L1.indices), np.sort(L2.indices)), f'{KEY} :: get_localgrid after {rep} in-place changes of the centre array differs from the call on a fresh copy'
        if store:
            I1, I2 = m.interpolate(F), w.interpolate(F.copy())
            for args in ([], [1]):
                x, y = np.array(I1(Q, *args)), np.array(I2(Q.copy(), *args))
                assert x.shape == y.shape and np.array_equal(x, y), f'{KEY} :: interpolate(f)(points, *{args}) after {rep} in-place changes of the values / points differs from fresh copies of the new contents (max deviation {float(np.max(np.abs(x - y))):.3g})'
    A *= 0.5; A[rep] = 1.0; F[:] = rs.uniform(-1, 1, size); Q *= -0.75; C += 0.25; glist[rep % n], glist[-1] = glist[-1], glist[rep % n]
"""

# -- classes 26 and 24 ------------------------------------------------------------------------------------------------------------------------
INSTANCES_BODY = r"""
KEY = P['key']
atn = np.array(P['atnums']); co = np.array(P['coords'], dtype=float); n = len(atn)
rs = np.random.default_rng(P['seed'])
def radial(kind):
    if kind == 'zero-node': return OneDGrid(np.array([0.0, 0.5, 1.25, 2.5]), np.array([0.25, 0.5, 1.0, 1.5]), (0, np.inf))
    if kind == 'no-zero-node': return OneDGrid(np.array([0.1, 0.5, 1.25, 2.5]), np.array([0.25, 0.5, 1.0, 1.5]), (0, np.inf))
    return GaussLaguerre(int(kind))
BECKE_ORDER = [None, None]; LAST_HAND = [None]; META = {}
def make(spec):
    m = make0(spec); META[id(m)] = (list(BECKE_ORDER), LAST_HAND[0], m); return m
def make0(spec):
    # spec = (radial kind, degree, store, aim kind, constructor)
    rk, deg, store, aim, ctor = spec
    rg = radial(rk)
    BECKE_ORDER[:] = [None if aim == 'array' else int(aim), spec]
    if ctor == 'init':
        LAST_HAND[0] = [AtomGrid(rg, degrees=[deg], center=co[i], rotate=0) for i in range(n)]
    elif ctor == 'from_size':
        LAST_HAND[0] = [AtomGrid(rg, degrees=None, sizes=[{3: 6, 5: 14, 7: 26}[deg]], center=co[i], rotate=0) for i in range(n)]
    else:
        LAST_HAND[0] = [AtomGrid.from_preset(atnum=int(atn[i]), preset='coarse', rgrid=rg, center=co[i], rotate=0) for i in range(n)]
    if ctor == 'init':
        gs = [AtomGrid(rg, degrees=[deg], center=co[i], rotate=0) for i in range(n)]
        sz = sum(g.size for g in gs)
        return MolGrid(atn, gs, np.linspace(0.25, 1.0, sz) if aim == 'array' else BeckeWeights(order=int(aim)), store=store)
    if ctor == 'from_size': return MolGrid.from_size(atn, co, {3: 6, 5: 14, 7: 26}[deg], rg, None if aim == '3' else BeckeWeights(order=int(aim)) if aim != 'array' else None, rotate=0, store=store)
    return MolGrid.from_preset(atn, co, 'coarse', rg, rotate=0, store=store)
Q = rs.uniform(-2, 2, (P['npts'], 3))
def observe(m, stored):
    BECKE_ORDER, LAST_HAND = META[id(m)][0], [META[id(m)][1]]
    size = m.size
    f = np.cos(np.arange(size) * 0.37)
    out = [digest(m), float(m.integrate(f))] + [snap_grid(m.get_atomic_grid(k)) for k in range(n)] + [snap_grid(m[k])[1:] for k in range(n)]
    L = m.get_localgrid(co[0], 1.25); out.append(np.sort(np.asarray(L.indices)))
    if BECKE_ORDER[0] is not None:
        direct = np.asarray(BeckeWeights(order=BECKE_ORDER[0])(np.array(m.points, copy=True), co.copy(), atn.copy(), np.array(m.indices, copy=True)), dtype=float)
        dev = float(np.max(np.abs(direct - np.asarray(m.aim_weights, dtype=float)), initial=0.0))
        assert dev <= 1e-13, f'{KEY} :: the aim weights of the grid {BECKE_ORDER[1]} differ from BeckeWeights(order={BECKE_ORDER[0]}) evaluated directly on its points by {dev:.3g}'
        assert np.array_equal(m.weights, m.atweights * np.asarray(m.aim_weights)), f'{KEY} :: weights != atweights * aim_weights for the grid {BECKE_ORDER[1]}'
    pts_hand = np.concatenate([g.points for g in LAST_HAND[0]]) if LAST_HAND[0] is not None else None
    if pts_hand is not None:
        assert np.array_equal(m.points, pts_hand) and np.array_equal(m.atweights, np.concatenate([g.weights for g in LAST_HAND[0]])), f'{KEY} :: points / atweights of the grid {BECKE_ORDER[1]} are not those of its own atomic grids'

    if stored:
        out.append(np.array(m.interpolate(f)(Q.copy(), 1)))
    return out
for sa, sb in P['pairs']:
    sa, sb = tuple(sa), tuple(sb)
    for first, second in ((sa, sb), (sb, sa)):
        a = make(first); ref_a = observe(a, first[2])                      # before the other instance exists
        b = make(second); ref_b_after = observe(b, second[2])
        again_a = observe(a, first[2])
        assert eqv(again_a, ref_a), f'{KEY} :: the answers of the grid {first} changed after the grid {second} (differing in one setting) was built and used in the same process'
        a2 = make(first)
        assert eqv(observe(a2, first[2]), ref_a), f'{KEY} :: a second grid {first} built after the grid {second} differs from the one built before it'
        again_b = observe(b, second[2])
        assert eqv(again_b, ref_b_after), f'{KEY} :: the answers of the grid {second} changed while the grid {first} was used'
        REFS = globals().setdefault('REFS', {})
        for spec, val in ((first, ref_a), (second, ref_b_after)):
            if spec in REFS:
                assert eqv(REFS[spec], val), f'{KEY} :: the grid {spec} gives other answers when it is built {"after" if spec == second else "before"} the grid {first if spec == second else second} than in the opposite order'
        REFS[first] = ref_a
        if second not in REFS: REFS[second] = ref_b_after
DIGESTS = {repr(k): v[0] for k, v in globals().get('REFS', {}).items()}
# ---- the default radial grids of elements with different numbers of points, in both orders (the exponent of the power transform belongs to each grid)
from grid.utils import _DEFAULT_POWER_RTRANSFORM_PARAMS as TABLE
def closed(z):
    rmin, rmax, npt = TABLE[z]; conv = 1e-10 / 5.29177210903e-11; a, b = rmin * conv, rmax * conv
    p = (math.log(b) - math.log(a)) / math.log(npt); i = np.arange(1, npt + 1, dtype=float)
    return a * i ** p, p * a * i ** (p - 1)
for zs in P['zorders']:
    for z in zs:
        g = _generate_default_rgrid(z); pts, wts = closed(z)
        assert g.size == len(pts) and np.allclose(g.points, pts, rtol=1e-7, atol=0) and np.allclose(g.weights, wts, rtol=1e-7, atol=0), (
            f'{KEY} :: the default radial grid of Z={z}, requested in the order {zs}, is not rmin (i+1)^p with that element\'s own p (size {g.size} vs {len(pts)}, last point {g.points[-1]!r} vs {pts[-1]!r})')
    c2 = np.array([[0.0, 0.0, 2.0 * i] for i in range(len(zs))])
    m = MolGrid.from_size(np.array(zs), c2, 6, rotate=0, store=True)
    for i, z in enumerate(zs):
        pts, wts = closed(z)
        assert m.atgrids[i].rgrid.size == len(pts) and np.allclose(m.atgrids[i].rgrid.points, pts, rtol=1e-7, atol=0), f'{KEY} :: MolGrid.from_size(atnums={zs}, rgrid=None): atom {i} (Z={z}) did not get that element\'s default radial grid'
# ---- each instance alone in a fresh interpreter
procs = []
for spec in P['fresh']:
    code = P['prelude'] + 'P = ' + repr(dict(P, pairs=[[list(spec), list(spec)]], fresh=[], zorders=[], prelude='')) + P['body'] + "\nprint('DIGEST', DIGESTS[repr(tuple(P['pairs'][0][0]))])\n"
    env = dict(os.environ, PYTHONPATH=os.pathsep.join(p for p in sys.path if p))
    procs.append((tuple(spec), subprocess.Popen([sys.executable, '-c', code], stdout=subprocess.PIPE, stderr=subprocess.PIPE, text=True, env=env, cwd='/')))
for spec, pr in procs:
    out, err = pr.communicate(timeout=600)
    lines = [ln.split()[1] for ln in out.splitlines() if ln.startswith('DIGEST ')]
    if pr.returncode != 0 or len(lines) != 1:
        NOTES.append(f'fresh interpreter for {spec} failed: {err.strip().splitlines()[-1][:200] if err.strip() else out[:100]}'); continue
    assert lines[0] == DIGESTS[repr(spec)], f'{KEY} :: the grid {spec} built among the other instances differs from the same grid alone in a fresh interpreter (points / weights / atweights / aim_weights / indices / atcoords by hash)'
"""


def _prelude():
    base = _base()
    ext = importlib.import_module("harness.props.c07_ext")
    return base.KINDS_PRELUDE + "import io\n" + ext.EXT_PRELUDE + _r4().R4_PRELUDE


def _run(ctx, body, P, tag, nontrivial=True):
    base = _base()
    saved = base.KINDS_PRELUDE
    try:
        base.KINDS_PRELUDE = _prelude()
        return base._run_snippet(ctx, body, P, tag, nontrivial=nontrivial)
    finally:
        base.KINDS_PRELUDE = saved


def _mol(ctx, n, dmin=1.4, box=3.5):
    return _base()._lattice_mol(ctx, n, box=box, dmin=dmin)


def _split(rng, total, n):
    """n positive sizes adding up to `total`, pairwise different where possible, none a round number"""
    cuts = sorted(rng.sample(range(1, total), n - 1)) if n > 1 else []
    return [b - a for a, b in zip([0] + cuts, cuts + [total])]


def oracle_sizes(ctx: Ctx, budget):
    rng = ctx.rng
    large = budget == "large" or ctx.thorough
    odd = [1025, 4097, 20001, 31234, 65537]
    todo = []
    pick = odd if large else rng.sample(odd[:2], 1) + rng.sample(odd[2:], 1)
    for total in pick:                                          # array aim weights: cheap at any size
        n = rng.choice([1, 3, 7])
        todo.append(dict(sizes=_split(rng, total, n), aim="array", coords=None, npts=0))
    todo.append(dict(sizes=[rng.choice([1025, 1031])] + _split(rng, rng.choice([4097, 5003]), 2), aim="becke", coords=None, npts=0))   # Becke: chunked evaluation
    todo.append(dict(sizes=[rng.choice([1, 2, 3]) for _ in range(rng.choice([17, 33, 65]))], aim="array", coords=None, npts=0))     # many atoms
    todo.append(dict(sizes=[rng.choice([1, 2, 3, 5]) for _ in range(rng.choice([11, 17]))], aim="becke", coords=None, npts=0))      # natom^2 > points: chunks of 1-2
    todo.append(dict(sizes=[7, 11], aim="array", coords=None, npts=rng.choice([1025, 1031]) if not large else 4097))
    if ctx.thorough:
        todo.append(dict(sizes=_split(rng, 2 ** 19 + 1, 3), aim="array", coords=None, npts=0))
        todo.append(dict(sizes=_split(rng, 2 ** 20 + 7, 5), aim="array", coords=None, npts=0))
        todo.append(dict(sizes=_split(rng, 65537, 4), aim="becke", coords=None, npts=0))
        todo.append(dict(sizes=[5, 9], aim="array", coords=None, npts=20001))
    for t in todo:
        npts = t["npts"]
        P = dict(key="molgrid.MolGrid:sizes-past-block-boundaries", seed=rng.randrange(2 ** 31), radius=rng.choice([0.75, 2.0]),
                 cut=(rng.choice([1, 511, 1000]) if npts else 0), **t)
        total = sum(t["sizes"])
        _run(ctx, SIZES_BODY, P, f"oracle:sizes:{t['aim']}:{len(t['sizes'])}-atoms:{total}-points" + (f":{npts}-evaluation-points" if npts else ""))


def oracle_order(ctx: Ctx, budget):
    rng = ctx.rng
    large = budget == "large" or ctx.thorough
    base = _base()
    R = _r4().ROUTES
    for rep in range(3 if large else 1):
        n = rng.choice([2, 3, 4])
        perm = list(range(n))
        while perm == list(range(n)):
            rng.shuffle(perm)
        P = dict(key="molgrid.MolGrid:order-of-inputs", atnums=[rng.choice(base.ELEMENTS) for _ in range(n)], coords=_mol(ctx, n), rotate=rng.choice([0, 37]),
                 nrad=rng.choice([5, 6, 7]), degs=[rng.choice([3, 5]) for _ in range(n)],
                 cases=["reversed", "shuffled", "library:multiexp:descending", "library:becke-cheb:descending", "library:multiexp:ascending", "library:becke-cheb:ascending"],
                 routes=R if large else ["init"] + rng.sample(R[1:], 2), perm=perm, npts=rng.choice([2, 5, 8]), seed=rng.randrange(2 ** 31))
        _run(ctx, ORDER_BODY.replace("for cname in P['cases']:", "for cname in [c for c in P['cases'] if c in CASES]:"), P, "oracle:order-of-inputs")


def oracle_precision(ctx: Ctx, budget):
    rng = ctx.rng
    large = budget == "large" or ctx.thorough
    base = _base()
    kinds = ["longdouble", "float32", "float16", "int64", "int32"]
    for rep in range(2 if large else 1):
        n = rng.choice([2, 3])
        P = dict(key="molgrid.MolGrid:direct-precision-kinds", atnums=[rng.choice(base.ELEMENTS) for _ in range(n)], coords=_mol(ctx, n), rotate=rng.choice([0, 37]),
                 nrad=rng.choice([4, 5]), kinds=kinds if large else ["longdouble", "float16"] + rng.sample(["float32", "int64", "int32"], 1), npts=rng.choice([1, 2, 5]),
                 seed=rng.randrange(2 ** 31))
        ns = _run(ctx, PRECISION_BODY, P, "oracle:direct-precision-kinds")
        if ns is not None and ns.get("REJECTED"):
            ctx.extra.setdefault("input_kinds", {})["direct_precision_rejections"] = ns["REJECTED"]


def oracle_inplace(ctx: Ctx, budget):
    rng = ctx.rng
    large = budget == "large" or ctx.thorough
    base = _base()
    names = ["from_preset", "from_preset-dict", "from_size", "from_pruned_d", "from_pruned_s"]
    for rep in range(3 if large else 1):
        n = rng.choice([2, 3])
        a1 = [rng.choice(base.ELEMENTS) for _ in range(n)]
        a2 = [rng.choice([z for z in base.ELEMENTS if z != a1[i]]) for i in range(n)]
        P = dict(key="molgrid.MolGrid:argument-changed-in-place", atnums=a1, atnums2=a2, coords=_mol(ctx, n), coords2=_mol(ctx, n), rotate=rng.choice([0, 37]), nrad=rng.choice([4, 5]),
                 order=rng.sample(range(8), 8) if large else rng.sample(range(8), 5), calls=names if large else rng.sample(names, 3), npts=rng.choice([1, 2, 4]),
                 seed=rng.randrange(2 ** 31))
        _run(ctx, INPLACE_BODY, P, "oracle:argument-changed-in-place")


def oracle_instances(ctx: Ctx, budget):
    rng = ctx.rng
    large = budget == "large" or ctx.thorough
    base = _base()
    specs = {
        "store": (("4", 5, True, "3", "init"), ("4", 5, False, "3", "init")),
        "radial grid": (("4", 5, True, "3", "from_size"), ("5", 5, True, "3", "from_size")),
        "node at r = 0": (("zero-node", 5, True, "3", "init"), ("no-zero-node", 5, True, "3", "init")),
        "aim weights": (("4", 3, False, "3", "init"), ("4", 3, False, "2", "init")),
        "aim array": (("4", 5, True, "array", "init"), ("4", 5, True, "3", "init")),
        "degree": (("4", 5, True, "3", "from_size"), ("4", 7, True, "3", "from_size")),
        "constructor": (("4", 5, False, "3", "from_preset"), ("5", 5, False, "3", "from_preset")),
    }
    names = list(specs) if large else ["store", "node at r = 0"] + rng.sample(["radial grid", "aim weights", "aim array", "degree", "constructor"], 2)
    n = rng.choice([2, 3])
    pairs = [[list(specs[k][0]), list(specs[k][1])] for k in names]
    flat = [s for p in pairs for s in p]
    by_npt = [[1, 3], [3, 1], [2, 32, 1], [32, 36, 9]]
    body = INSTANCES_BODY
    P = dict(key="molgrid.MolGrid:instances-alive-together", atnums=[rng.choice(base.ELEMENTS) for _ in range(n)], coords=_mol(ctx, n), pairs=pairs, npts=rng.choice([1, 2, 4]),
             zorders=by_npt if large else rng.sample(by_npt[:2], 1) + rng.sample(by_npt[2:], 1),
             fresh=[list(s) for s in specs['node at r = 0']] + ([] if not large else rng.sample(flat, 3)),
             seed=rng.randrange(2 ** 31), prelude=_prelude(), body=body)
    _run(ctx, body, P, "oracle:instances-alive-together")


ORACLE_PARTS = [("sizes-past-block-boundaries", oracle_sizes), ("order-of-inputs", oracle_order), ("direct-precision-kinds", oracle_precision),
                ("argument-changed-in-place", oracle_inplace), ("instances-alive-together", oracle_instances)]


# -- elements without a tabulated Bragg-Slater radius (He, Ne, Ar, Kr, Xe, At, Rn): the default weights are Becke's formula with the documented
#    fallback radius (Z-1, then Z-2), and preset grids keep the charge of sharp Gaussians on such nuclei --------------------------------------
NANRADIUS_BODY = r"""
from grid.utils import get_cov_radii
KEY = P['key']
zs = P['atnums']; co = np.array(P['coords'], dtype=float); n = len(zs)
RAD = get_cov_radii(np.arange(1, 87), 'bragg')
def radius(z):
    # the documented rule: an element without a radius uses the one of Z-1 (of Z-2 if that is missing too)
    for k in (z, z - 1, z - 2):
        if not np.isnan(RAD[k - 1]): return float(RAD[k - 1])
    raise AssertionError(f'{KEY} :: no Bragg-Slater radius for Z = {z}, {z - 1}, {z - 2}')
def becke_ref(p, order):
    # plain scalar loops: Becke's cell functions with the size adjustment (|alpha| <= 0.45) and `order` iterations of the switching polynomial
    cell = []
    for a in range(n):
        prod = 1.0
        for b in range(n):
            if a == b: continue
            mu = (math.dist(p, co[a]) - math.dist(p, co[b])) / math.dist(co[a], co[b])
            u = (radius(zs[a]) - radius(zs[b])) / (radius(zs[a]) + radius(zs[b]))
            al = max(-0.45, min(0.45, u / (u * u - 1.0)))
            nu = mu + al * (1.0 - mu * mu)
            for _ in range(order): nu = 1.5 * nu - 0.5 * nu ** 3
            prod *= 0.5 * (1.0 - nu)
        cell.append(prod)
    tot = sum(cell)
    return [c / tot for c in cell]
# the reference itself: a partition of unity that gives a nucleus to its own atom
for a in range(n):
    w = becke_ref(co[a] + 1e-9, 3)
    assert abs(sum(w) - 1) < 1e-12 and w[a] > 1 - 1e-6, f'{KEY} :: reference check'
R0 = GaussLaguerre(P['nrad'])
def grids():
    out = []
    for route in P['routes']:
        for aim in P['aims']:
            order = 3 if aim == 'default' else int(aim)
            aw = None if aim == 'default' else BeckeWeights(order=order)
            if route.startswith('preset:'):
                pre = route.split(':')[1]
                if any(z > 82 or 57 < z < 72 for z in zs): continue        # no default radial grid for these elements
                m = MolGrid.from_preset(np.array(zs), co, pre, None, aw, rotate=P['rotate'], store=P['store'])
            elif route == 'from_size':
                m = MolGrid.from_size(np.array(zs), co, 26, R0, aw, rotate=P['rotate'], store=P['store'])
            else:
                hand = [AtomGrid(R0, degrees=[5], center=co[i], rotate=P['rotate']) for i in range(n)]
                m = MolGrid(np.array(zs), hand, aw if aw is not None else BeckeWeights(order=3), store=P['store'])
            out.append((route, aim, order, m))
    return out
for route, aim, order, m in grids():
    what = f'{route} on atoms {zs} (elements without a tabulated radius: {[z for z in zs if np.isnan(RAD[z - 1])]}), aim weights {aim}'
    aimw = np.asarray(m.aim_weights, dtype=float); ind = [int(x) for x in m.indices]
    assert aimw.shape == (m.size,) and np.all(np.isfinite(aimw)) and np.array_equal(m.weights, m.atweights * aimw), f'{KEY} :: {what}: weights != atweights * aim_weights / aim weights not finite'
    worst = (0.0, None)
    for a in range(n):
        seg = list(range(ind[a], ind[a + 1])); step = max(1, len(seg) // P['probe'])
        near = ind[a] + int(np.argmin(np.linalg.norm(m.points[ind[a]:ind[a + 1]] - co[a], axis=1)))
        for j in sorted(set(seg[::step] + [near, seg[-1]])):
            w = becke_ref(m.points[j], order)
            d = abs(w[a] - aimw[j])
            if d > worst[0]: worst = (d, (j, a, w[a], float(aimw[j])))
    assert worst[0] <= 1e-11, (f'{KEY} :: {what}: aim_weights[{worst[1][0]}] (a point of atom {worst[1][1]}) = {worst[1][3]!r}, Becke\'s formula with the '
                               f'Bragg-Slater radii (fallback Z-1 for elements without one) gives {worst[1][2]!r}')
    if route.startswith('preset:') and order == 3:       # the clause is about the default weights (order 1 alone misses ~1 % on the pinned tree)
        for al in P['alphas']:
            fv = sum((al / math.pi) ** 1.5 * np.exp(-al * ((m.points - c) ** 2).sum(axis=1)) for c in co)
            err = abs(float(m.integrate(fv)) - n) / n
            # measured on the pinned tree (coarse / medium, exponents 10 .. 30, molecules of He, Ne, Ar, Kr, Xe with H, C, O, F): <= 0.17 %
            assert err <= 0.01, f'{KEY} :: {what}: normalised Gaussians with exponent {al} on every nucleus integrate {err:.2%} off the total charge {n}'
"""


def oracle_nanradius(ctx: Ctx, budget):
    rng = ctx.rng
    large = budget == "large" or ctx.thorough
    noble = [2, 10, 18, 36, 54, 85, 86]
    plain = [1, 6, 8, 9]
    mols = [[z, z] for z in (noble if large else rng.sample(noble[:5], 2))]                  # homonuclear diatomics
    mols += [[z, rng.choice(plain)] for z in (noble if large else rng.sample(noble, 2))]      # with an ordinary partner
    mols += [[rng.choice(noble[:5]), rng.choice(plain), rng.choice(plain)], [rng.choice(noble[:3]), rng.choice(noble[:5]), rng.choice(plain), rng.choice(plain)]]
    if large:
        mols += [[2, 10, 18], [85, 8], [86, 1, 1]]
    for zs in mols:
        rng.shuffle(zs)
        n = len(zs)
        heavy = max(zs) >= 36
        P = dict(key="molgrid.MolGrid:elements-without-tabulated-radius", atnums=zs, coords=_mol(ctx, n, dmin=1.5, box=2.5), nrad=rng.choice([4, 5]),
                 rotate=rng.choice([0, 37]), store=rng.random() < 0.5,
                 routes=(["preset:coarse"] if (heavy and not large) else ["preset:" + rng.choice(["coarse", "medium"])] if not large else ["preset:coarse", "preset:medium"])
                 + [rng.choice(["from_size", "init"])] + (["from_size", "init"] if large else []),
                 aims=["default"] + ([str(rng.choice([1, 2, 4]))] if not large else ["2", "3", "5"]), probe=12 if not large else 40,
                 alphas=[10.0, 30.0] if not large else [10.0, 20.0, 30.0], seed=rng.randrange(2 ** 31))
        _run(ctx, NANRADIUS_BODY, P, f"oracle:nan-radius-elements:{n}-atoms")


ORACLE_PARTS = ORACLE_PARTS + [("elements-without-tabulated-radius", oracle_nanradius)]

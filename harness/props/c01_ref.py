"""C01 — the property itself, evaluated on ONE constructed rule against independent references.

Stand-alone on purpose (numpy, mpmath, fractions and the library only): the text of this file is what a
replay snippet consists of, followed by the constructions that preceded the failing one and a call of
`check`.  Nothing here re-types a formula of the implementation: interpolatory rules are tested on
exact rational moments, the weight-divided Gauss rules on exact weighted moments (mpmath), closed-form
and variable-substitution rules on their documented node/weight definitions (mpmath, derivative by
numerical differentiation in 40 digits), Trefethen rules on `g(base nodes)`, `g'(base nodes) x base
weights` with the base rule checked first.
"""
import math
import warnings
from fractions import Fraction

import mpmath as mp
import numpy as np

from grid import onedgrid as og

warnings.filterwarnings("ignore")
mp.mp.dps = 40

INTERP = {  # class -> nominal degree as a function of n
    "GaussLegendre": lambda n: 2 * n - 1,
    "ClenshawCurtis": lambda n: n - 1,
    "FejerFirst": lambda n: n - 1,
    "Simpson": lambda n: 3,
    "Trapezoidal": lambda n: 1,
    "MidPoint": lambda n: 1,
}
PHI = {
    "TanhSinh": (lambda t: mp.tanh(mp.pi / 2 * mp.sinh(t)), (-1.0, 1.0), 2.9),
    "ExpSinh": (lambda t: mp.exp(mp.pi / 2 * mp.sinh(t)), (0.0, math.inf), 6.0),
    "LogExpSinh": (lambda t: mp.log(mp.exp(mp.pi / 2 * mp.sinh(t)) + 1), (0.0, math.inf), 3.5),
    "ExpExp": (lambda t: mp.exp(t) * mp.exp(-mp.exp(-t)), (0.0, math.inf), 6.0),
    "SingleTanh": (mp.tanh, (-1.0, 1.0), 6.0),
    "SingleExp": (mp.exp, (0.0, math.inf), 6.0),
    "SingleArcSinhExp": (lambda t: mp.asinh(mp.exp(t)), (0.0, math.inf), 6.0),
}
STEP_DEFAULT = {"TanhSinh": 0.1, "ExpSinh": 1.0}


def gpoly(d):
    return {1: lambda x: x, 5: lambda x: (120 * x + 20 * x**3 + 9 * x**5) / 149,
            9: lambda x: (40320 * x + 6720 * x**3 + 3024 * x**5 + 1800 * x**7 + 1225 * x**9) / 53089}[int(d)]


def gstrip(rho):
    rho = mp.mpf(float(rho))
    tau = mp.pi / mp.log(rho)
    td = mp.mpf(1) / 2 + 1 / (mp.exp(tau * mp.pi) + 1)
    cn = 1 / (mp.log(1 + mp.exp(-tau * mp.pi)) - mp.log(2) + mp.pi * tau * td / 2)

    def g(x):
        u = mp.asin(x)
        return cn * (mp.log(1 + mp.exp(-tau * (mp.pi / 2 + u))) - mp.log(1 + mp.exp(-tau * (mp.pi / 2 - u))) + td * tau * u)
    return g


def fejer2(n):
    """-> (nodes, weights of the complete series j = 1..(n+1)//2, contribution of the term j = (n+1)//2), ascending nodes"""
    N = n + 1
    J = N // 2
    if n > 200:   # binary64 is enough for the 1e-12 comparison and 4e6 mpmath operations are not affordable
        th = np.pi * (n - np.arange(n)) / N
        jj = 2 * np.arange(1, J + 1) - 1
        ws = 4 * np.sin(th) / N * (np.sin(np.outer(th, jj)) / jj).sum(axis=1)
        return np.cos(th), ws, 4 * np.sin(th) / N * np.sin((2 * J - 1) * th) / (2 * J - 1)
    th = [mp.pi * (n - i) / N for i in range(n)]          # descending angles = ascending nodes
    xs = [mp.cos(t) for t in th]
    ws = [4 * mp.sin(t) / N * mp.fsum(mp.sin((2 * j - 1) * t) / (2 * j - 1) for j in range(1, J + 1)) for t in th]
    miss = [4 * mp.sin(t) / N * mp.sin((2 * J - 1) * t) / (2 * J - 1) for t in th]
    return xs, ws, miss


def _high_degrees(deg):
    """degrees 131..deg that are tested with Chebyshev polynomials: the top 40 and about 40 in between"""
    if deg <= 130:
        return []
    return sorted(set(range(max(131, deg - 40), deg + 1)) | set(range(131, deg + 1, max(1, (deg - 130) // 40))))


def build(cls, args):
    """the constructor call; a class name among the arguments (TrefethenGeneral) is resolved in `og`"""
    a = [getattr(og, x) if isinstance(x, str) and hasattr(og, x) else x for x in args]
    return getattr(og, cls)(*a)


def _shape(g, n, lo, hi, strict, label):
    p = np.asarray(g.points, dtype=float)
    w = np.asarray(g.weights, dtype=float)
    assert len(p) == n and len(w) == n, f"{label}: {len(p)} nodes / {len(w)} weights instead of {n}"
    assert tuple(float(v) for v in g.domain) == (lo, hi), f"{label}: declared domain {g.domain}, expected {(lo, hi)}"
    assert not np.any(np.isnan(p)), f"{label}: NaN among the nodes"
    d = np.diff(p)
    bad = (d <= 0) if strict else (d < 0)
    if np.any(bad):
        i = int(np.argmax(bad))
        raise AssertionError(f"{label}: nodes not in {'strictly ' if strict else ''}ascending order at index {i}: {p[i:i + 2].tolist()}")
    slack = 1e-12 if strict else 1e-7
    assert p[0] >= lo - slack and p[-1] <= hi + slack, f"{label}: nodes [{p[0]!r}, {p[-1]!r}] outside the declared domain ({lo}, {hi})"
    return p, w


def _nodes_weights(label, p, w, xs, ws, tol=1e-12, rel=False):
    for i in range(len(p)):
        if xs is not None:
            assert abs(p[i] - float(xs[i])) <= tol * (max(1.0, abs(float(xs[i]))) if rel else 1.0), \
                f"{label}: node {i} = {p[i]!r}, definition gives {float(xs[i])!r}"
        if ws is not None:
            assert abs(w[i] - float(ws[i])) <= tol * (max(1.0, abs(float(ws[i]))) if rel else 1.0), \
                f"{label}: weight {i} = {w[i]!r}, definition gives {float(ws[i])!r}"


def check(cls, args, g=None, fejer2_known_defect=True):
    """AssertionError iff the rule `cls(*args)` (or the given object `g` built that way) violates the clause of
    C01 for its class.  `fejer2_known_defect=True`: FejerSecond is compared with "complete series minus the
    term j = (n+1)//2" (the listed finding), so that only a deviation *beyond* the finding is reported."""
    n = int(args[0])
    if g is None:
        g = build(cls, args)
    label = f"{cls}({', '.join(repr(a) for a in args)})"
    tolm = 2e-12 * max(1.0, n / 64)
    if cls in INTERP:
        p, w = _shape(g, n, -1.0, 1.0, True, label)
        ref = {
            "Trapezoidal": lambda: [mp.mpf(-1) + mp.mpf(2 * i) / (n - 1) for i in range(n)],
            "Simpson": lambda: [mp.mpf(-1) + mp.mpf(2 * i) / (n - 1) for i in range(n)],
            "MidPoint": lambda: [mp.mpf(-1) + mp.mpf(2 * i + 1) / n for i in range(n)],
            "ClenshawCurtis": lambda: [-mp.cos(i * mp.pi / (n - 1)) for i in range(n)],
            "FejerFirst": lambda: [-mp.cos((2 * i + 1) * mp.pi / (2 * n)) for i in range(n)],
        }.get(cls)
        if ref is not None and n <= 400:
            _nodes_weights(label, p, w, ref(), None)
        pts, wts = [float(x) for x in p], [float(x) for x in w]
        deg = INTERP[cls](n)
        for k in range(min(deg, 130) + 1):
            got = math.fsum(wi * xi**k for wi, xi in zip(wts, pts))
            want = Fraction(0) if k % 2 else Fraction(2, k + 1)
            assert abs(got - float(want)) <= tolm, \
                f"{label} does not integrate x^{k} exactly: sum w_i x_i^{k} = {got!r}, integral over [-1,1] = {want} (nominal degree {deg})"
        # beyond degree 130: Chebyshev polynomials T_k (well conditioned), the top 40 degrees and a sample in between
        th = np.arccos(np.clip(p, -1.0, 1.0))
        for k in _high_degrees(deg):
            got = float(np.sum(w * np.cos(k * th)))
            want = 0.0 if k % 2 else 2.0 / (1.0 - float(k) ** 2)
            assert abs(got - want) <= tolm, \
                f"{label} does not integrate the Chebyshev polynomial T_{k} exactly: sum w_i T_{k}(x_i) = {got!r}, integral over [-1,1] = {want!r} (nominal degree {deg})"
        return
    if cls == "FejerSecond":
        p, w = _shape(g, n, -1.0, 1.0, True, label)
        xs, ws, miss = fejer2(n)
        if fejer2_known_defect:
            _nodes_weights(label + " [vs complete sine series minus its last term]", p, w, xs, [a - b for a, b in zip(ws, miss)])
        else:
            _nodes_weights(label, p, w, xs, ws)
        return
    if cls in ("GaussChebyshev", "GaussChebyshevType2", "GaussLaguerre"):
        alpha = float(args[1]) if len(args) > 1 else 0.0
        lo, hi = (0.0, math.inf) if cls == "GaussLaguerre" else (-1.0, 1.0)
        p, w = _shape(g, n, lo, hi, True, label)
        if cls == "GaussChebyshev":
            _nodes_weights(label, p, w, [-mp.cos((2 * i + 1) * mp.pi / (2 * n)) for i in range(n)], None)
            om = 1 / np.sqrt(1 - p**2)
            exact = lambda k: 0 if k % 2 else mp.pi * mp.binomial(k, k // 2) / 2**k
        elif cls == "GaussChebyshevType2":
            _nodes_weights(label, p, w, [-mp.cos((i + 1) * mp.pi / (n + 1)) for i in range(n)], None)
            om = np.sqrt(1 - p**2)
            exact = lambda k: 0 if k % 2 else mp.pi * mp.binomial(k, k // 2) / 2**k / (k + 2)
        else:
            om = p**alpha * np.exp(-p)
            exact = lambda k: mp.gamma(k + alpha + 1)
        wo = w * om
        kmax = min(2 * n, 130)
        if cls == "GaussLaguerre":   # keep Gamma(k + alpha + 1) and x_max^k inside binary64
            kmax = max(1, min(kmax, int(150 - alpha), int(280 / max(1.0, math.log10(max(float(p[-1]), 10.0))))))
        for k in range(kmax):
            got, want = float(np.sum(wo * p**k)), float(exact(k))
            assert abs(got - want) <= 5e-12 * max(1.0, n / 64) * max(1.0, abs(want)), \
                f"{label}: sum w_i omega(x_i) x_i^{k} = {got!r}, integral of omega*x^{k} = {want!r}"
        if cls != "GaussLaguerre":
            # beyond degree 130: T_k against the Chebyshev weights (type 1: pi at k = 0; type 2: pi/2 at 0, -pi/4 at 2; else 0)
            th = np.arccos(np.clip(p, -1.0, 1.0))
            for k in _high_degrees(2 * n - 1):
                got = float(np.sum(wo * np.cos(k * th)))
                assert abs(got) <= 5e-12 * max(1.0, n / 64), \
                    f"{label}: sum w_i omega(x_i) T_{k}(x_i) = {got!r}, integral of omega*T_{k} = 0 (degree {k} <= 2n-1)"
        return
    if cls in ("GaussChebyshevLobatto", "RectangleRuleSineEndPoints", "UniformInteger"):
        lo, hi = (0.0, math.inf) if cls == "UniformInteger" else (-1.0, 1.0)
        p, w = _shape(g, n, lo, hi, True, label)
        if cls == "GaussChebyshevLobatto":
            xs = [-mp.cos(i * mp.pi / (n - 1)) for i in range(n)]
            ws = [mp.pi * mp.sin(i * mp.pi / (n - 1)) / (n - 1) / (2 if i in (0, n - 1) else 1) for i in range(n)]
        elif cls == "UniformInteger":
            xs, ws = [mp.mpf(i) for i in range(n)], [mp.mpf(1)] * n
        else:
            x0 = [mp.mpf(i) / (n + 1) for i in range(1, n + 1)]
            xs = [2 * t - 1 for t in x0]
            mm = range(1, n + 1, 2) if n <= 200 else []
            ws = [2 * mp.mpf(2) / (n + 1) * mp.fsum(mp.sin(m * mp.pi * t) * 2 / (m * mp.pi) for m in mm) for t in x0] if n <= 200 else None
        _nodes_weights(label, p, w, xs, ws)
        return
    if cls in PHI:
        phi, (lo, hi), tmax = PHI[cls]
        h = float(args[1]) if len(args) > 1 else STEP_DEFAULT.get(cls, 0.1)
        strict = h * (n - 1) / 2 <= tmax and h * h > 1e-30
        p, w = _shape(g, n, lo, hi, strict, label)
        if not strict:
            return
        m = (n - 1) // 2
        idx = range(n) if n <= 41 else sorted({0, 1, n - 2, n - 1, m, m + 1, n // 3, (2 * n) // 3})
        for i in idx:
            t = (i - m) * mp.mpf(h)
            node, want = float(phi(t)), float(mp.mpf(h) * mp.diff(phi, t))
            assert abs(p[i] - node) <= 1e-10 * abs(node) + 1e-14, f"{label}: node {i} = {p[i]!r}, node map gives {node!r}"
            assert abs(w[i] - want) <= 1e-9 * abs(want), f"{label}: weight {i} = {w[i]!r}, step x derivative of the node map = {want!r}"
        return
    if cls.startswith("Trefethen"):
        if "General" in cls:
            base, par = args[1], args[2] if len(args) > 2 else (9 if "Strip" not in cls else 1.1)
        else:
            base = "ClenshawCurtis" if cls.endswith("CC") else "GaussChebyshevType2"
            par = args[1] if len(args) > 1 else (9 if "Strip" not in cls else 1.1)
        check(base, (n,))                                   # the base rule first
        b = build(base, (n,))
        p, w = _shape(g, n, -1.0, 1.0, True, label)
        gm = gstrip(par) if "Strip" in cls else gpoly(par)
        for s in (-1, 1):
            assert abs(float(gm(mp.mpf(s))) - s) <= 1e-14, f"{label}: map sends {s} to {float(gm(mp.mpf(s)))!r}"
        idx = range(n) if n <= 41 else sorted({0, 1, n - 2, n - 1, n // 2, n // 3})
        for i in idx:
            x = float(b.points[i])
            if abs(abs(x) - 1) < 1e-6:
                xe = mp.mpf(x) * (1 - mp.mpf(10) ** -24)
                dg = mp.diff(gm, xe, h=mp.mpf(10) ** -30) if "Strip" in cls else mp.diff(gm, mp.mpf(x))
                tolw = 1e-7
            else:
                dg, tolw = mp.diff(gm, mp.mpf(x)), 1e-9
            want = float(dg) * float(b.weights[i])
            assert abs(p[i] - float(gm(mp.mpf(x)))) <= 1e-11, f"{label}: node {i} = {p[i]!r}, map of the base node gives {float(gm(mp.mpf(x)))!r}"
            assert abs(w[i] - want) <= tolw * max(abs(want), 1e-3), f"{label}: weight {i} = {w[i]!r}, base weight x derivative of the map = {want!r}"
        return
    raise AssertionError(f"no reference for class {cls}")

"""C13 — rectilinear grids: tensor layout, index maps, weights, helpers."""
import contextlib
import importlib
import io
import itertools
import math
import os
import shutil
from fractions import Fraction

import numpy as np

from ..common import LEAN, Ctx, Tokens, close, driver_batch, f2b, fmat, fvec, vec

LEVEL = "proof"
LEVEL_TEXT = (
    "Lean theorems, for every shape in 2-D and 3-D: the regenerated integer code of index_to_coordinates / "
    "coordinates_to_index is a bijection between flat indices and integer coordinates (both round trips); the model of the "
    "point array holds origin + i*a1 + j*a2 + k*a3 (resp. the tuple of 1-D nodes) at the flat index of (i,j,k), last index "
    "fastest; tensor weights are products of the 1-D weights and separable integrands integrate to the product of the 1-D "
    "sums; Rectangle/Trapezoid/Alternative weights sum to V, V*prod s/(s+1), V*prod (s-1)/s with |sum/V - 1| <= sum 1/s_i; "
    "the 1-D Fourier2 factor sums to 0 for every even n, so the 3-D weights sum to 0 whenever an axis has an even number of points and the scheme violates the bound (negation proved at a witness), "
    "and raises in 2-D; from_molecule(rotate=False) in closed form for every molecule: it keeps the margin when the centre of "
    "charge is the centre of the extent and violates it otherwise (negation proved at a witness); with rotate=True the box is "
    "laid out along the rows of the eigenvector matrix while the extent is measured along its columns (witness proved); "
    "closest_point returns the flat index of a nearest node of the grid for every non-zero diagonal axes (either sign) and "
    "every query point inside or outside the box (clipped rounded fractional coordinate, per-axis separability), and the "
    "lower corner of the enclosing sub-cube for which='origin'; "
    "the modelled cubic method (index/slice bookkeeping as coded) equals the interpolation nested along z, y, x over the inner "
    "nodes 1..s-3 of each axis, and nested interpolation over any 1-D operator exact on cubics reproduces every "
    "tensor-cubic polynomial and its partial derivatives; the Bell-polynomial chain rule of the logarithmic variant up to order 3. "
    "Exploration only (labelled): the Fourier1 bound (all shapes <= 40 per axis enumerated), the cube-file text round trip, "
    "SciPy's CubicSpline/RegularGridInterpolator contracts."
)
TECHNIQUE = ("Lean 4 proof over the regenerated index code (AST translator) and a hand model tied by differential runs; "
             "exhaustive enumeration for the Fourier1 bound; randomized round trips for cube files")
GEN = ["cubic_index"]
LEAN_MODULES = ["GridVerif.Props.C13.Index", "GridVerif.Props.C13.Weights", "GridVerif.Props.C13.Helpers",
                "GridVerif.Props.C13.Interp", "GridVerif.Props.C13.InterpModel"]
THEOREMS = [
    # Index
    "GridVerif.C13.coordinates_to_index_eq3",
    "GridVerif.C13.coordinates_to_index_eq2",
    "GridVerif.C13.index_roundtrip3",
    "GridVerif.C13.index_roundtrip2",
    "GridVerif.C13.coords_roundtrip3",
    "GridVerif.C13.coords_roundtrip2",
    "GridVerif.C13.index_negative_rejected",
    "GridVerif.C13.layout3",
    "GridVerif.C13.layout2",
    "GridVerif.C13.point_formula3",
    "GridVerif.C13.point_formula2",
    "GridVerif.C13.last_index_fastest3",
    "GridVerif.C13.last_index_fastest2",
    "GridVerif.C13.tensor_layout3",
    "GridVerif.C13.tensor_layout2",
    "GridVerif.C13.tensor_weight3",
    "GridVerif.C13.tensor_weight2",
    "GridVerif.C13.separable_integral3",
    "GridVerif.C13.separable_integral2",
    # Weights
    "GridVerif.C13.volume_eq3",
    "GridVerif.C13.volume_eq2",
    "GridVerif.C13.rectangle_sum",
    "GridVerif.C13.trapezoid_sum",
    "GridVerif.C13.alternative_sum",
    "GridVerif.C13.rectangle_bound",
    "GridVerif.C13.trapezoid_bound",
    "GridVerif.C13.alternative_bound",
    "GridVerif.C13.fourier2_raises_2d",
    "GridVerif.C13.fourier2_dir_sum_two",
    "GridVerif.C13.fourier2_sum_zero_at",
    "GridVerif.C13.fourier2_dir_sum_even",
    "GridVerif.C13.fourier2_sum_zero_even",
    "GridVerif.C13.fourier2_bound_fails_at",
    "GridVerif.C13.weight_schemes_full_false",
    # Helpers
    "GridVerif.C13.from_molecule_margin_partial",
    "GridVerif.C13.from_molecule_spec",
    "GridVerif.C13.from_molecule_margin_centred",
    "GridVerif.C13.from_molecule_witness",
    "GridVerif.C13.from_molecule_margin_fails_at",
    "GridVerif.C13.from_molecule_margin_full_false",
    "GridVerif.C13.from_molecule_rotate_witness",
    "GridVerif.C13.from_molecule_rotate_fails_at",
    "GridVerif.C13.closest_point_spec3",
    "GridVerif.C13.closest_point_spec2",
    "GridVerif.C13.axis_nearest_clip",
    "GridVerif.C13.closest_point_full_holds",
    "GridVerif.C13.closest_point_origin_spec3",
    "GridVerif.C13.closest_point_repaired_at",
    # Interp
    "GridVerif.C13.nested_interp_exact",
    "GridVerif.C13.tensor_cubic_partial_derivs",
    "GridVerif.C13.log_chain_rule",
    # InterpModel
    "GridVerif.C13.interp_cubic_eq_nested",
    "GridVerif.C13.interp_cubic_exact",
    "GridVerif.C13.uniform_diag_is_tensor",
]
RULE = (
    "correspondence: random shapes (2..9 per axis, non-cubic), dims 2 and 3, every flat index and every coordinate of "
    "the grid plus out-of-range/negative ones sent to index_to_coordinates / coordinates_to_index and to the generated "
    "Lean code; UniformGrid(origin, skewed axes, shape, scheme) for all five schemes (+ unknown name, shape with 0/1, "
    "singular axes) compared point by point and weight by weight; Tensor1DGrids from random 1-D grids; from_molecule "
    "(rotate off / on with eigh's matrix handed over); closest_point (both modes, +/- diagonal and non-diagonal axes, "
    "points inside and outside); cubic/log interpolation of tensor-cubic data with a 4-point operator in the model; "
    "non-trivial = non-cubic shape or skewed axes or an error branch or a derivative order > 0"
)
TRUSTED_BASE = [
    "Lean 4.33 kernel; axioms propext, Classical.choice, Quot.sound only (audited per theorem)",
    "translator harness/translate/cubic_index.py (AST of index_to_coordinates / coordinates_to_index -> Lean do-blocks over Model/CubicPy.lean)",
    "hand model Model/Cubic.lean (meshgrid/reshape/kron/einsum as list programs), tied by differential runs",
    "Rounding instance for the reals (ceil/floor = Int.ceil/Int.floor, rint = a nearest integer, ties to even)",
    "SciPy CubicSpline (exact on cubics with >= 4 nodes, not-a-knot) and RegularGridInterpolator: hypotheses of the interpolation theorems",
    "NumPy eigh in from_molecule(rotate=True): its matrix is an input of the model",
]
ASSUMPTIONS = [
    "IEEE rounding not modelled: equalities over the reals, tolerances in the differential runs",
    "cube files: text formatting/parsing is external; the round trip is explored on random grids, atoms, data (both unit conventions)",
    "the Fourier1 bound is decided by enumeration of all shapes <= 40 per axis (2-D directly, 3-D through the per-axis factors checked on samples)",
    "interpolation is restricted to axis-aligned grids with increasing nodes (the code takes the nodes from one coordinate column)",
]

SCHEMES = ["Rectangle", "Trapezoid", "Fourier1", "Fourier2", "Alternative"]
EXC = {ValueError: "value-error", IndexError: "index-error", TypeError: "type-error",
       NotImplementedError: "not-implemented", ZeroDivisionError: "zero-division"}


def _cubic():
    return importlib.import_module("grid.cubic")


def _tag(e):
    for k, v in EXC.items():
        if isinstance(e, k):
            return v
    return "exc-" + type(e).__name__


# ----------------------------------------------------------------------------
# generators
# ----------------------------------------------------------------------------
def rand_shape(rng, dim, lo=2, hi=9, noncubic=True):
    while True:
        s = [rng.randrange(lo, hi + 1) for _ in range(dim)]
        if not noncubic or len(set(s)) > 1:
            return s


def rand_axes(rng, dim, kind):
    """kind: diag+, diag+-, skew"""
    while True:
        a = np.zeros((dim, dim))
        for i in range(dim):
            a[i, i] = rng.choice([0.1, 0.25, 0.3, 0.5, 0.75, 1.0, 1.3]) * (1 if kind != "diag+-" or rng.random() < 0.5 else -1)
        if kind == "skew":
            a = a + np.array([[rng.uniform(-0.4, 0.4) for _ in range(dim)] for _ in range(dim)])
            if rng.random() < 0.3:
                a = -a
        if abs(np.linalg.det(a)) > 1e-3:
            return a


def rand_origin(rng, dim):
    return np.array([rng.choice([0.0, -1.0, 0.5, rng.uniform(-3, 3)]) for _ in range(dim)])


def bare_grid(cub, shape):
    """A real grid object of that shape (unit axes) to call the index methods on."""
    d = len(shape)
    return cub.UniformGrid(np.zeros(d), np.eye(d), np.array(shape), weight="Rectangle")


# ----------------------------------------------------------------------------
# correspondence
# ----------------------------------------------------------------------------
def corr(ctx: Ctx):
    cub = _cubic()
    rng = ctx.rng
    _corr_index(ctx, cub, rng)
    _corr_ugrid(ctx, cub, rng)
    _corr_tensor(ctx, cub, rng)
    _corr_from_molecule(ctx, cub, rng)
    _corr_closest(ctx, cub, rng)
    _corr_interp(ctx, cub, rng)


def _corr_index(ctx, cub, rng):
    shapes = [[2, 2], [2, 3], [3, 2], [2, 2, 2], [2, 3, 4], [4, 3, 2], [3, 2, 5]]
    shapes += [rand_shape(rng, rng.choice([2, 3])) for _ in range(ctx.n(25, 400))]
    lines, impl, cases = [], [], []
    for shape in shapes:
        g = bare_grid(cub, shape)
        d = len(shape)
        n = int(np.prod(shape))
        idxs = list(range(n)) + [n, n + 1, n + rng.randrange(2, 50), -1, -rng.randrange(2, 9)]
        for idx in idxs:
            lines.append(f"C13.i2c {d} {vec(shape)} {idx}")
            try:
                r = g.index_to_coordinates(idx)
                impl.append("ok " + vec([int(x) for x in r]))
            except Exception as e:
                impl.append(_tag(e))
            cases.append((["i2c", shape, idx], 0 <= idx < n, f"i2c:{d}d:" + ("in" if 0 <= idx < n else ("neg" if idx < 0 else "beyond"))))
        coords = list(itertools.product(*[range(s) for s in shape]))
        coords += [tuple(rng.randrange(-3, s + 4) for s in shape) for _ in range(6)]
        for c in coords:
            lines.append(f"C13.c2i {d} {vec(shape)} {vec(c)}")
            try:
                impl.append(f"ok {int(g.coordinates_to_index(c))}")
            except Exception as e:
                impl.append(_tag(e))
            inr = all(0 <= x < s for x, s in zip(c, shape))
            cases.append((["c2i", shape, list(c)], True, f"c2i:{d}d:" + ("in" if inr else "out")))
    model = driver_batch(lines)
    for (case, nt, tag), a, b, ln in zip(cases, impl, model, lines):
        ctx.count(case, nontrivial=nt and len(set(case[1])) > 1, tag=tag)
        if a != b:
            ctx.fail("corr", f"index:{case[0]}:{len(case[1])}d", f"{ln}: implementation {a}, generated Lean code {b}",
                     witness={"op": case[0], "shape": case[1], "arg": case[2], "impl": a, "model": b})


def _fl(xs):
    return [float(x) for x in np.asarray(xs).ravel()]


def _cmp_floats(a, b, rtol, scale):
    return len(a) == len(b) and all(close(x, y, rtol=rtol, scale=max(scale, abs(x), abs(y))) for x, y in zip(a, b))


def _corr_ugrid(ctx, cub, rng):
    cases = []
    for dim in (2, 3):
        for sch in SCHEMES:
            cases.append((dim, sch, [2, 3, 4][:dim], "skew"))
    for _ in range(ctx.n(60, 1500)):
        dim = rng.choice([2, 3])
        cases.append((dim, rng.choice(SCHEMES), rand_shape(rng, dim, 2, 7 if dim == 3 else 9), rng.choice(["skew", "skew", "diag+", "diag+-"])))
    # guard branches
    for dim in (2, 3):
        cases.append((dim, "BadName", [2, 3, 4][:dim], "skew"))
        cases.append((dim, "Trapezoid", [3, 1, 4][:dim], "skew"))
        cases.append((dim, "Fourier2", [1, 3, 4][:dim], "diag+"))
        cases.append((dim, "Alternative", [3, 0, 4][:dim], "skew"))
        cases.append((dim, "Rectangle", [3, -2, 4][:dim], "skew"))
        cases.append((dim, "Rectangle", [2, 3, 4][:dim], "singular"))
    lines, impl, meta = [], [], []
    for dim, sch, shape, kind in cases:
        if kind == "singular":
            axes = np.ones((dim, dim))
        else:
            axes = rand_axes(rng, dim, kind)
        origin = rand_origin(rng, dim)
        lines.append(f"C13.ugrid {sch} {fvec(origin)} {fmat(axes)} {vec(shape)}")
        try:
            g = cub.UniformGrid(origin, axes, np.array(shape), weight=sch)
            impl.append(("ok", g.points, g.weights))
        except Exception as e:
            impl.append((_tag(e),))
        meta.append((dim, sch, shape, kind, origin, axes))
    model = driver_batch(lines)
    for (dim, sch, shape, kind, origin, axes), a, b in zip(meta, impl, model):
        nt = kind == "skew" or a[0] != "ok" or len(set(shape)) > 1
        ctx.count(["ugrid", sch, shape, kind, _fl(origin), _fl(axes)], nontrivial=nt, tag=f"ugrid:{dim}d:{sch}:" + ("ok" if a[0] == "ok" else a[0]))
        key = f"ugrid:{sch}:{dim}d"
        wit = {"scheme": sch, "shape": shape, "origin": _fl(origin), "axes": axes.tolist()}
        if a[0] != "ok" or not b.startswith("ok"):
            if a[0] != b.split()[0]:
                ctx.fail("corr", key, f"UniformGrid({sch}, shape={shape}): implementation {a[0]}, model {b[:60]}", witness=wit)
            continue
        t = Tokens(b)
        t.tok()
        mp = t.fmat()
        mw = t.fvec()
        pts = a[1].tolist()
        scale = float(np.abs(a[1]).max()) + 1.0
        if len(mp) != len(pts) or any(not _cmp_floats(r, s, 1e-12, scale) for r, s in zip(mp, pts)):
            bad = next((i for i, (r, s) in enumerate(zip(mp, pts)) if not _cmp_floats(r, s, 1e-12, scale)), None)
            ctx.fail("corr", key + ":points", f"UniformGrid(shape={shape}) points differ from the model at row {bad}: "
                     f"impl {pts[bad] if bad is not None else len(pts)}, model {mp[bad] if bad is not None else len(mp)}", witness=wit)
        ws = _fl(a[2])
        wscale = max(abs(x) for x in ws + mw) if ws else 1.0
        if not _cmp_floats(ws, mw, 1e-9, wscale):
            bad = next((i for i, (r, s) in enumerate(zip(ws, mw)) if not close(r, s, rtol=1e-9, scale=wscale)), None)
            ctx.fail("corr", key + ":weights", f"UniformGrid({sch}, shape={shape}) weights differ from the model"
                     + (f" at {bad}: impl {ws[bad]!r}, model {mw[bad]!r}" if bad is not None else f": lengths {len(ws)} vs {len(mw)}"), witness=wit)


def _rand_oned(rng, n, sorted_=True):
    from grid.basegrid import OneDGrid
    pts = np.cumsum([rng.uniform(0.1, 1.0) for _ in range(n)]) + rng.uniform(-3, 1)
    if not sorted_:
        pts = np.array(rng.sample(list(pts), n))
    w = np.array([rng.uniform(-0.2, 1.0) for _ in range(n)])
    return OneDGrid(pts, w)


def _corr_tensor(ctx, cub, rng):
    lines, impl, meta = [], [], []
    for it in range(ctx.n(25, 500)):
        dim = 2 + (it % 2)
        shape = rand_shape(rng, dim, 2, 6)
        gs = [_rand_oned(rng, s, sorted_=rng.random() < 0.7) for s in shape]
        lines.append("C13.tensor " + vec(shape) + " " + " ".join(fvec(g.points) + " " + fvec(g.weights) for g in gs))
        g = cub.Tensor1DGrids(*gs)
        impl.append((g.points, g.weights))
        meta.append((shape, gs))
    model = driver_batch(lines)
    for (shape, gs), (p, w), b in zip(meta, impl, model):
        ctx.count(["tensor", shape, _fl(gs[0].points)], tag=f"tensor:{len(shape)}d")
        if not b.startswith("ok"):
            ctx.fail("corr", "tensor", f"Tensor1DGrids shape {shape}: model answered {b}")
            continue
        t = Tokens(b)
        t.tok()
        mp, mw = t.fmat(), t.fvec()
        ok = len(mp) == len(p) and all(_cmp_floats(r, s, 0, 0.0) for r, s in zip(mp, p.tolist()))
        if not ok:
            ctx.fail("corr", "tensor:points", f"Tensor1DGrids shape {shape}: points are not the model's tensor product",
                     witness={"shape": shape, "nodes": [_fl(g.points) for g in gs]})
        if not _cmp_floats(_fl(w), mw, 1e-13, 0.0):
            ctx.fail("corr", "tensor:weights", f"Tensor1DGrids shape {shape}: weights are not the model's kron products",
                     witness={"shape": shape, "weights": [_fl(g.weights) for g in gs]})


def rand_molecule(rng, symmetric=False):
    n = rng.randrange(1, 7)
    zs = [float(rng.choice([1, 1, 6, 7, 8, 9, 17, 35]) ) for _ in range(n)]
    xyz = [[rng.uniform(-4, 4) * rng.choice([1, 1, 0.2]) for _ in range(3)] for _ in range(n)]
    if symmetric:
        zs = zs + zs
        xyz = xyz + [[-a for a in r] for r in xyz]
    return np.array(zs), np.array(xyz)


def _eigvecs(nums, coords):
    """The matrix `v` that from_molecule(rotate=True) obtains from eigh (contract of NumPy)."""
    com = np.dot(nums, coords) / np.sum(nums)
    itensor = np.zeros([3, 3])
    for i in range(nums.shape[0]):
        xyz = coords[i] - com
        r = np.linalg.norm(xyz) ** 2.0
        t = np.diag([r, r, r])
        t -= np.outer(xyz.T, xyz)
        itensor += nums[i] * t
    return np.linalg.eigh(itensor)[1]


def _corr_from_molecule(ctx, cub, rng):
    lines, impl, meta = [], [], []
    for it in range(ctx.n(40, 1000)):
        nums, coords = rand_molecule(rng, symmetric=rng.random() < 0.3)
        spacing = rng.choice([0.2, 0.25, 0.5, 1.0, 0.37])
        ext = rng.choice([0.0, 1.0, 2.0, 5.0, 1.3])
        rot = it % 2 == 1
        if len(nums) == 1 and ext == 0.0:
            ext = 1.0
        ln = f"C13.from_molecule {int(rot)} {fvec(nums)} {fmat(coords)} {f2b(spacing)} {f2b(ext)}"
        if rot:
            ln += " " + fmat(_eigvecs(nums, coords))
        lines.append(ln)
        try:
            g = cub.UniformGrid.from_molecule(nums, coords, spacing=spacing, extension=ext, rotate=rot, weight="Rectangle")
            impl.append(("ok", g.origin, g.axes, [int(s) for s in g.shape]))
        except Exception as e:
            impl.append((_tag(e),))
        meta.append((nums, coords, spacing, ext, rot))
    model = driver_batch(lines)
    for (nums, coords, spacing, ext, rot), a, b in zip(meta, impl, model):
        ctx.count(["from_molecule", _fl(nums), _fl(coords), spacing, ext, rot], tag=f"from_molecule:rot={int(rot)}:{a[0]}")
        wit = {"atcorenums": _fl(nums), "atcoords": coords.tolist(), "spacing": spacing, "extension": ext, "rotate": rot}
        if not b.startswith("ok"):
            # the model only produces the constructor arguments; a rejected shape shows up in the constructor
            ctx.fail("corr", "from_molecule", f"model answered {b}", witness=wit)
            continue
        t = Tokens(b)
        t.tok()
        mo, ma, ms = t.fvec(), t.fmat(), t.vec(int)
        if a[0] != "ok":
            if not any(s <= 1 for s in ms):
                ctx.fail("corr", "from_molecule", f"implementation raised {a[0]}, model shape {ms}", witness=wit)
            continue
        if ms != a[3]:
            # ceil of a value within rounding of an integer may differ in the rotated frame
            ctx.tagc("from_molecule:shape-tie")
            if not rot:
                ctx.fail("corr", "from_molecule:shape", f"shape {a[3]} vs model {ms}", witness=wit)
            continue
        if not _cmp_floats(_fl(a[1]), mo, 1e-11, 10.0) or not _cmp_floats(_fl(a[2]), [x for r in ma for x in r], 1e-12, 1.0):
            ctx.fail("corr", "from_molecule:origin", f"origin/axes {_fl(a[1])} vs model {mo}", witness=wit)


def _corr_closest(ctx, cub, rng):
    lines, impl, meta = [], [], []
    for it in range(ctx.n(150, 4000)):
        dim = rng.choice([2, 3])
        shape = rand_shape(rng, dim, 2, 7)
        kind = rng.choice(["diag+", "diag+", "diag+-", "skew"])
        axes = rand_axes(rng, dim, kind)
        origin = rand_origin(rng, dim)
        which = rng.choice(["closest", "closest", "origin", "nearest?"])
        g = cub.UniformGrid(origin, axes, np.array(shape), weight="Rectangle")
        mode = rng.random()
        if mode < 0.25:      # a node
            pt = g.points[rng.randrange(g.size)].copy()
        elif mode < 0.4:     # exactly between two nodes (tie)
            c = [rng.randrange(s - 1) + 0.5 for s in shape]
            pt = origin + np.array(c) @ axes
        elif mode < 0.8:     # inside the hull
            c = [rng.uniform(-0.45, s - 0.55) for s in shape]
            pt = origin + np.array(c) @ axes
        else:                # outside
            c = [rng.uniform(-3, s + 3) for s in shape]
            pt = origin + np.array(c) @ axes
        lines.append(f"C13.closest {which} {fvec(origin)} {fmat(axes)} {vec(shape)} {fvec(pt)}")
        try:
            r = g.closest_point(pt, which)
            impl.append("ok " + (str(int(r)) if float(r) == int(r) else repr(float(r))))
        except Exception as e:
            impl.append(_tag(e))
        meta.append((shape, kind, which, origin, axes, pt))
    model = driver_batch(lines)
    for (shape, kind, which, origin, axes, pt), a, b in zip(meta, impl, model):
        ctx.count(["closest", shape, kind, which, _fl(origin), _fl(axes), _fl(pt)], tag=f"closest:{kind}:{which}:" + a.split()[0])
        if a != b:
            ctx.fail("corr", f"closest:{which}", f"closest_point shape {shape} axes {kind}: implementation {a}, model {b}",
                     witness={"shape": shape, "origin": _fl(origin), "axes": axes.tolist(), "point": _fl(pt), "which": which})


def rand_tensor_cubic(rng, deg=3):
    return np.array([[[rng.uniform(-1, 1) for _ in range(deg + 1)] for _ in range(deg + 1)] for _ in range(deg + 1)])


def poly_eval(C, pts, nu=(0, 0, 0)):
    from numpy.polynomial import polynomial as P
    D = C
    for ax, n in enumerate(nu):
        if n:
            D = P.polyder(D, n, axis=ax)
    return P.polyval3d(pts[:, 0], pts[:, 1], pts[:, 2], D)


def axis_grid(cub, rng, shape, kind):
    """axis-aligned 3-D grid with increasing nodes inside [-1.5, 1.5]^3: UniformGrid (positive diagonal)
    or Tensor1DGrids (non-uniform nodes)."""
    from grid.basegrid import OneDGrid
    if kind == "uniform":
        axes = np.diag([rng.uniform(1.2, 2.4) / (s - 1) for s in shape])
        origin = np.array([rng.uniform(-1.4, -1.0) for _ in range(3)])
        return cub.UniformGrid(origin, axes, np.array(shape), weight="Rectangle")
    gs = []
    for s in shape:
        gaps = np.array([rng.uniform(0.5, 1.5) for _ in range(s - 1)])
        pts = np.concatenate([[0.0], np.cumsum(gaps)]) / gaps.sum() * rng.uniform(1.5, 2.6) - rng.uniform(1.0, 1.4)
        gs.append(OneDGrid(pts, np.ones(s)))
    return cub.Tensor1DGrids(*gs)


def interior_point(g, rng):
    lo, hi = g.points.min(0), g.points.max(0)
    return np.array([[rng.uniform(lo[d] + 0.05 * (hi[d] - lo[d]), hi[d] - 0.05 * (hi[d] - lo[d])) for d in range(3)]])


def _corr_interp(ctx, cub, rng):
    lines, impl, meta = [], [], []
    for it in range(ctx.n(14, 300)):
        shape = rand_shape(rng, 3, 5, 8, noncubic=False)
        g = axis_grid(cub, rng, shape, rng.choice(["uniform", "tensor"]))
        C = rand_tensor_cubic(rng) * 0.3
        use_log = it % 3 == 2
        vals = poly_eval(C, g.points)
        if use_log:
            vals = np.exp(vals)
            nu = [0, 0, 0]
            nu[rng.randrange(3)] = rng.randrange(0, 4)
        else:
            nu = [rng.randrange(0, 3) for _ in range(3)]
        pt = interior_point(g, rng)
        lines.append(f"C13.interp {int(use_log)} {vec(shape)} {fmat(g.points)} {fvec(vals)} {nu[0]} {nu[1]} {nu[2]} "
                     + " ".join(f2b(x) for x in pt[0]))
        try:
            r = g.interpolate(pt, vals, use_log=use_log, nu_x=nu[0], nu_y=nu[1], nu_z=nu[2])
            impl.append(("ok", float(np.asarray(r).ravel()[0])))
        except Exception as e:
            impl.append((_tag(e),))
        meta.append((shape, nu, use_log, pt))
    # axes points
    for it in range(ctx.n(4, 60)):
        shape = rand_shape(rng, 3, 2, 6)
        g = axis_grid(cub, rng, shape, "tensor")
        lines.append(f"C13.axes_points {vec(shape)} {fmat(g.points)}")
        x, y, z = g.get_points_along_axes()
        impl.append(("axes", _fl(x), _fl(y), _fl(z)))
        meta.append((shape, None, None, None))
    # Bell polynomials of the log variant (sympy, as used by the code)
    from sympy import symbols
    from sympy.functions.combinatorial.numbers import bell
    for n in range(1, 6):
        gs = [rng.uniform(-1.5, 1.5) for _ in range(n)]
        syms = symbols("x:" + str(n))
        val = float(sum(bell(n, i, syms).evalf(subs={"x" + str(i): gs[i] for i in range(n)}) for i in range(1, n + 1)))
        lines.append(f"C13.bell {n} {fvec(gs)}")
        impl.append(("bell", val))
        meta.append((n, None, None, None))
    model = driver_batch(lines)
    for (shape, nu, use_log, pt), a, b in zip(meta, impl, model):
        if a[0] == "axes":
            ctx.count(["axes_points", shape], tag="axes_points")
            t = Tokens(b)
            if t.tok() != "ok" or [t.fvec(), t.fvec(), t.fvec()] != [a[1], a[2], a[3]]:
                ctx.fail("corr", "axes_points", f"get_points_along_axes shape {shape} differs from the model")
            continue
        if a[0] == "bell":
            ctx.count(["bell", shape], tag="bell")
            t = Tokens(b)
            if t.tok() != "ok" or not close(t.flt(), a[1], rtol=1e-10, scale=10.0):
                ctx.fail("corr", "bell", f"complete Bell polynomial n={shape}: sympy {a[1]}, model {b}")
            continue
        ctx.count(["interp", shape, nu, use_log, _fl(pt)], nontrivial=sum(nu) > 0 or use_log, tag=f"interp:log={int(bool(use_log))}:nu={sum(nu)}:{a[0]}")
        if a[0] != "ok" or not b.startswith("ok"):
            if a[0] != b.split()[0]:
                ctx.fail("corr", "interp", f"interpolate shape {shape} nu={nu} log={use_log}: implementation {a[0]}, model {b}")
            continue
        mv = Tokens(b)
        mv.tok()
        mv = mv.flt()
        if not close(a[1], mv, rtol=2e-7, scale=max(1.0, abs(a[1]))):
            ctx.fail("corr", "interp", f"interpolate shape {shape} nu={nu} log={use_log}: implementation {a[1]!r}, model {mv!r}",
                     witness={"shape": shape, "nu": nu, "use_log": use_log, "point": _fl(pt)})
    # which function values does the cubic method read?  model: coordinates 1..s-3 on every axis
    for shape in ([7, 7, 7], rand_shape(rng, 3, 7, 8)):
        ans = driver_batch([f"C13.interp_support {vec(shape)}"])[0]
        t = Tokens(ans)
        t.tok()
        support = set(t.vec(int))
        g = axis_grid(cub, rng, shape, "uniform")
        C = rand_tensor_cubic(rng)
        vals = poly_eval(C, g.points)
        pt = interior_point(g, rng)
        exact = float(poly_eval(C, pt)[0])
        garbage = vals.copy()
        for n in range(g.size):
            if n not in support:
                garbage[n] = 1e3 * rng.uniform(1, 2)
        r1 = float(g.interpolate(pt, garbage)[0])
        ctx.count(["interp_support", shape], tag="interp_support")
        if not close(r1, exact, rtol=1e-8, scale=10.0):
            ctx.fail("corr", "interp:support", f"shape {shape}: the implementation reads function values outside the model's support")
        for n in rng.sample(sorted(support), 6):
            v2 = vals.copy()
            v2[n] += 1.0
            r2 = float(g.interpolate(pt, v2)[0])
            if abs(r2 - exact) < 1e-9:
                ctx.fail("corr", "interp:support", f"shape {shape}: value {n} is in the model's support but not read by the implementation")


# ----------------------------------------------------------------------------
# oracle
# ----------------------------------------------------------------------------
SNIP_HEAD = "import warnings; warnings.filterwarnings('ignore')\nimport numpy as np\nfrom grid.cubic import UniformGrid, Tensor1DGrids\n"

SNIP_WEIGHT = SNIP_HEAD + """origin, axes, shape, scheme = np.array({origin!r}), np.array({axes!r}), np.array({shape!r}), {scheme!r}
try:
    g = UniformGrid(origin, axes, shape, weight=scheme)
except Exception as e:
    raise AssertionError(f'{{scheme}} does not construct for shape {{list(shape)}}: {{type(e).__name__}}: {{e}}')
V = abs(np.linalg.det(axes)) * np.prod(shape)
dev = abs(g.weights.sum() / V - 1)
assert dev <= sum(1.0 / s for s in shape) + 1e-12, f'{{scheme}} shape {{list(shape)}}: |sum w / V - 1| = {{dev}} > sum 1/s = {{sum(1.0 / s for s in shape)}}'
"""

SNIP_MOL = SNIP_HEAD + """nums, coords = np.array({nums!r}), np.array({coords!r})
spacing, ext, rot = {spacing!r}, {ext!r}, {rot!r}
g = UniformGrid.from_molecule(nums, coords, spacing=spacing, extension=ext, rotate=rot)
t = (coords - g.origin) @ np.linalg.inv(g.axes)          # fractional grid coordinates of the nuclei
low = t.min(0) * spacing; high = (np.array(g.shape) - 1 - t.max(0)) * spacing
assert min(low.min(), high.min()) >= ext - spacing - 1e-9, f'nucleus margin {{min(low.min(), high.min())}} < extension - spacing = {{ext - spacing}}'
"""

SNIP_CLOSEST = SNIP_HEAD + """origin, axes, shape, pt = np.array({origin!r}), np.array({axes!r}), np.array({shape!r}), np.array({pt!r})
g = UniformGrid(origin, axes, shape, weight='Rectangle')
d = np.linalg.norm(g.points - pt, axis=1)
r = g.closest_point(pt, 'closest')
assert float(r) == int(r) and 0 <= int(r) < g.size and d[int(r)] <= d.min() + 1e-12, f'closest_point returned {{r}}, nearest node is {{int(d.argmin())}}'
"""


def oracle(ctx: Ctx, budget: str):
    cub = _cubic()
    rng = ctx.rng
    big = budget == "large" or ctx.thorough
    _or_index_layout(ctx, cub, rng, big)
    _or_tensor(ctx, cub, rng, big)
    _or_weights(ctx, cub, rng, big)
    _or_fourier1(ctx, cub, rng, big)
    _or_from_molecule(ctx, cub, rng, big)
    _or_closest(ctx, cub, rng, big)
    _or_cube(ctx, cub, rng, big)
    _or_interp(ctx, cub, rng, big)


def _or_index_layout(ctx, cub, rng, big):
    for it in range(40 if not big else 600):
        dim = rng.choice([2, 3])
        shape = rand_shape(rng, dim, 2, 8)
        axes = rand_axes(rng, dim, rng.choice(["skew", "diag+-"]))
        origin = rand_origin(rng, dim)
        g = cub.UniformGrid(origin, axes, np.array(shape), weight="Rectangle")
        n = g.size
        wit = {"shape": shape, "origin": _fl(origin), "axes": axes.tolist()}
        ref = np.array(np.unravel_index(np.arange(n), shape)).T       # independent reference (C order)
        for idx in range(n):
            c = tuple(int(x) for x in g.index_to_coordinates(idx))
            if c != tuple(ref[idx]) or int(g.coordinates_to_index(c)) != idx:
                ctx.fail("oracle", f"cubic.index:{dim}d", f"shape {shape}: index {idx} -> {c} -> {int(g.coordinates_to_index(c))}; lexicographic coordinates are {tuple(int(x) for x in ref[idx])}",
                         witness=dict(wit, index=idx),
                         snippet=SNIP_HEAD + f"g = UniformGrid(np.zeros({dim}), np.eye({dim}), np.array({shape}))\nc = g.index_to_coordinates({idx})\nassert tuple(int(x) for x in c) == {tuple(int(x) for x in ref[idx])} and g.coordinates_to_index(c) == {idx}\n")
                break
        # coordinates -> index -> coordinates
        for c in itertools.product(*[range(s) for s in shape]):
            idx = int(g.coordinates_to_index(c))
            if not (0 <= idx < n) or tuple(int(x) for x in g.index_to_coordinates(idx)) != c or idx != int(np.ravel_multi_index(c, shape)):
                ctx.fail("oracle", f"cubic.index:{dim}d", f"shape {shape}: coordinates {c} -> {idx} does not come back / is not the row-major index",
                         witness=dict(wit, coords=list(c)))
                break
        # layout: exact rational arithmetic for the expected point
        fo = [Fraction(float(x)) for x in origin]
        fa = [[Fraction(float(x)) for x in r] for r in axes]
        scale = float(np.abs(g.points).max()) + 1
        for idx in rng.sample(range(n), min(n, 25)):
            c = ref[idx]
            want = [float(fo[d] + sum(int(c[m]) * fa[m][d] for m in range(dim))) for d in range(dim)]
            if not _cmp_floats(_fl(g.points[idx]), want, 1e-13, scale):
                ctx.fail("oracle", f"cubic.UniformGrid.layout:{dim}d", f"shape {shape}: point {idx} is {_fl(g.points[idx])}, origin + sum c_m a_m for c={tuple(int(x) for x in c)} is {want}",
                         witness=dict(wit, index=idx),
                         snippet=SNIP_HEAD + f"origin, axes, shape = np.array({_fl(origin)!r}), np.array({axes.tolist()!r}), np.array({shape!r})\n"
                         f"g = UniformGrid(origin, axes, shape)\nc = np.array(np.unravel_index({idx}, shape))\nassert np.allclose(g.points[{idx}], origin + c @ axes, rtol=0, atol=1e-12)\n")
                break
        # last index fastest
        step = g.points[1] - g.points[0]
        if not np.allclose(step, axes[-1], rtol=0, atol=1e-12 * scale):
            ctx.fail("oracle", f"cubic.UniformGrid.layout:{dim}d", f"shape {shape}: consecutive points differ by {_fl(step)}, not by the last axis {_fl(axes[-1])}", witness=wit)
        ctx.tagc("oracle:index+layout")


def _or_tensor(ctx, cub, rng, big):
    for it in range(20 if not big else 300):
        dim = 2 + it % 2
        shape = rand_shape(rng, dim, 2, 7)
        gs = [_rand_oned(rng, s) for s in shape]
        g = cub.Tensor1DGrids(*gs)
        ref = np.array(np.unravel_index(np.arange(g.size), shape)).T
        for idx in range(g.size):
            c = ref[idx]
            wantp = [float(gs[d].points[c[d]]) for d in range(dim)]
            wantw = float(np.prod([Fraction(float(gs[d].weights[c[d]])) for d in range(dim)]))
            if _fl(g.points[idx]) != wantp or not close(float(g.weights[idx]), wantw, rtol=1e-14, scale=1.0):
                ctx.fail("oracle", f"cubic.Tensor1DGrids:{dim}d", f"shape {shape}: entry {idx} is not the tuple of 1-D nodes / product of 1-D weights at {tuple(int(x) for x in c)}",
                         witness={"shape": shape, "index": idx})
                break
        # separable integrand
        fs = [lambda x, a=rng.uniform(0.3, 1.5): np.cos(a * x), lambda x, a=rng.uniform(0.1, 0.5): np.exp(-a * x * x), lambda x: 1 + x + 0.3 * x ** 3]
        fs = fs[:dim]
        integrand = np.prod([fs[d](g.points[:, d]) for d in range(dim)], axis=0)
        got = g.integrate(integrand)
        want = math.prod(float(np.dot(gs[d].weights, fs[d](gs[d].points))) for d in range(dim))
        if not close(float(got), want, rtol=1e-11, scale=max(1.0, float(np.abs(g.weights).sum()) * 20)):
            ctx.fail("oracle", f"cubic.Tensor1DGrids:{dim}d:separable", f"shape {shape}: separable integrand gives {got}, product of 1-D integrals {want}",
                     witness={"shape": shape})
        ctx.tagc("oracle:tensor")


def _or_weights(ctx, cub, rng, big):
    cases = [(d, s, sh) for d in (2, 3) for s in SCHEMES for sh in ([4, 5, 6][:d], [2, 2, 2][:d], [8, 4, 5][:d])]
    for _ in range(30 if not big else 600):
        d = rng.choice([2, 3])
        cases.append((d, rng.choice(SCHEMES), rand_shape(rng, d, 2, 12 if d == 3 else 30)))
    for dim, sch, shape in cases:
        axes = rand_axes(rng, dim, "skew")
        origin = rand_origin(rng, dim)
        key = f"cubic.UniformGrid:weight={sch}"
        wit = {"scheme": sch, "shape": shape, "origin": _fl(origin), "axes": axes.tolist()}
        snip = SNIP_WEIGHT.format(origin=_fl(origin), axes=axes.tolist(), shape=shape, scheme=sch)
        ctx.tagc(f"oracle:weights:{sch}:{dim}d")
        try:
            g = cub.UniformGrid(origin, axes, np.array(shape), weight=sch)
        except Exception as e:
            ctx.fail("oracle", key, f"{sch} does not construct in {dim}-D (shape {shape}): {type(e).__name__}: {e}", witness=wit, snippet=snip)
            continue
        V = abs(np.linalg.det(axes)) * float(np.prod(shape))
        ratio = float(g.weights.sum()) / V
        bound = sum(1.0 / s for s in shape)
        if not abs(ratio - 1) <= bound + 1e-12:
            ctx.fail("oracle", key, f"{sch} shape {shape}: |sum w / V - 1| = {abs(ratio - 1):.6g} > sum 1/s_i = {bound:.6g}", witness=dict(wit, ratio=ratio), snippet=snip)
        exact = {"Rectangle": Fraction(1), "Trapezoid": math.prod(Fraction(s, s + 1) for s in shape),
                 "Alternative": math.prod(Fraction(s - 1, s) for s in shape)}.get(sch)
        if exact is not None and not close(ratio, float(exact), rtol=1e-11, scale=1.0):
            ctx.fail("oracle", key + ":sum", f"{sch} shape {shape}: sum w / V = {ratio}, closed form {float(exact)}", witness=wit)


def _or_fourier1(ctx, cub, rng, big):
    """Exploration: the Fourier1 bound for all shapes <= 40 per axis.
    2-D: every pair constructed. 3-D: sum w / V factorises over the axes (checked on constructed grids);
    the per-axis factors are read off constructed 2-D grids and all triples are evaluated from them."""
    N = 40
    ratio2 = {}
    worst = (0.0, None)
    for a in range(2, N + 1):
        for b in range(a, N + 1):
            for shape in ((a, b), (b, a)) if (big or (a + b) % 3 == 0 or a == b) else ((a, b),):
                g = cub.UniformGrid(np.zeros(2), np.eye(2), np.array(shape), weight="Fourier1")
                r = float(g.weights.sum()) / (a * b)
                ratio2[shape] = r
                bound = 1.0 / a + 1.0 / b
                worst = max(worst, (abs(r - 1) / bound, shape))
                if not abs(r - 1) <= bound:
                    ctx.fail("oracle", "cubic.UniformGrid:weight=Fourier1", f"Fourier1 shape {shape}: |sum w / V - 1| = {abs(r - 1)} > {bound}",
                             witness={"shape": list(shape)}, snippet=SNIP_WEIGHT.format(origin=[0.0, 0.0], axes=[[1.0, 0.0], [0.0, 1.0]], shape=list(shape), scheme="Fourier1"))
    f = {n: math.sqrt(ratio2[(n, n)]) for n in range(2, N + 1)}       # per-axis factor (positive)
    for (a, b), r in ratio2.items():
        if not close(r, f[a] * f[b], rtol=1e-11, scale=1.0):
            ctx.fail("oracle", "cubic.UniformGrid:weight=Fourier1:factor", f"Fourier1 2-D ratio for {(a, b)} is not the product of the per-axis factors")
    for _ in range(12 if not big else 150):
        shape = rand_shape(rng, 3, 2, 14)
        g = cub.UniformGrid(np.zeros(3), np.eye(3), np.array(shape), weight="Fourier1")
        r = float(g.weights.sum()) / float(np.prod(shape))
        if not close(r, f[shape[0]] * f[shape[1]] * f[shape[2]], rtol=1e-10, scale=1.0):
            ctx.fail("oracle", "cubic.UniformGrid:weight=Fourier1:factor", f"Fourier1 3-D ratio for {shape} is not the product of the per-axis factors")
    fa = np.array([f[n] for n in range(2, N + 1)])
    inv = 1.0 / np.arange(2, N + 1)
    dev = np.abs(fa[:, None, None] * fa[None, :, None] * fa[None, None, :] - 1)
    bnd = inv[:, None, None] + inv[None, :, None] + inv[None, None, :]
    bad = np.argwhere(dev > bnd)
    if len(bad):
        shape = [int(x) + 2 for x in bad[0]]
        ctx.fail("oracle", "cubic.UniformGrid:weight=Fourier1", f"Fourier1 shape {shape}: bound violated (from per-axis factors)", witness={"shape": shape},
                 snippet=SNIP_WEIGHT.format(origin=[0.0] * 3, axes=np.eye(3).tolist(), shape=shape, scheme="Fourier1"))
    ctx.extra["fourier1_exploration"] = {
        "label": "exploration (no theorem): bound |sum w/V - 1| <= sum 1/s_i enumerated",
        "shapes_2d_constructed": len(ratio2), "shapes_3d_from_factors": int(dev.size), "max_per_axis": N,
        "largest_deviation_over_bound_2d": worst[0], "at": list(worst[1]) if worst[1] else None,
        "largest_deviation_over_bound_3d": float((dev / bnd).max()),
    }
    ctx.tagc("oracle:fourier1-enumeration", len(ratio2))


def _or_from_molecule(ctx, cub, rng, big):
    mols = [(np.array([9.0, 1.0]), np.array([[0.0, 0, 0], [10.0, 0, 0]]), 1.0, 2.0, False),      # the Lean witnesses
            (np.ones(4), np.array([[0.0, 5, 0], [0, -5, 0], [0, 0, 2], [0, 0, -2]]), 1.0, 1.0, True)]
    for it in range(30 if not big else 500):
        nums, coords = rand_molecule(rng, symmetric=it % 3 == 0)
        mols.append((nums, coords, rng.choice([0.2, 0.5, 1.0]), rng.choice([1.0, 2.0, 5.0]), it % 2 == 0))
    for nums, coords, spacing, ext, rot in mols:
        ctx.tagc(f"oracle:from_molecule:rot={int(rot)}")
        g = cub.UniformGrid.from_molecule(nums, coords, spacing=spacing, extension=ext, rotate=rot, weight="Rectangle")
        t = (coords - g.origin) @ np.linalg.inv(g.axes)
        low = t.min(0) * spacing
        high = (np.array(g.shape) - 1 - t.max(0)) * spacing
        m = float(min(low.min(), high.min()))
        # centre of charge == centre of the extent on every axis (grid frame): the margin is a theorem there
        # (from_molecule_margin_centred), so a failure is not the known centring defect
        tcom = ((np.dot(nums, coords) / nums.sum()) - g.origin) @ np.linalg.inv(g.axes)
        centred = bool(np.abs(tcom - 0.5 * (t.max(0) + t.min(0))).max() * spacing < 1e-9)
        ctx.tagc("oracle:from_molecule:" + ("centred" if centred else "off-centre"))
        if m < ext - spacing - 1e-9:
            what = "lies outside the box" if m < -1e-9 else "has less than the requested margin"
            # centred + rotate=True: the extent is measured along the columns of eigh's matrix, the grid runs along its rows
            ctx.fail("oracle", "cubic.UniformGrid.from_molecule:margin" + ((":rotate-frame" if rot else ":centred") if centred else ""),
                     f"a nucleus {what}: margin {m:.4g} < extension - spacing = {ext - spacing:.4g} (rotate={rot}, {len(nums)} atoms)",
                     witness={"atcorenums": _fl(nums), "atcoords": coords.tolist(), "spacing": spacing, "extension": ext, "rotate": rot, "margin": m},
                     snippet=SNIP_MOL.format(nums=_fl(nums), coords=coords.tolist(), spacing=spacing, ext=ext, rot=rot))


def _or_closest(ctx, cub, rng, big):
    """Brute force: `which="closest"` must return a nearest node for every non-zero diagonal axes (either
    sign) and every query point (inside or outside the box). `which="origin"` (docstring: the bottom,
    left-most, down-most corner of the sub-cube holding the point): for a point inside the box the returned
    node is the closest among the nodes whose integer coordinates do not exceed the point's fractional
    coordinates on any axis."""
    cases = [("neg", [3, 3, 3], np.diag([-1.0, 1.0, 1.0]), np.zeros(3), np.array([-1.0, 0.0, 0.0])),     # former defect witnesses
             ("out", [3, 3, 3], np.eye(3), np.zeros(3), np.array([0.0, 0.0, 3.0]))]
    for it in range(120 if not big else 3000):
        dim = rng.choice([2, 3])
        shape = rand_shape(rng, dim, 2, 7)
        kind = "diag+" if it % 4 else "diag+-"
        axes = rand_axes(rng, dim, kind)
        origin = rand_origin(rng, dim)
        inside = it % 5 != 0
        c = [rng.uniform(-0.45, s - 0.55) if inside else rng.uniform(-3, s + 2) for s in shape]
        if it % 7 == 0:
            c = [float(rng.randrange(s)) for s in shape]
        pt = origin + np.array(c) @ axes
        neg = bool((np.diag(axes) < 0).any())
        out = any(x < -0.5 or x > s - 0.5 for x, s in zip(c, shape))
        cases.append((("neg" if neg else "pos") + ("-out" if out else "-in"), shape, axes, origin, pt))
    for cls, shape, axes, origin, pt in cases:
        ctx.tagc(f"oracle:closest:{cls}")
        g = cub.UniformGrid(origin, axes, np.array(shape), weight="Rectangle")
        d = np.linalg.norm(g.points - pt, axis=1)             # brute force
        wit = {"class": cls, "shape": shape, "origin": _fl(origin), "axes": axes.tolist(), "point": _fl(pt)}
        try:
            r = g.closest_point(pt, "closest")
            ok = float(r) == int(r) and 0 <= int(r) < g.size and d[int(r)] <= d.min() + 1e-12
            got = repr(float(r))
        except Exception as e:
            ok, got = False, type(e).__name__
        if not ok:
            ctx.fail("oracle", "cubic.UniformGrid.closest_point", f"closest_point returned {got} for shape {shape}, diagonal axes {_fl(np.diag(axes))} "
                     f"({cls}); the nearest node is {int(d.argmin())}", witness=dict(wit, returned=got, nearest=int(d.argmin())),
                     snippet=SNIP_CLOSEST.format(origin=_fl(origin), axes=axes.tolist(), shape=shape, pt=_fl(pt)))
        # which="origin"
        frac = (pt - origin) / np.diag(axes)
        if all(1e-9 < x % 1.0 < 1 - 1e-9 and 0 < x < s - 1 for x, s in zip(frac, shape)):
            ref = np.array(np.unravel_index(np.arange(g.size), shape)).T
            cand = np.where((ref <= frac).all(axis=1))[0]
            want = int(cand[np.argmin(d[cand])])
            ctx.tagc("oracle:closest:origin-mode")
            try:
                r = g.closest_point(pt, "origin")
                ok, got = float(r) == want, repr(float(r))
            except Exception as e:
                ok, got = False, type(e).__name__
            if not ok:
                ctx.fail("oracle", "cubic.UniformGrid.closest_point:origin", f"closest_point(which='origin') returned {got} for shape {shape}, diagonal axes "
                         f"{_fl(np.diag(axes))}; the lower corner of the sub-cube holding the point is node {want}", witness=dict(wit, returned=got, want=want))


def _or_cube(ctx, cub, rng, big):
    """Exploration: cube write/read round trip to the printed precision, both unit conventions."""
    from grid.utils import ANGSTROM_TO_BOHR
    tmp = LEAN / ".lake" / f"c13-scratch-{os.getpid()}"
    tmp.mkdir(parents=True, exist_ok=True)
    try:
        for it in range(10 if not big else 150):
            shape = rand_shape(rng, 3, 2, 6)
            axes = rand_axes(rng, 3, rng.choice(["skew", "diag+", "diag+-"]))
            origin = rand_origin(rng, 3) * rng.choice([1, 1, 100])
            g = cub.UniformGrid(origin, axes, np.array(shape), weight="Rectangle")
            nat = rng.randrange(1, 6)
            atnums = np.array([rng.choice([1, 6, 8, 17, 92]) for _ in range(nat)])
            pseudo = atnums.astype(float) if it % 2 else np.array([float(max(1, z - rng.choice([0, 2, 10]))) for z in atnums])
            coords = np.array([[rng.uniform(-9, 9) for _ in range(3)] for _ in range(nat)])
            data = np.array([rng.choice([1.0, -1.0]) * 10 ** rng.uniform(-12, 8) if rng.random() < 0.9 else 0.0 for _ in range(g.size)])
            fn = str(tmp / f"t{it}.cube")
            g.generate_cube(fn, data, coords, atnums, None if it % 2 else pseudo)
            angstrom = it % 3 == 2
            fac = 1.0
            if angstrom:       # same numbers read as angstrom: negative point count in the first axis line
                ls = open(fn).read().split("\n")
                ls[3] = f"{-shape[0]:5d}" + ls[3][5:]
                open(fn, "w").write("\n".join(ls))
                fac = ANGSTROM_TO_BOHR
            with contextlib.redirect_stdout(io.StringIO()):
                g2, cd = cub.UniformGrid.from_cube(fn, weight="Rectangle", return_data=True)
                g3 = cub.UniformGrid.from_cube(fn, weight="Rectangle")
            tol = 0.5000001e-6 * fac
            errs = []
            if list(g2.shape) != shape or list(g3.shape) != shape:
                errs.append(f"shape {list(g2.shape)} vs {shape}")
            if np.abs(g2.origin - origin * fac).max() > tol + 1e-16 * abs(origin).max() * fac or np.abs(g2.axes - axes * fac).max() > tol:
                errs.append("origin/axes beyond 6 decimals")
            elif np.abs(g2.points - (g.points * fac)).max() > tol * (1 + sum(shape)):
                errs.append("points")
            if not np.array_equal(g3.points, g2.points):
                errs.append("return_data changes the grid")
            if list(cd["atnums"]) != list(atnums) or np.abs(cd["atcorenums"] - pseudo).max() > 0.5000001e-6:
                errs.append("atoms")
            if np.abs(cd["atcoords"] - coords * fac).max() > tol:
                errs.append("atom coordinates")
            if cd["data"].shape != data.shape or np.any(np.abs(cd["data"] - data) > 5.000001e-6 * np.abs(data)):
                errs.append("data beyond 6 significant digits")
            ctx.tagc("oracle:cube:" + ("angstrom" if angstrom else "bohr"))
            if errs:
                ctx.fail("oracle", "cubic.UniformGrid.cube:roundtrip", f"cube round trip ({'angstrom' if angstrom else 'bohr'}), shape {shape}: " + "; ".join(errs),
                         witness={"shape": shape, "origin": _fl(origin), "axes": axes.tolist(), "angstrom": angstrom})
    finally:
        shutil.rmtree(tmp, ignore_errors=True)


SNIP_FEW = SNIP_HEAD + """s = {s}
g = UniformGrid(np.array([-1.0, -1.0, -1.0]), np.eye(3) * 2.0 / (s - 1), np.array([s, s, s]))
f = lambda p: p[:, 0] ** 3 * p[:, 1] ** 2 + p[:, 2] ** 3
pt = np.array([[0.13, 0.21, -0.3]])
try:
    got = float(g.interpolate(pt, f(g.points))[0])
except Exception as e:
    raise AssertionError(f'cubic interpolation on a {{s}}x{{s}}x{{s}} grid raises {{type(e).__name__}}: {{e}}')
assert abs(got - float(f(pt)[0])) < 1e-9, f'cubic polynomial not reproduced on a {{s}}x{{s}}x{{s}} grid: {{got}} vs {{float(f(pt)[0])}}'
"""


def _or_interp(ctx, cub, rng, big):
    import sympy as sp
    X = sp.symbols("x y z")
    # grids with 4..6 points on an axis: enough nodes for a cubic, but the method drops three of them
    for s in (4, 5, 6):
        shape = [s, 7 + rng.randrange(2), 7] if rng.random() < 0.5 else [s, s, s]
        g = axis_grid(cub, rng, shape, "uniform")
        C = rand_tensor_cubic(rng) * 0.4
        pt = interior_point(g, rng)
        want = float(poly_eval(C, pt)[0])
        ctx.tagc("oracle:interp:few-points")
        try:
            got = float(np.asarray(g.interpolate(pt, poly_eval(C, g.points))).ravel()[0])
            bad = not close(got, want, rtol=1e-7, scale=50.0)
            msg = f"gives {got}, exact {want}"
        except Exception as e:
            bad, msg = True, f"raises {type(e).__name__}: {e}"
        if bad:
            ctx.fail("oracle", "cubic.interpolate:cubic:few-points",
                     f"cubic interpolation of a tensor-cubic polynomial on a grid of shape {shape} {msg} (splines use nodes 1..s-3 only)",
                     witness={"shape": shape, "point": _fl(pt), "coeffs": C.tolist()}, snippet=SNIP_FEW.format(s=s))
    for it in range(10 if not big else 120):
        shape = rand_shape(rng, 3, 7, 9, noncubic=False)
        kind = "uniform" if it % 2 else "tensor"
        g = axis_grid(cub, rng, shape, kind)
        C = rand_tensor_cubic(rng) * 0.4
        vals = poly_eval(C, g.points)
        pt = interior_point(g, rng)
        key = "cubic.interpolate:cubic"
        for nu in [(0, 0, 0), (1, 0, 0), (0, 2, 0), (0, 0, 3), (1, 1, 1), tuple(rng.randrange(4) for _ in range(3))]:
            want = float(poly_eval(C, pt, nu)[0])
            got = float(np.asarray(g.interpolate(pt, vals, nu_x=nu[0], nu_y=nu[1], nu_z=nu[2])).ravel()[0])
            ctx.tagc("oracle:interp:cubic")
            if not close(got, want, rtol=1e-7, scale=max(1.0, abs(want)) * 50):
                ctx.fail("oracle", key, f"{kind} grid shape {shape}: derivative {nu} of a tensor-cubic polynomial interpolated as {got}, exact {want}",
                         witness={"shape": shape, "nu": list(nu), "point": _fl(pt), "coeffs": C.tolist()})
        # logarithmic variant: f = exp(p), p tensor-cubic; exact derivatives from sympy
        p = sum(float(C[a, b, c]) * X[0] ** a * X[1] ** b * X[2] ** c for a in range(4) for b in range(4) for c in range(4))
        fexp = sp.exp(p)
        ax = it % 3
        for k in (0, 1, 2, 3):
            nu = [0, 0, 0]
            nu[ax] = k
            want = float(sp.diff(fexp, X[ax], k).subs(dict(zip(X, map(float, pt[0])))).evalf()) if k else float(math.exp(poly_eval(C, pt)[0]))
            got = float(np.asarray(g.interpolate(pt, np.exp(vals), use_log=True, nu_x=nu[0], nu_y=nu[1], nu_z=nu[2])).ravel()[0])
            ctx.tagc("oracle:interp:log")
            if not close(got, want, rtol=1e-7, scale=max(1.0, abs(want)) * 50):
                ctx.fail("oracle", "cubic.interpolate:log", f"{kind} grid shape {shape}: log variant, derivative {nu} of exp(tensor-cubic) gives {got}, exact {want}",
                         witness={"shape": shape, "nu": nu, "point": _fl(pt)})
        # linear method on trilinear functions
        T = rand_tensor_cubic(rng, deg=1)
        tv = poly_eval(T, g.points)
        pts = np.vstack([interior_point(g, rng) for _ in range(4)])
        got = np.asarray(g.interpolate(pts, tv, method="linear")).ravel()
        want = poly_eval(T, pts)
        ctx.tagc("oracle:interp:linear")
        if not np.allclose(got, want, rtol=0, atol=1e-9 * max(1.0, float(np.abs(tv).max()))):
            ctx.fail("oracle", "cubic.interpolate:linear", f"{kind} grid shape {shape}: linear method does not reproduce a trilinear function",
                     witness={"shape": shape, "points": pts.tolist()})

"""C12 — degree/size requests resolve to the smallest supported grid not below."""
import importlib
import inspect
import warnings

import numpy as np

from ..common import SRC, Ctx, Tokens, driver_batch

LEVEL = "proof"
LEVEL_TEXT = (
    "Lean theorems, unbounded in table length: Python's bisect_left on any ascending list returns the least index "
    "not below the request; the resolution rule returns the least supported value >= request with its table partner; "
    "requests above the maximum are rejected; the sequence converter is element-wise. The regenerated tables of all four "
    "methods and the data-directory listing are decided ascending / mutually inverse / file-backed by the kernel "
    "(decide +kernel). Tie to the code: tables regenerated from the source on every run; the decision logic itself "
    "(_get_degree_and_size, convert_angular_sizes_to_degrees, _load_precomputed_angular_grid, selection part of __init__) is "
    "translated from the AST on every run (Gen/AngularLogic.lean) and every property theorem is restated and proved for the "
    "generated definitions (equal to the hand model on all well-formed inputs; guards reject everything else; the file name "
    "built for a resolved pair is in the regenerated directory listing and no loader guard fires; the cache key is sound). "
    "The generated functions are the executable model compared with the implementation on every integer request "
    "(exhaustive in the thorough tier)."
)
TECHNIQUE = "Lean 4 proof (generic bisect/resolution theorems, AST-translated decision logic, kernel-decided regenerated tables and directory listing) + exhaustive correspondence"
GEN = ["angular_tables", "angular_logic"]
LEAN_MODULES = ["GridVerif.Props.C12", "GridVerif.Props.C12.Listing", "GridVerif.Props.C12.Logic"]
THEOREMS = [
    "GridVerif.C12.bisect_left_least_index",
    "GridVerif.C12.resolve_spec",
    "GridVerif.C12.resolve_reject",
    "GridVerif.C12.tables_ok",
    "GridVerif.C12.degree_request",
    "GridVerif.C12.size_request",
    "GridVerif.C12.request_above_max_rejected",
    "GridVerif.C12.convert_is_map",
    # over the generated decision logic (Gen/AngularLogic.lean)
    "GridVerif.C12.gen_body_eq_model",
    "GridVerif.C12.gen_eq_model",
    "GridVerif.C12.gen_malformed_rejected",
    "GridVerif.C12.gen_never_unmodelled",
    "GridVerif.C12.gen_dispatch_iff",
    "GridVerif.C12.gen_dispatch_unknown",
    "GridVerif.C12.listing_names",
    "GridVerif.C12.loader_ok",
    "GridVerif.C12.gen_loader_resolved",
    "GridVerif.C12.gen_degree_request",
    "GridVerif.C12.gen_size_request",
    "GridVerif.C12.gen_request_above_max_rejected",
    "GridVerif.C12.gen_convert_is_map",
    "GridVerif.C12.gen_convert_elementwise",
    "GridVerif.C12.gen_ok_in_table",
    "GridVerif.C12.gen_init_size_overrides_degree",
    "GridVerif.C12.gen_init_resolved",
    "GridVerif.C12.gen_init_degree_request",
    "GridVerif.C12.gen_init_size_request",
    "GridVerif.C12.gen_cache_key_sound",
]
RULE = (
    "correspondence: every integer degree 0..max+2 of each of the 4 methods (always) and every size "
    "0..max+2 (thorough: all; quick: every table key k and k-1,k+1 plus a VERIF_SEED stride) sent to "
    "AngularGrid._get_degree_and_size and to the Lean model; random size sequences to "
    "convert_angular_sizes_to_degrees as one history of calls sharing a pool of sizes across methods; non-trivial = request is not itself a table key (bisect path) "
    "or is above the maximum (rejection path) or a sequence with >=2 distinct sizes. Argument classes: degree/size as "
    "int, bool, np.int8..uint64, np.bool_, float, np.float64, 0-d/1-element array, str, None, negative, both given, positional "
    "and keyword, unknown / differently spelled method; converter input as list, tuple, int64/int32/uint16/object array, "
    "read-only, non-contiguous, float64 and bool arrays, the same array object reused across methods (input must stay "
    "unchanged, output must be a fresh integer array); AngularGrid constructions as one history (cache on/off, "
    "degree/size/both, any spelling of the method, largest degree and size of every method, repeated and interleaved), "
    "each compared with the generated __init__ selection: degree, size, cache entry, and the points of the very file "
    "the model names; AtomGrid(...).degrees for degrees= and sizes="
)
TRUSTED_BASE = [
    "Lean 4.33 kernel; axioms propext, Classical.choice, Quot.sound only (audited per theorem)",
    "translator harness/translate/angular_tables.py (dumps dicts in insertion order, reads npz headers)",
    "translator harness/translate/angular_logic.py (AST -> Gen/AngularLogic.lean; raises on syntax it cannot carry; also lists the data packages named by the loader)",
    "Model/AngularPy.lean: meaning of bisect_left, dict lookup / in, max, list[i], np.unique, np.zeros, a[np.where(m)] = v, isinstance(x, int | np.integer), comparisons, f-string fields (hand-written primitives; the bisect loop / dict / max are those of Model/Bisect.lean)",
    "harness classification of a Python argument as none / integer (int, bool, np.integer) / other, mirroring isinstance(x, int | np.integer)",
]
ASSUMPTIONS = [
    "np.load returns the arrays stored in the file; file naming method_degree_size.npz",
    "converter input is a one-dimensional sequence (a scalar or 2-D array raises TypeError / IndexError inside numpy, outside the model)",
    "warnings.warn calls have no effect on the result",
]

METHODS = ["lebedev", "spherical", "maxdet", "ahrens_beylkin"]
_HISTORY = []   # every converter call made in this process, in order (replayed by the snippet)
PREFIX = {"lebedev": "LEBEDEV", "spherical": "SPHERICAL", "maxdet": "MAX_DET", "ahrens_beylkin": "AHRENS_BEYLKIN"}
DIRS = {"lebedev": "lebedev", "spherical": "spherical_design", "maxdet": "maxdet", "ahrens_beylkin": "ahrens_beylkin"}


def _impl(ang, method, degree=None, size=None):
    try:
        d, s = ang.AngularGrid._get_degree_and_size(degree=degree, size=size, method=method)
        return f"ok {int(d)} {int(s)}"
    except ValueError:
        return "value-error"
    except IndexError:
        return "index-error"
    except TypeError:
        return "type-error"
    except KeyError:
        return "key-error"


def _tok(v):
    """A Python argument as the model sees it: none / an instance of int | np.integer / other."""
    if v is None:
        return "none"
    if isinstance(v, (int, np.integer)):   # bool is an int; np.bool_ is not an np.integer
        return str(int(v))
    return "other"


def _tag(e):
    return {ValueError: "value-error", IndexError: "index-error", TypeError: "type-error", KeyError: "key-error"}.get(type(e), type(e).__name__)


def _npint(ctx, i):
    """`i` as a randomly chosen NumPy integer type that can hold it."""
    ts = [t for t in (np.int8, np.int16, np.int32, np.int64, np.uint8, np.uint16, np.uint32, np.uint64)
          if np.iinfo(t).min <= i <= np.iinfo(t).max]
    return ctx.rng.choice(ts)(i) if ts else i


def _npint_list(ctx, seq):
    """The sequence as a list of NumPy integer scalars of one common type (a list mixing uint64
    with signed types is promoted to float64 by np.unique — NumPy's rule, not a list of integers
    any more — and is left out)."""
    ts = [t for t in (np.int8, np.int16, np.int32, np.int64, np.uint8, np.uint16, np.uint32, np.uint64)
          if all(np.iinfo(t).min <= x <= np.iinfo(t).max for x in seq)]
    t = ctx.rng.choice(ts)
    return [t(x) for x in seq]


def _values(ctx, ang, m):
    """Objects of every argument class for `degree=` / `size=`."""
    npts = getattr(ang, PREFIX[m] + "_NPOINTS")
    ks, ds = sorted(npts), sorted(npts.values())
    ints = [0, 1, ctx.rng.choice(ds), ctx.rng.choice(ds) + 1, ds[-1], ds[-1] + 1, ctx.rng.choice(ks), ctx.rng.choice(ks) - 1,
            ks[-1], ks[-1] + 1, ctx.rng.randrange(0, ks[-1])]
    vals = [None, True, False, np.True_, np.bool_(False), -1, -ctx.rng.randrange(1, 50), np.int64(-3), np.int8(-1), 2 ** 70,
            2.5, 5.0, float(ctx.rng.choice(ds)), np.float64(7.0), np.float32(3.0), "7", b"7", np.array(5), np.array([5]),
            [5], (5,), 5 + 0j, float("nan"), float("inf")]
    for i in ints:
        vals += [i, _npint(ctx, i)]
    return vals


def _corr_classes(ctx: Ctx, ang):
    """Class 2/4/6: every kind of scalar argument, both arguments given, positional and keyword,
    unknown and differently spelled methods — against the generated _get_degree_and_size."""
    f = ang.AngularGrid._get_degree_and_size
    cases = []
    for m in METHODS + ["Lebedev", "SPHERICAL", "maxdet_", "gauss"]:
        vals = _values(ctx, ang, m if m in METHODS else "lebedev")
        pairs = [(v, None) for v in vals] + [(None, v) for v in vals]
        pairs += [(ctx.rng.choice(vals), ctx.rng.choice(vals)) for _ in range(ctx.n(40, 400))]
        if m not in METHODS:
            pairs = ctx.rng.sample(pairs, 12)
        cases += [(m, d, sz) for d, sz in pairs]
    model = driver_batch([f"C12.gds {m} {_tok(d)} {_tok(sz)}" for m, d, sz in cases])
    for i, ((m, d, sz), ans) in enumerate(zip(cases, model)):
        with warnings.catch_warnings():
            warnings.simplefilter("ignore")
            try:
                r = f(d, sz, m) if i % 2 else f(degree=d, size=sz, method=m)
                impl = f"ok {int(r[0])} {int(r[1])}"
            except Exception as e:  # noqa: BLE001
                impl = _tag(e)
        cls = f"{type(d).__name__}/{type(sz).__name__}"
        ctx.count(["gds", m, repr(d), repr(sz)], nontrivial=(d is not None and sz is not None) or _tok(d) == "other" or _tok(sz) == "other",
                  tag="class:" + ("both" if d is not None and sz is not None else "other" if "other" in (_tok(d), _tok(sz)) else "npint" if isinstance(d, np.integer) or isinstance(sz, np.integer) else "int"))
        if impl != ans:
            ctx.fail("corr", f"gds:{m}:{cls}", f"_get_degree_and_size(degree={d!r}, size={sz!r}, method={m!r}): implementation {impl}, generated model {ans}",
                     witness={"method": m, "degree": repr(d), "size": repr(sz), "degree_token": _tok(d), "size_token": _tok(sz), "impl": impl, "model": ans})


def _containers(ctx, seq):
    """The same sequence of sizes in every container / dtype the converter may be handed:
    -> (label, object, class of its elements)."""
    a = np.array(seq, dtype=np.int64)
    out = [("list", list(seq), "int"), ("tuple", tuple(seq), "int"), ("int64", a.copy(), "int"),
           ("int32", a.astype(np.int32), "int"), ("object", np.array(list(seq), dtype=object), "int"),
           ("list-npint", _npint_list(ctx, seq), "int")]
    if all(0 <= x < 65536 for x in seq):
        out.append(("uint16", a.astype(np.uint16), "int"))
    ro = a.copy()
    ro.setflags(write=False)
    out.append(("read-only", ro, "int"))
    out.append(("non-contiguous", np.repeat(a, 2)[::2], "int"))
    out.append(("float64", a.astype(float), "other"))
    out.append(("float-list", [float(x) for x in seq], "other"))
    out.append(("bool", a % 2 == 0, "other"))
    return out


def _corr_containers(ctx: Ctx, ang, pool):
    """Class 2/3/5/6: container kind and dtype of `sizes`, the same array object reused under
    every method, keyword vs positional `method`, input left unchanged, output a fresh int array."""
    conv = ang.AngularGrid.convert_angular_sizes_to_degrees
    other = dict(zip(METHODS, driver_batch([f"C12.gds {m} none other" for m in METHODS])))
    jobs = []
    for _ in range(ctx.n(14, 200)):
        L = ctx.rng.randrange(0, 7)
        seq = [ctx.rng.choice(pool) for _ in range(L)]
        if ctx.rng.random() < 0.15 and seq:
            seq[ctx.rng.randrange(L)] = -ctx.rng.randrange(1, 9)
        variants = [seq, sorted(seq), sorted(seq, reverse=True), seq + seq[::-1]]
        seq = ctx.rng.choice(variants)
        for label, obj, cls in _containers(ctx, seq):
            jobs.append((seq, label, obj, cls))
    model = {}
    keys = sorted({(m, tuple(seq)) for seq, *_ in jobs for m in METHODS})
    for k, ans in zip(keys, driver_batch([f"C12.convert {m} {len(q)} " + " ".join(map(str, q)) for m, q in keys])):
        model[k] = ans
    for seq, label, obj, cls in jobs:
        before = obj.copy() if isinstance(obj, np.ndarray) else type(obj)(obj)
        for j, m in enumerate(ctx.rng.sample(METHODS, len(METHODS))):     # the same object under every method
            want = model[(m, tuple(seq))] if cls == "int" else ("ok 0" if not seq else other[m])
            with warnings.catch_warnings():
                warnings.simplefilter("ignore")
                try:
                    d = conv(obj, m) if j % 2 else conv(obj, method=m)
                    impl = "ok " + " ".join([str(len(d))] + [str(int(x)) for x in d])
                except Exception as e:  # noqa: BLE001
                    d, impl = None, _tag(e)
            _HISTORY.append([m, list(seq)])
            ctx.count(["convert-container", label, m, seq], nontrivial=len(set(seq)) >= 2, tag="container:" + label)
            if impl != want:
                ctx.fail("corr", f"convert:{m}:{label}", f"convert_angular_sizes_to_degrees({label} {seq}, {m}): implementation {impl}, generated model {want}",
                         witness={"method": m, "sizes": seq, "container": label, "impl": impl, "model": want})
            same = np.array_equal(obj, before) if isinstance(obj, np.ndarray) else obj == before
            if not same:
                ctx.fail("corr", f"convert:{m}:{label}:input-changed", f"convert_angular_sizes_to_degrees changed its input {label} {seq} -> {list(obj)}",
                         witness={"method": m, "sizes": seq, "container": label})
                break
            if d is not None and not (isinstance(d, np.ndarray) and d.dtype.kind in "iu" and d.shape == (len(seq),)
                                      and not (isinstance(obj, np.ndarray) and np.shares_memory(d, obj))):
                ctx.fail("corr", f"convert:{m}:{label}:result-kind", f"convert_angular_sizes_to_degrees({label} {seq}, {m}) returned {type(d).__name__} "
                         f"dtype={getattr(d, 'dtype', None)} shape={getattr(d, 'shape', None)} (expected a fresh integer array of that length)",
                         witness={"method": m, "sizes": seq, "container": label})


_FILES = {}


def _file_points(pkg, name):
    """points array of the data file the model names (package `grid.x.y` -> <src>/x/y)."""
    if (pkg, name) not in _FILES:
        f = SRC.joinpath(*pkg.split(".")[1:]) / name
        if not f.exists():
            _FILES[(pkg, name)] = None
        else:
            with np.load(f) as z:
                _FILES[(pkg, name)] = np.array(z["points"])
    return _FILES[(pkg, name)]


def _construction_plan(ctx: Ctx, ang, n_each):
    """A history of AngularGrid constructions: (method spelling, style, degree, size, cache)."""
    plan = []
    for m in METHODS:
        npts = getattr(ang, PREFIX[m] + "_NPOINTS")
        ks, ds = sorted(npts), sorted(npts.values())
        small_s = [k for k in ks if k <= 1300]
        small_d = [npts[k] for k in small_s]
        degs = {0, 1, ds[-1], ds[-1] + 1, small_d[-1]} | {ctx.rng.choice(small_d) + ctx.rng.choice((-1, 0, 1)) for _ in range(n_each)}
        sizes = {0, 1, ks[-1], ks[-1] + 1} | {ctx.rng.choice(small_s) + ctx.rng.choice((-1, 0, 1)) for _ in range(n_each)}
        spell = [m, m.upper(), m.capitalize(), m.title()]
        for d in degs:
            for _ in range(2):      # every request is built (at least) twice, interleaved with the others
                v = ctx.rng.choice([d, d, _npint(ctx, d), float(d) if ctx.rng.random() < 0.3 else d])
                plan.append((ctx.rng.choice(spell), ctx.rng.choice(["deg-kw", "deg-pos"]), v, None, ctx.rng.random() < 0.5))
        for sz in sizes:
            for _ in range(2):
                st = ctx.rng.choice(["size", "size-degnone", "both"])
                d = ctx.rng.choice([0, ctx.rng.choice(ds), ds[-1] + 5, 2.5, True]) if st == "both" else None
                plan.append((ctx.rng.choice(spell), st, d, _npint(ctx, sz) if ctx.rng.random() < 0.3 else sz, ctx.rng.random() < 0.5))
        plan.append((m, "deg-kw", None, None, True))
        plan.append((m + "x", "deg-kw", 5, None, True))
    plan += [("lebedev", "default", None, None, True)] * 2
    ctx.rng.shuffle(plan)
    return plan


def _construct(ang, spelling, style, d, sz, cache):
    A = ang.AngularGrid
    with warnings.catch_warnings():
        warnings.simplefilter("ignore")
        if style == "default":
            return A()
        if style == "deg-kw":
            return A(degree=d, method=spelling, cache=cache)
        if style == "deg-pos":
            return A(d, method=spelling, cache=cache)
        if style == "size":
            return A(size=sz, method=spelling, cache=cache)
        if style == "size-degnone":
            return A(None, size=sz, cache=cache, method=spelling)
        return A(degree=d, size=sz, method=spelling, cache=cache)


def _corr_constructions(ctx: Ctx, ang):
    """Class 1/4/6: AngularGrid(...) as one history of calls in this process — cache on and off,
    degree / size / both, positional / keyword, any spelling of the method, the largest degree and
    size of every method, every request at least twice — each compared with the generated selection
    part of __init__: reported degree, size, number of points, the cache entry, and the points of the
    very file the model names."""
    plan = _construction_plan(ctx, ang, ctx.n(3, 25))
    dflt = inspect.signature(ang.AngularGrid.__init__).parameters["degree"].default
    lines = []
    for sp, st, d, sz, cache in plan:
        if st == "default":
            lines.append("C12.init0")
        else:
            lines.append(f"C12.init {sp} {_tok(dflt if st == 'size' else d)} {_tok(sz)}")
    model = driver_batch(lines)
    for step, ((sp, st, d, sz, cache), ans) in enumerate(zip(plan, model)):
        try:
            g = _construct(ang, sp, st, d, sz, cache)
            impl = f"ok {int(g.degree)} {int(g.size)}"
        except Exception as e:  # noqa: BLE001
            g, impl = None, _tag(e)
        ctx.count(["init", sp, st, repr(d), repr(sz), cache], nontrivial=True, tag="init:" + st + (":reject" if g is None else ""))
        wit = {"method": sp, "style": st, "degree": repr(d), "size": repr(sz), "cache": cache, "impl": impl, "model": ans,
               "degree_token": _tok(d), "size_token": _tok(sz), "history": [[a, b, repr(c), repr(e_), f] for a, b, c, e_, f in plan[max(0, step - 10):step]]}
        what = f"AngularGrid({st}: degree={d!r}, size={sz!r}, method={sp!r}, cache={cache}) as call #{step} of a history"
        if g is None or not ans.startswith("ok"):
            if impl != ans:
                ctx.fail("corr", f"init:{sp.lower()}:{st}", f"{what}: implementation {impl}, generated model {ans}", witness=wit)
            continue
        _, md, ms, mcache, mkey, pkg, fname = ans.split()
        if impl != f"ok {md} {ms}":
            ctx.fail("corr", f"init:{sp.lower()}:{st}", f"{what}: implementation {impl}, generated model ok {md} {ms}", witness=wit)
            continue
        pts = _file_points(pkg, fname)
        if pts is None:
            ctx.fail("corr", f"init:{sp.lower()}:file", f"{what}: the model names the file {pkg}/{fname}, which does not exist", witness=wit)
            continue
        if not (g.points.shape == pts.shape == (int(ms), 3) and np.array_equal(g.points, pts) and g.weights.shape == (int(ms),)
                and g.method == sp.lower()):
            ctx.fail("corr", f"init:{sp.lower()}:points", f"{what}: reports degree {g.degree}, size {g.size}, but its {len(g.points)} points / {len(g.weights)} weights "
                     f"are not the {len(pts)} points of {fname}", witness=wit)
        if cache:
            ent = getattr(ang, mcache).get(int(mkey))
            if ent is None or not np.array_equal(ent[0], pts):
                ctx.fail("corr", f"init:{sp.lower()}:cache", f"{what}: {mcache}[{mkey}] " + ("is missing" if ent is None else f"holds {len(ent[0])} points that are not those of {fname}"), witness=wit)


def _corr_atomgrid(ctx: Ctx, ang):
    """observe_at AtomGrid(...).degrees: per-shell degrees for `degrees=` and for `sizes=`."""
    from grid.atomgrid import AtomGrid
    from grid.onedgrid import GaussLaguerre

    jobs = []
    for m in METHODS:
        npts = getattr(ang, PREFIX[m] + "_NPOINTS")
        small = [k for k in sorted(npts) if k <= 400]
        for kind in ("deg", "size"):
            for _ in range(ctx.n(2, 12)):
                L = ctx.rng.randrange(2, 6)
                src = [npts[k] for k in small] if kind == "deg" else small
                seq = [max(0, ctx.rng.choice(src) + ctx.rng.choice((-1, 0, 0, 1))) for _ in range(L)]
                jobs.append((m, kind, seq))
    lines = []
    for m, kind, seq in jobs:
        lines += [f"C12.resolve {m} deg {x}" for x in seq] if kind == "deg" else [f"C12.convert {m} {len(seq)} " + " ".join(map(str, seq))]
    ans = iter(driver_batch(lines))
    for m, kind, seq in jobs:
        if kind == "deg":
            want = [int(next(ans).split()[1]) for _ in seq]
        else:
            want = [int(x) for x in next(ans).split()[2:]]
        rg = GaussLaguerre(len(seq))
        with warnings.catch_warnings():
            warnings.simplefilter("ignore")
            cont = ctx.rng.choice([list, np.array])
            g = AtomGrid(rg, degrees=cont(seq), method=m) if kind == "deg" else AtomGrid(rg, sizes=cont(seq), method=m)
        got = [int(x) for x in g.degrees]
        ctx.count(["atomgrid", m, kind, seq], nontrivial=True, tag="atomgrid:" + kind)
        if got != want:
            ctx.fail("corr", f"atomgrid:{m}:{kind}", f"AtomGrid(rgrid, {'degrees' if kind == 'deg' else 'sizes'}={seq}, method={m}).degrees = {got}, generated model {want}",
                     witness={"method": m, "kind": kind, "request": seq, "impl": got, "model": want})


def _requests(ctx: Ctx, ang, full: bool):
    """-> list of (method, kind, n)"""
    reqs = []
    for m in METHODS:
        npts = getattr(ang, PREFIX[m] + "_NPOINTS")
        maxd, maxs = max(npts.values()), max(npts.keys())
        reqs += [(m, "deg", n) for n in range(0, maxd + 3)]
        if full:
            reqs += [(m, "size", n) for n in range(0, maxs + 3)]
        else:
            ss = set()
            for k in npts:
                ss.update((k - 1, k, k + 1))
            ss.update((0, 1, 2, maxs + 1, maxs + 2))
            stride = 37 + ctx.rng.randrange(40)
            ss.update(range(ctx.rng.randrange(stride), maxs, stride))
            reqs += [(m, "size", n) for n in sorted(s for s in ss if s >= 0)]
    return reqs


def corr(ctx: Ctx):
    ang = importlib.import_module("grid.angular")
    reqs = _requests(ctx, ang, ctx.thorough)
    lines = [f"C12.resolve {m} {k} {n}" for m, k, n in reqs]
    model = driver_batch(lines)
    for (m, k, n), ans in zip(reqs, model):
        npts = getattr(ang, PREFIX[m] + "_NPOINTS")
        keys = npts.values() if k == "deg" else npts.keys()
        impl = _impl(ang, m, degree=n) if k == "deg" else _impl(ang, m, size=n)
        ctx.count([m, k, n], nontrivial=(n not in keys), tag=f"{m}:{k}:" + ("hit" if n in keys else ("reject" if ans == "value-error" else "bisect")))
        if impl != ans:
            ctx.fail("corr", f"resolve:{m}:{k}", f"_get_degree_and_size({k}={n}, method={m}): implementation {impl}, model {ans}",
                     witness={"method": m, "kind": k, "request": n, "impl": impl, "model": ans})
    ctx.exhaustive = ctx.thorough
    # np.integer requests take the same path
    for m in METHODS:
        for n in (np.int64(7), np.int32(20)):
            a = _impl(ang, m, degree=n)
            b = _impl(ang, m, degree=int(n))
            ctx.count([m, "npint", int(n)], nontrivial=False, tag="npint")
            if a != b:
                ctx.fail("corr", f"resolve:{m}:npint", f"np.integer degree {n!r} resolves to {a}, int to {b}")
    # malformed stream: rejected before the modelled part
    for m in METHODS:
        for bad in (-1, 2.5, "7"):
            for kw in ("degree", "size"):
                r = _impl(ang, m, **{kw: bad})
                ctx.count([m, kw, repr(bad)], nontrivial=False, tag="malformed")
                if r != "value-error":
                    ctx.fail("corr", f"resolve:{m}:malformed", f"{kw}={bad!r} not rejected: {r}")
        r = _impl(ang, m)
        if r != "value-error":
            ctx.fail("corr", f"resolve:{m}:malformed", f"degree=None,size=None not rejected: {r}")
    # converter on sequences: a *history* of calls in one process; the sizes come from one shared
    # pool (table keys of every method and values around them), so the same size is converted
    # under different methods, in both orders, repeatedly — the rule is stateless, any memory of
    # earlier calls shows up as a disagreement with the model
    pool = set()
    for m in METHODS:
        ks = sorted(getattr(ang, PREFIX[m] + "_NPOINTS"))
        for k in ks[:14] + ctx.rng.sample(ks, min(6, len(ks))) + [ks[-1]]:
            pool.update((k - 1, k, k + 1))
    pool = sorted(x for x in pool if x >= 0)
    nseq = ctx.n(160, 3000)
    seqs = []
    for _ in range(nseq):
        m = ctx.rng.choice(METHODS)
        npts = list(getattr(ang, PREFIX[m] + "_NPOINTS"))
        L = ctx.rng.randrange(0, 9)
        r = ctx.rng.random()
        if r < 0.7:
            src = pool
        else:
            src = [ctx.rng.randrange(0, max(npts) + 1) for _ in range(max(1, L // 2))] + [ctx.rng.choice(npts)]
            if ctx.rng.random() < 0.3:
                src.append(max(npts) + 1 + ctx.rng.randrange(5))
        seqs.append((m, [ctx.rng.choice(src) for _ in range(L)]))
    model = driver_batch([f"C12.convert {m} {len(s)} " + " ".join(map(str, s)) for m, s in seqs])
    for (m, s), ans in zip(seqs, model):
        _HISTORY.append([m, list(s)])
        try:
            d = ang.AngularGrid.convert_angular_sizes_to_degrees(np.array(s, dtype=int), m)
            impl = "ok " + " ".join([str(len(d))] + [str(int(x)) for x in d])
        except ValueError:
            impl = "value-error"
        ctx.count(["convert", m, s], nontrivial=len(set(s)) >= 2, tag="convert:" + ("reject" if impl == "value-error" else "ok"))
        if impl != ans:
            ctx.fail("corr", f"convert:{m}", f"convert_angular_sizes_to_degrees({s}, {m}) after earlier calls with other methods: implementation {impl}, model {ans}",
                     witness={"method": m, "sizes": s, "impl": impl, "model": ans,
                              "history": [[mm, ss] for mm, ss in seqs[:seqs.index((m, s))][-12:]]})
    _corr_classes(ctx, ang)
    _corr_containers(ctx, ang, pool)
    _corr_constructions(ctx, ang)
    _corr_atomgrid(ctx, ang)
    ctx.traces += 1


SNIPPET = """import warnings; warnings.filterwarnings('ignore')
import numpy as np
from importlib.resources import files
from grid import angular as ang
method, kind, n = {method!r}, {kind!r}, {n}
P = {{'lebedev':'LEBEDEV','spherical':'SPHERICAL','maxdet':'MAX_DET','ahrens_beylkin':'AHRENS_BEYLKIN'}}[method]
npts = getattr(ang, P + '_NPOINTS')           # size -> degree
pairs = sorted((d, s) for s, d in npts.items())
cands = [(d, s) for d, s in pairs if (d if kind == 'deg' else s) >= n]
try:
    got = ang.AngularGrid._get_degree_and_size(degree=n if kind == 'deg' else None, size=n if kind == 'size' else None, method=method)
    got = (int(got[0]), int(got[1]))
except (ValueError, IndexError) as e:
    got = type(e).__name__
want = min(cands, key=lambda p: p[0] if kind == 'deg' else p[1]) if cands else 'ValueError'
assert got == want, f'{{method}} {{kind}}={{n}}: got {{got}}, smallest supported not below is {{want}}'
"""


def _want(ang, m, kind, n):
    """Brute force over the table: the supported (degree, size) with the least degree (size) not
    below the request, or None."""
    npts = getattr(ang, PREFIX[m] + "_NPOINTS")
    cands = [(int(d), int(sz)) for sz, d in npts.items() if (d if kind == "deg" else sz) >= n]
    return min(cands, key=lambda p: p[0] if kind == "deg" else p[1]) if cands else None


_DIRFILES = {}


def _dir_points(m, d, sz):
    """points of the data file with this degree and size, found by listing the directory."""
    if (m, d, sz) not in _DIRFILES:
        fs = [f for f in (SRC / "data" / DIRS[m]).glob("*.npz") if f.name.endswith(f"_{d}_{sz}.npz")]
        if len(fs) != 1:
            _DIRFILES[(m, d, sz)] = None
        else:
            with np.load(fs[0]) as z:
                _DIRFILES[(m, d, sz)] = np.array(z["points"])
    return _DIRFILES[(m, d, sz)]


BUILT_SNIPPET = """import warnings; warnings.filterwarnings('ignore')
import inspect
import numpy as np
from grid import angular as ang
A = ang.AngularGrid
P = {{'lebedev':'LEBEDEV','spherical':'SPHERICAL','maxdet':'MAX_DET','ahrens_beylkin':'AHRENS_BEYLKIN'}}
def build(sp, st, d, sz, cache):
    if st == 'default': return A()
    if st == 'deg-kw': return A(degree=d, method=sp, cache=cache)
    if st == 'deg-pos': return A(d, method=sp, cache=cache)
    if st == 'size': return A(size=sz, method=sp, cache=cache)
    if st == 'size-degnone': return A(None, size=sz, cache=cache, method=sp)
    return A(degree=d, size=sz, method=sp, cache=cache)
hist = {hist!r}      # (method, style, degree, size, cache), the last one is the failing call
for sp, st, d, sz, cache in hist:
    m = sp.lower()
    if st == 'default':
        par = inspect.signature(A.__init__).parameters
        m, d, sz = par['method'].default, par['degree'].default, par['size'].default
    npts = getattr(ang, P[m] + '_NPOINTS')
    kind, n = ('size', sz) if sz is not None else ('deg', d)
    cands = [(dd, ss) for ss, dd in npts.items() if (dd if kind == 'deg' else ss) >= n]
    try:
        g = build(sp, st, d, sz, cache)
        got = (int(g.degree), int(g.size), len(g.points), len(g.weights))
    except Exception as e:
        got = type(e).__name__
    if cands:
        w = min(cands, key=lambda p: p[0] if kind == 'deg' else p[1])
        want = (w[0], w[1], w[1], w[1])
    else:
        want = 'ValueError'
    assert got == want, f'AngularGrid({{st}}: degree={{d}}, size={{sz}}, method={{sp}}, cache={{cache}}): (degree, size, points, weights) = {{got}}, smallest supported not below gives {{want}}'
"""


def _plain(v):
    return v if v is None else int(v)


def _check_built(ctx: Ctx, ang, step, done):
    """The property on one construction (after the constructions in `done`): requests made of
    integers only; float / negative arguments are outside the property's quantifier."""
    sp, st, d, sz, cache = step
    m = sp.lower()
    if m not in METHODS or any(_tok(v) == "other" or (v is not None and int(v) < 0) for v in (d, sz)):
        return True
    if st == "default":     # whatever the defaults are, they are a request like any other
        par = inspect.signature(ang.AngularGrid.__init__).parameters
        m, d, sz = par["method"].default, par["degree"].default, par["size"].default
        if m not in METHODS or any(not (v is None or (isinstance(v, int) and v >= 0)) for v in (d, sz)):
            return True
    if sz is not None:
        kind, n = "size", int(sz)      # "If both degree and size are given, size is used"
    elif d is not None:
        kind, n = "deg", int(d)
    else:
        return True
    w = _want(ang, m, kind, n)
    try:
        g = _construct(ang, sp, st, d, sz, cache)
        got = (int(g.degree), int(g.size), len(g.points), len(g.weights))
    except Exception as e:  # noqa: BLE001
        g, got = None, type(e).__name__
    want = "ValueError" if w is None else (w[0], w[1], w[1], w[1])
    ok = got == want
    why = f"(degree, size, points, weights) = {got}, the smallest supported grid not below the request gives {want}"
    if ok and g is not None:
        pts = _dir_points(m, w[0], w[1])
        if pts is None:
            ctx.fail("oracle", f"angular:{m}:{w[0]}_{w[1]}:file", f"{m}: no single data file for degree {w[0]} with {w[1]} points",
                     witness={"method": m, "degree": w[0], "size": w[1]})
            return True
        if not np.array_equal(g.points, pts):
            ok, why = False, f"its points are not those stored for degree {w[0]} / size {w[1]}"
    if not ok:
        hist = [(a, b, _plain(c), _plain(e_), f) for a, b, c, e_, f in done[-60:] + [step] if _tok(c) != "other" and _tok(e_) != "other"]
        ctx.fail("oracle", f"angular:{m}:built", f"AngularGrid({st}: degree={d!r}, size={sz!r}, method={sp!r}, cache={cache}) after {len(done)} earlier constructions: {why}",
                 witness={"method": sp, "style": st, "degree": repr(d), "size": repr(sz), "cache": cache, "got": got, "want": want, "history": hist},
                 snippet=BUILT_SNIPPET.format(hist=hist))
    return ok


def _oracle_atomgrid(ctx: Ctx, ang, n):
    from grid.atomgrid import AtomGrid
    from grid.onedgrid import GaussLaguerre

    for m in METHODS:
        npts = getattr(ang, PREFIX[m] + "_NPOINTS")
        small = [k for k in sorted(npts) if k <= 400]
        for kind in ("deg", "size"):
            for _ in range(n):
                src = [npts[k] for k in small] if kind == "deg" else small
                seq = [max(0, ctx.rng.choice(src) + ctx.rng.choice((-1, 0, 1))) for _ in range(ctx.rng.randrange(2, 5))]
                with warnings.catch_warnings():
                    warnings.simplefilter("ignore")
                    rg = GaussLaguerre(len(seq))
                    g = AtomGrid(rg, degrees=list(seq), method=m) if kind == "deg" else AtomGrid(rg, sizes=list(seq), method=m)
                got = [int(x) for x in g.degrees]
                want = [_want(ang, m, kind, x)[0] for x in seq]
                shells = [int(g.indices[i + 1] - g.indices[i]) for i in range(len(seq))]
                wsz = [_want(ang, m, kind, x)[1] for x in seq]
                if got != want or shells != wsz:
                    ctx.fail("oracle", f"angular:{m}:atomgrid", f"AtomGrid(rgrid, {'degrees' if kind == 'deg' else 'sizes'}={seq}, method={m}): shell degrees {got} / shell sizes {shells}, "
                             f"smallest supported not below the request: degrees {want} / sizes {wsz}",
                             witness={"method": m, "kind": kind, "request": seq, "got": got, "want": want},
                             snippet=("import warnings; warnings.filterwarnings('ignore')\nfrom grid import angular as ang\nfrom grid.atomgrid import AtomGrid\nfrom grid.onedgrid import GaussLaguerre\n"
                                      f"m, kind, seq = {m!r}, {kind!r}, {seq!r}\n"
                                      "P = {'lebedev':'LEBEDEV','spherical':'SPHERICAL','maxdet':'MAX_DET','ahrens_beylkin':'AHRENS_BEYLKIN'}\n"
                                      "npts = getattr(ang, P[m] + '_NPOINTS')\n"
                                      "g = AtomGrid(GaussLaguerre(len(seq)), degrees=seq, method=m) if kind == 'deg' else AtomGrid(GaussLaguerre(len(seq)), sizes=seq, method=m)\n"
                                      "want = [min((d, s) for s, d in npts.items() if (d if kind == 'deg' else s) >= x) if kind == 'deg' else min((s, d) for s, d in npts.items() if s >= x)[::-1] for x in seq]\n"
                                      "assert [int(x) for x in g.degrees] == [w[0] for w in want], ([int(x) for x in g.degrees], want)\n"
                                      "assert [int(g.indices[i+1]-g.indices[i]) for i in range(len(seq))] == [w[1] for w in want], want\n"))


    # pruned atomic grids: every shell of a sector gets the smallest supported degree (size) of ITS method not below the sector's
    # request, over the whole range of the method (beyond the Lebedev maximum 131 for the other three methods too); the sector
    # bounds are put far below / above all radial points so that the sector assignment itself (C05) plays no role
    for m in METHODS:
        npts = getattr(ang, PREFIX[m] + "_NPOINTS")
        dmax, smax = max(npts.values()), max(npts)
        for kind in ("deg", "size"):
            for _ in range(max(2, n // 2)):
                top = dmax if kind == "deg" else min(smax, 6000)
                req = [ctx.rng.randrange(0, top + 1), ctx.rng.choice([ctx.rng.randrange(0, top + 1), ctx.rng.randrange(max(0, top - 40), top + 1), ctx.rng.randrange(0, 40)])]
                which = ctx.rng.randrange(2)
                bound = [1e-9, 1e9][1 - which]          # all shells in sector `which`
                with warnings.catch_warnings():
                    warnings.simplefilter("ignore")
                    rg = GaussLaguerre(3)
                    kw = {"d_sectors": list(req)} if kind == "deg" else {"s_sectors": list(req)}
                    try:
                        g = AtomGrid.from_pruned(rg, 1.0, r_sectors=[bound], method=m, **kw)
                        got, shells = [int(x) for x in g.degrees], [int(g.indices[i + 1] - g.indices[i]) for i in range(3)]
                    except Exception as e:
                        got, shells = f"{type(e).__name__}: {str(e)[:80]}", None
                # both sector requests are converted (a conversion error for the unused sector is still an error of the call)
                want, wsz = [_want(ang, m, kind, req[which])[0]] * 3, [_want(ang, m, kind, req[which])[1]] * 3
                ctx.count(["from_pruned", m, kind, req, which], nontrivial=True, tag=f"from_pruned:{m}")
                if got != want or shells != wsz:
                    ctx.fail("oracle", f"angular:{m}:atomgrid:from_pruned",
                             f"AtomGrid.from_pruned(GaussLaguerre(3), 1.0, r_sectors=[{bound}], {'d' if kind == 'deg' else 's'}_sectors={req}, method={m}): shell degrees {got} / sizes {shells}; "
                             f"all shells lie in sector {which}: smallest supported not below {req[which]} is degree {want[0]} / size {wsz[0]}",
                             witness={"method": m, "kind": kind, "request": req, "sector": which, "got": got, "want": want},
                             snippet=("import warnings; warnings.filterwarnings('ignore')\nfrom grid import angular as ang\nfrom grid.atomgrid import AtomGrid\nfrom grid.onedgrid import GaussLaguerre\n"
                                      f"m, kind, req, which, bound = {m!r}, {kind!r}, {req!r}, {which}, {bound!r}\n"
                                      "P = {'lebedev':'LEBEDEV','spherical':'SPHERICAL','maxdet':'MAX_DET','ahrens_beylkin':'AHRENS_BEYLKIN'}\n"
                                      "npts = getattr(ang, P[m] + '_NPOINTS')\n"
                                      "kw = {'d_sectors': req} if kind == 'deg' else {'s_sectors': req}\n"
                                      "g = AtomGrid.from_pruned(GaussLaguerre(3), 1.0, r_sectors=[bound], method=m, **kw)\n"
                                      "w = min((d, s) for s, d in npts.items() if (d if kind == 'deg' else s) >= req[which])\n"
                                      "assert [int(x) for x in g.degrees] == [w[0]] * 3 and [int(g.indices[i+1]-g.indices[i]) for i in range(3)] == [w[1]] * 3, ([int(x) for x in g.degrees], w)\n"))


def oracle_at(ctx: Ctx, failure):
    """Evaluate the property itself at an input on which model and implementation disagreed."""
    ang = importlib.import_module("grid.angular")
    w = failure.witness or {}
    if not isinstance(w, dict):
        return
    key = failure.key
    def num(t):  # noqa: E306
        return None if t == "none" else int(t)
    if key.startswith("resolve:") and {"method", "kind", "request"} <= set(w):
        m, k, n = w["method"], w["kind"], int(w["request"])
        _oracle_request(ctx, ang, m, k, n)
    elif key.startswith("gds:") and w.get("method") in METHODS and "other" not in (w.get("degree_token"), w.get("size_token")):
        d, sz = num(w["degree_token"]), num(w["size_token"])
        if d is not None and d >= 0:        # "if both degree and size are given degree is used" (this method's contract)
            _oracle_request(ctx, ang, w["method"], "deg", d)
        elif d is None and sz is not None and sz >= 0:
            _oracle_request(ctx, ang, w["method"], "size", sz)
    elif key.startswith("convert:") and w.get("method") in METHODS and "sizes" in w:
        m, seq = w["method"], [int(x) for x in w["sizes"]]
        npts = getattr(ang, PREFIX[m] + "_NPOINTS")
        if seq and all(0 <= x <= max(npts) for x in seq):
            _oracle_convert(ctx, ang, m, seq)
    elif key.startswith("init:") and "other" not in (w.get("degree_token"), w.get("size_token")) and "style" in w:
        step = (w["method"], w["style"], num(w["degree_token"]), num(w["size_token"]), bool(w["cache"]))
        _check_built(ctx, ang, step, [])
    elif key.startswith("atomgrid:"):
        _oracle_atomgrid(ctx, ang, 6)


def _oracle_request(ctx: Ctx, ang, m, k, n):
    got = _impl(ang, m, degree=n) if k == "deg" else _impl(ang, m, size=n)
    w = _want(ang, m, k, n)
    want = "value-error" if w is None else f"ok {w[0]} {w[1]}"
    if got != want:
        ctx.fail("oracle", f"angular:{m}:{k}", f"{m} {k}={n}: got {got}, smallest supported not below is {want}",
                 witness={"method": m, "kind": k, "request": n, "got": got, "want": want},
                 snippet=SNIPPET.format(method=m, kind=k, n=n))


def _oracle_convert(ctx: Ctx, ang, m, seq, container=np.array):
    """The converter on one in-range sequence, after everything this process has converted so far."""
    npts = getattr(ang, PREFIX[m] + "_NPOINTS")
    ks = sorted(npts)
    _HISTORY.append([m, list(seq)])
    with warnings.catch_warnings():
        warnings.simplefilter("ignore")
        try:
            got = [int(x) for x in ang.AngularGrid.convert_angular_sizes_to_degrees(container(seq), m)]
        except Exception as e:  # noqa: BLE001
            got = _tag(e)
    want = [npts[min(k for k in ks if k >= x)] for x in seq]
    if got != want:
        h = [(a, b) for a, b in _HISTORY[-400:]]
        ctx.fail("oracle", f"angular:{m}:convert", f"convert_angular_sizes_to_degrees({getattr(container, '__name__', 'array')}({seq}), {m}) = {got} after {len(h) - 1} earlier converter calls in this process (other methods, same sizes), element-wise rule gives {want}",
                 witness={"method": m, "sizes": seq, "history": [[a, b] for a, b in h]},
                 snippet=CONVERT_SNIPPET.format(hist=[[a, b] for a, b in h]))
        return False
    return True


CONVERT_SNIPPET = ("import warnings; warnings.filterwarnings('ignore')\nimport numpy as np\nfrom grid import angular as ang\n"
                   "hist = {hist!r}\n"
                   "P = {{'lebedev':'LEBEDEV','spherical':'SPHERICAL','maxdet':'MAX_DET','ahrens_beylkin':'AHRENS_BEYLKIN'}}\n"
                   "for m, s in hist:\n"
                   "    npts = getattr(ang, P[m] + '_NPOINTS'); ks = sorted(npts)\n"
                   "    if any(x > ks[-1] or x < 0 for x in s): continue\n"
                   "    for c in (np.array, list, tuple):\n"
                   "        d = [int(x) for x in ang.AngularGrid.convert_angular_sizes_to_degrees(c(s), m)]\n"
                   "        want = [npts[min(k for k in ks if k >= x)] for x in s]\n"
                   "        assert d == want, f'{{m}} {{c.__name__}} {{s}}: {{d}} != {{want}}'\n")


def oracle(ctx: Ctx, budget: str):
    """The property on the implementation, against a brute-force minimum over the table
    and the data directory (no bisect, no model)."""
    ang = importlib.import_module("grid.angular")
    reqs = _requests(ctx, ang, full=(budget == "large" or ctx.thorough))
    for m in METHODS:
        npts = getattr(ang, PREFIX[m] + "_NPOINTS")
        degs = getattr(ang, PREFIX[m] + "_DEGREES")
        pairs = [(int(d), int(s)) for s, d in npts.items()]
        pairset = set(pairs)
        if {(int(d), int(s)) for d, s in degs.items()} != pairset:
            ctx.fail("oracle", f"angular:{m}:tables", f"{m}: degree->size and size->degree tables are not inverse of each other")
        filecache = {}
        for (mm, k, n) in reqs:
            if mm != m:
                continue
            got = _impl(ang, m, degree=n) if k == "deg" else _impl(ang, m, size=n)
            cands = [p for p in pairs if (p[0] if k == "deg" else p[1]) >= n]
            if not cands:
                want = "value-error"
            else:
                w = min(cands, key=lambda p: p[0] if k == "deg" else p[1])
                want = f"ok {w[0]} {w[1]}"
            ok = got == want
            if ok and got.startswith("ok"):
                _, d, s = got.split()
                if (d, s) not in filecache:
                    f = SRC / "data" / DIRS[m] / f"{m}_{d}_{s}.npz"
                    good = f.exists()
                    if good:
                        with np.load(f) as z:
                            good = z["points"].shape == (int(s), 3) and len(z["weights"]) in (1, int(s))
                    filecache[(d, s)] = good
                if not filecache[(d, s)]:
                    ctx.fail("oracle", f"angular:{m}:{d}_{s}:file", f"{m}: no data file with {s} points for degree {d}",
                             witness={"method": m, "degree": d, "size": s})
            if not ok:
                ctx.fail("oracle", f"angular:{m}:{k}", f"{m} {k}={n}: got {got}, smallest supported not below is {want}",
                         witness={"method": m, "kind": k, "request": n, "got": got, "want": want},
                         snippet=SNIPPET.format(method=m, kind=k, n=n))
    # integer-like argument kinds take the same rule (bool, NumPy integers of every width)
    for m in METHODS:
        npts = getattr(ang, PREFIX[m] + "_NPOINTS")
        ks = sorted(npts)
        for v in [True, False, _npint(ctx, ctx.rng.choice(ks) - 1), _npint(ctx, ctx.rng.randrange(0, ks[-1] + 1)), np.uint8(ctx.rng.randrange(0, 120))]:
            for k in ("deg", "size"):
                got = _impl(ang, m, degree=v) if k == "deg" else _impl(ang, m, size=v)
                w = _want(ang, m, k, int(v))
                want = "value-error" if w is None else f"ok {w[0]} {w[1]}"
                if got != want:
                    ctx.fail("oracle", f"angular:{m}:{k}", f"{m} {k}={v!r}: got {got}, smallest supported not below is {want}",
                             witness={"method": m, "kind": k, "request": repr(v), "got": got, "want": want},
                             snippet=SNIPPET.format(method=m, kind=k, n=int(v)))
    # built grids: one history of constructions (cache on and off, degree / size / both, any spelling,
    # largest degree and size of every method, every request at least twice, interleaved)
    plan = _construction_plan(ctx, ang, 2 if budget == "small" else 14)
    done = []
    for step in plan:
        if not _check_built(ctx, ang, step, done):
            break
        done.append(step)
    # AtomGrid(...).degrees: no shell coarser than asked for
    _oracle_atomgrid(ctx, ang, 1 if budget == "small" else 8)
    # converter element-wise, as a history of calls with a shared pool of sizes across methods
    pool = set()
    for m in METHODS:
        ks = sorted(getattr(ang, PREFIX[m] + "_NPOINTS"))
        for k in ks[:14]:
            pool.update((k - 1, k, k + 1))
    pool = sorted(x for x in pool if x >= 0)
    for _ in range(60 if budget == "small" else 1500):
        m = ctx.rng.choice(METHODS)
        npts = getattr(ang, PREFIX[m] + "_NPOINTS")
        ks = sorted(npts)
        s = [ctx.rng.choice(pool) if ctx.rng.random() < 0.8 else ctx.rng.randrange(0, ks[-1] + 1)
             for _ in range(ctx.rng.randrange(1, 7))]
        s = [x for x in s if x <= ks[-1]]
        if not s:
            continue
        cont = ctx.rng.choice([np.array, np.array, list, tuple, lambda q: np.array(q, dtype=np.int32), lambda q: np.repeat(np.array(q), 2)[::2]])
        if not _oracle_convert(ctx, ang, m, s, cont):
            break

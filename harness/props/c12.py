"""C12 — degree/size requests resolve to the smallest supported grid not below."""
import importlib

import numpy as np

from ..common import SRC, Ctx, Tokens, driver_batch

LEVEL = "proof"
LEVEL_TEXT = (
    "Lean theorems, unbounded in table length: Python's bisect_left on any ascending list returns the least index "
    "not below the request; the resolution rule returns the least supported value >= request with its table partner; "
    "requests above the maximum are rejected; the sequence converter is element-wise. The regenerated tables of all four "
    "methods and the data-directory listing are decided ascending / mutually inverse / file-backed by the kernel "
    "(decide +kernel). Tie to the code: tables regenerated from the source on every run; the hand model of "
    "_get_degree_and_size is compared with the implementation on every integer request (exhaustive in the thorough tier)."
)
TECHNIQUE = "Lean 4 proof (generic bisect/resolution theorems + kernel-decided regenerated tables) + exhaustive correspondence"
GEN = ["angular_tables"]
LEAN_MODULES = ["GridVerif.Props.C12"]
THEOREMS = [
    "GridVerif.C12.bisect_left_least_index",
    "GridVerif.C12.resolve_spec",
    "GridVerif.C12.resolve_reject",
    "GridVerif.C12.tables_ok",
    "GridVerif.C12.degree_request",
    "GridVerif.C12.size_request",
    "GridVerif.C12.request_above_max_rejected",
    "GridVerif.C12.convert_is_map",
]
RULE = (
    "correspondence: every integer degree 0..max+2 of each of the 4 methods (always) and every size "
    "0..max+2 (thorough: all; quick: every table key k and k-1,k+1 plus a VERIF_SEED stride) sent to "
    "AngularGrid._get_degree_and_size and to the Lean model; random size sequences to "
    "convert_angular_sizes_to_degrees as one history of calls sharing a pool of sizes across methods; non-trivial = request is not itself a table key (bisect path) "
    "or is above the maximum (rejection path) or a sequence with >=2 distinct sizes"
)
TRUSTED_BASE = [
    "Lean 4.33 kernel; axioms propext, Classical.choice, Quot.sound only (audited per theorem)",
    "translator harness/translate/angular_tables.py (dumps dicts in insertion order, reads npz headers)",
    "hand model Model/Bisect.lean of _get_degree_and_size, tied by exhaustive correspondence",
    "Python bisect_left / dict semantics as modelled",
]
ASSUMPTIONS = [
    "np.load returns the arrays stored in the file; file naming method_degree_size.npz",
    "negative / non-integer requests are rejected before the modelled part (checked on a malformed stream)",
]

METHODS = ["lebedev", "spherical", "maxdet", "ahrens_beylkin"]
_HISTORY = []   # every converter call made in this process, in order (replayed by the snippet)
PREFIX = {"lebedev": "LEBEDEV", "spherical": "SPHERICAL", "maxdet": "MAX_DET", "ahrens_beylkin": "AHRENS_BEYLKIN"}
DIRS = {"lebedev": "lebedev", "spherical": "spherical_design", "maxdet": "maxdet", "ahrens_beylkin": "ahrens_beylkin"}


def _impl(ang, method, degree=None, size=None):
    try:
        d, s = ang.AngularGrid._get_degree_and_size(degree=degree, size=size, method=method)
        return f"ok {int(d)} {int(s)}"
    except ValueError:
        return "value-error"
    except IndexError:
        return "index-error"


def _requests(ctx: Ctx, ang, full: bool):
    """-> list of (method, kind, n)"""
    reqs = []
    for m in METHODS:
        npts = getattr(ang, PREFIX[m] + "_NPOINTS")
        maxd, maxs = max(npts.values()), max(npts.keys())
        reqs += [(m, "deg", n) for n in range(0, maxd + 3)]
        if full:
            reqs += [(m, "size", n) for n in range(0, maxs + 3)]
        else:
            ss = set()
            for k in npts:
                ss.update((k - 1, k, k + 1))
            ss.update((0, 1, 2, maxs + 1, maxs + 2))
            stride = 37 + ctx.rng.randrange(40)
            ss.update(range(ctx.rng.randrange(stride), maxs, stride))
            reqs += [(m, "size", n) for n in sorted(s for s in ss if s >= 0)]
    return reqs


def corr(ctx: Ctx):
    ang = importlib.import_module("grid.angular")
    reqs = _requests(ctx, ang, ctx.thorough)
    lines = [f"C12.resolve {m} {k} {n}" for m, k, n in reqs]
    model = driver_batch(lines)
    for (m, k, n), ans in zip(reqs, model):
        npts = getattr(ang, PREFIX[m] + "_NPOINTS")
        keys = npts.values() if k == "deg" else npts.keys()
        impl = _impl(ang, m, degree=n) if k == "deg" else _impl(ang, m, size=n)
        ctx.count([m, k, n], nontrivial=(n not in keys), tag=f"{m}:{k}:" + ("hit" if n in keys else ("reject" if ans == "value-error" else "bisect")))
        if impl != ans:
            ctx.fail("corr", f"resolve:{m}:{k}", f"_get_degree_and_size({k}={n}, method={m}): implementation {impl}, model {ans}",
                     witness={"method": m, "kind": k, "request": n, "impl": impl, "model": ans})
    ctx.exhaustive = ctx.thorough
    # np.integer requests take the same path
    for m in METHODS:
        for n in (np.int64(7), np.int32(20)):
            a = _impl(ang, m, degree=n)
            b = _impl(ang, m, degree=int(n))
            ctx.count([m, "npint", int(n)], nontrivial=False, tag="npint")
            if a != b:
                ctx.fail("corr", f"resolve:{m}:npint", f"np.integer degree {n!r} resolves to {a}, int to {b}")
    # malformed stream: rejected before the modelled part
    for m in METHODS:
        for bad in (-1, 2.5, "7"):
            for kw in ("degree", "size"):
                r = _impl(ang, m, **{kw: bad})
                ctx.count([m, kw, repr(bad)], nontrivial=False, tag="malformed")
                if r != "value-error":
                    ctx.fail("corr", f"resolve:{m}:malformed", f"{kw}={bad!r} not rejected: {r}")
        r = _impl(ang, m)
        if r != "value-error":
            ctx.fail("corr", f"resolve:{m}:malformed", f"degree=None,size=None not rejected: {r}")
    # converter on sequences: a *history* of calls in one process; the sizes come from one shared
    # pool (table keys of every method and values around them), so the same size is converted
    # under different methods, in both orders, repeatedly — the rule is stateless, any memory of
    # earlier calls shows up as a disagreement with the model
    pool = set()
    for m in METHODS:
        ks = sorted(getattr(ang, PREFIX[m] + "_NPOINTS"))
        for k in ks[:14] + ctx.rng.sample(ks, min(6, len(ks))) + [ks[-1]]:
            pool.update((k - 1, k, k + 1))
    pool = sorted(x for x in pool if x >= 0)
    nseq = ctx.n(160, 3000)
    seqs = []
    for _ in range(nseq):
        m = ctx.rng.choice(METHODS)
        npts = list(getattr(ang, PREFIX[m] + "_NPOINTS"))
        L = ctx.rng.randrange(0, 9)
        r = ctx.rng.random()
        if r < 0.7:
            src = pool
        else:
            src = [ctx.rng.randrange(0, max(npts) + 1) for _ in range(max(1, L // 2))] + [ctx.rng.choice(npts)]
            if ctx.rng.random() < 0.3:
                src.append(max(npts) + 1 + ctx.rng.randrange(5))
        seqs.append((m, [ctx.rng.choice(src) for _ in range(L)]))
    model = driver_batch([f"C12.convert {m} {len(s)} " + " ".join(map(str, s)) for m, s in seqs])
    for (m, s), ans in zip(seqs, model):
        _HISTORY.append([m, list(s)])
        try:
            d = ang.AngularGrid.convert_angular_sizes_to_degrees(np.array(s, dtype=int), m)
            impl = "ok " + " ".join([str(len(d))] + [str(int(x)) for x in d])
        except ValueError:
            impl = "value-error"
        ctx.count(["convert", m, s], nontrivial=len(set(s)) >= 2, tag="convert:" + ("reject" if impl == "value-error" else "ok"))
        if impl != ans:
            ctx.fail("corr", f"convert:{m}", f"convert_angular_sizes_to_degrees({s}, {m}) after earlier calls with other methods: implementation {impl}, model {ans}",
                     witness={"method": m, "sizes": s, "impl": impl, "model": ans,
                              "history": [[mm, ss] for mm, ss in seqs[:seqs.index((m, s))][-12:]]})
    ctx.traces += 1


SNIPPET = """import warnings; warnings.filterwarnings('ignore')
import numpy as np
from importlib.resources import files
from grid import angular as ang
method, kind, n = {method!r}, {kind!r}, {n}
P = {{'lebedev':'LEBEDEV','spherical':'SPHERICAL','maxdet':'MAX_DET','ahrens_beylkin':'AHRENS_BEYLKIN'}}[method]
npts = getattr(ang, P + '_NPOINTS')           # size -> degree
pairs = sorted((d, s) for s, d in npts.items())
cands = [(d, s) for d, s in pairs if (d if kind == 'deg' else s) >= n]
try:
    got = ang.AngularGrid._get_degree_and_size(degree=n if kind == 'deg' else None, size=n if kind == 'size' else None, method=method)
    got = (int(got[0]), int(got[1]))
except (ValueError, IndexError) as e:
    got = type(e).__name__
want = min(cands, key=lambda p: p[0] if kind == 'deg' else p[1]) if cands else 'ValueError'
assert got == want, f'{{method}} {{kind}}={{n}}: got {{got}}, smallest supported not below is {{want}}'
"""


def oracle(ctx: Ctx, budget: str):
    """The property on the implementation, against a brute-force minimum over the table
    and the data directory (no bisect, no model)."""
    ang = importlib.import_module("grid.angular")
    reqs = _requests(ctx, ang, full=(budget == "large" or ctx.thorough))
    for m in METHODS:
        npts = getattr(ang, PREFIX[m] + "_NPOINTS")
        degs = getattr(ang, PREFIX[m] + "_DEGREES")
        pairs = [(int(d), int(s)) for s, d in npts.items()]
        pairset = set(pairs)
        if {(int(d), int(s)) for d, s in degs.items()} != pairset:
            ctx.fail("oracle", f"angular:{m}:tables", f"{m}: degree->size and size->degree tables are not inverse of each other")
        filecache = {}
        for (mm, k, n) in reqs:
            if mm != m:
                continue
            got = _impl(ang, m, degree=n) if k == "deg" else _impl(ang, m, size=n)
            cands = [p for p in pairs if (p[0] if k == "deg" else p[1]) >= n]
            if not cands:
                want = "value-error"
            else:
                w = min(cands, key=lambda p: p[0] if k == "deg" else p[1])
                want = f"ok {w[0]} {w[1]}"
            ok = got == want
            if ok and got.startswith("ok"):
                _, d, s = got.split()
                if (d, s) not in filecache:
                    f = SRC / "data" / DIRS[m] / f"{m}_{d}_{s}.npz"
                    good = f.exists()
                    if good:
                        with np.load(f) as z:
                            good = z["points"].shape == (int(s), 3) and len(z["weights"]) in (1, int(s))
                    filecache[(d, s)] = good
                if not filecache[(d, s)]:
                    ctx.fail("oracle", f"angular:{m}:{d}_{s}:file", f"{m}: no data file with {s} points for degree {d}",
                             witness={"method": m, "degree": d, "size": s})
            if not ok:
                ctx.fail("oracle", f"angular:{m}:{k}", f"{m} {k}={n}: got {got}, smallest supported not below is {want}",
                         witness={"method": m, "kind": k, "request": n, "got": got, "want": want},
                         snippet=SNIPPET.format(method=m, kind=k, n=n))
    # built grids report a matching pair (sample; loads files)
    for m in METHODS:
        npts = getattr(ang, PREFIX[m] + "_NPOINTS")
        maxd = max(npts.values())
        for _ in range(3 if budget == "small" else 25):
            n = ctx.rng.randrange(0, min(maxd, 60) + 1)
            g = ang.AngularGrid(degree=n, method=m, cache=False)
            if npts.get(g.size) != g.degree or g.degree < n or g.points.shape != (g.size, 3):
                ctx.fail("oracle", f"angular:{m}:built", f"AngularGrid(degree={n}, method={m}) reports degree {g.degree}, size {g.size}")
    # converter element-wise, as a history of calls with a shared pool of sizes across methods
    pool = set()
    for m in METHODS:
        ks = sorted(getattr(ang, PREFIX[m] + "_NPOINTS"))
        for k in ks[:14]:
            pool.update((k - 1, k, k + 1))
    pool = sorted(x for x in pool if x >= 0)
    hist = []
    for _ in range(60 if budget == "small" else 1500):
        m = ctx.rng.choice(METHODS)
        npts = getattr(ang, PREFIX[m] + "_NPOINTS")
        ks = sorted(npts)
        s = [ctx.rng.choice(pool) if ctx.rng.random() < 0.8 else ctx.rng.randrange(0, ks[-1] + 1)
             for _ in range(ctx.rng.randrange(1, 7))]
        s = [x for x in s if x <= ks[-1]]
        if not s:
            continue
        hist.append((m, s))
        _HISTORY.append([m, list(s)])
        d = ang.AngularGrid.convert_angular_sizes_to_degrees(np.array(s), m)
        want = [npts[min(k for k in ks if k >= x)] for x in s]
        if [int(x) for x in d] != want:
            h = [(a, b) for a, b in _HISTORY[-400:]]
            ctx.fail("oracle", f"angular:{m}:convert", f"convert_angular_sizes_to_degrees({s}, {m}) = {[int(x) for x in d]} after {len(h) - 1} earlier converter calls in this process (other methods, same sizes), element-wise rule gives {want}",
                     witness={"method": m, "sizes": s, "history": [[a, b] for a, b in h]},
                     snippet=(
                         "import warnings; warnings.filterwarnings('ignore')\nimport numpy as np\nfrom grid import angular as ang\n"
                         f"hist = {[[a, b] for a, b in h]!r}\n"
                         "P = {'lebedev':'LEBEDEV','spherical':'SPHERICAL','maxdet':'MAX_DET','ahrens_beylkin':'AHRENS_BEYLKIN'}\n"
                         "for m, s in hist:\n"
                         "    npts = getattr(ang, P[m] + '_NPOINTS'); ks = sorted(npts)\n"
                         "    if any(x > ks[-1] for x in s): continue\n"
                         "    d = [int(x) for x in ang.AngularGrid.convert_angular_sizes_to_degrees(np.array(s, dtype=int), m)]\n"
                         "    want = [npts[min(k for k in ks if k >= x)] for x in s]\n"
                         "    assert d == want, f'{m} {s}: {d} != {want}'\n"))
            break

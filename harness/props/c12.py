"""C12 — degree/size requests resolve to the smallest supported grid not below."""
import importlib
import inspect
import json
import traceback
import warnings

import numpy as np

from ..common import SRC, Ctx, DriverError, Tokens, b2f, driver_batch, f2b
from . import c12_ext as ext

LEVEL = "proof"
LEVEL_TEXT = (
    "Lean theorems, unbounded in table length: Python's bisect_left on any ascending list returns the least index "
    "not below the request; the resolution rule returns the least supported value >= request with its table partner; "
    "requests above the maximum are rejected; the sequence converter is element-wise. The regenerated tables of all four "
    "methods and the data-directory listing are decided ascending / mutually inverse / file-backed by the kernel "
    "(decide +kernel). Tie to the code: tables regenerated from the source on every run; the decision logic itself "
    "(_get_degree_and_size, convert_angular_sizes_to_degrees, _load_precomputed_angular_grid, selection part of __init__) is "
    "translated from the AST on every run (Gen/AngularLogic.lean) and every property theorem is restated and proved for the "
    "generated definitions (equal to the hand model on all well-formed inputs; guards reject everything else; the file name "
    "built for a resolved pair is in the regenerated directory listing and no loader guard fires; the cache key is sound). "
    "The generated functions are the executable model compared with the implementation on every integer request "
    "(exhaustive in the thorough tier). Round 3: every statement of __init__ (cache lookup / fill under cache=, the .copy() and "
    "weights * 4 * np.pi branches, the negative-weights test, self._degree / self._method), the loader after np.load (broadcast of a "
    "single weight) and the executed warnings.warn calls are generated too (generic in the number type); proved over that text: the "
    "grid that is built (degree, points of the existing file, one weight per point, scaling) does not depend on cache= nor on what "
    "earlier constructions left in the cache dictionaries (invariant: every entry is a loader result; true of a fresh interpreter), "
    "rejected requests are rejected before any cache or file is looked at. These definitions run in the driver at Float and are "
    "compared bit for bit with the implementation's weights, and as whole histories with fresh interpreters."
)
TECHNIQUE = "Lean 4 proof (generic bisect/resolution theorems, AST-translated decision logic, kernel-decided regenerated tables and directory listing) + exhaustive correspondence"
GEN = ["angular_tables", "angular_logic", "presets", "atomgrid"]   # the last two: the sector lookup of the pruned / preset routes (Gen/AtomGrid.lean)
LEAN_MODULES = ["GridVerif.Props.C12", "GridVerif.Props.C12.Listing", "GridVerif.Props.C12.Logic", "GridVerif.Props.C12.Full",
                "GridVerif.Props.C12.FullDemo", "GridVerif.Props.C12.Sectors"]
THEOREMS = [
    "GridVerif.C12.bisect_left_least_index",
    "GridVerif.C12.resolve_spec",
    "GridVerif.C12.resolve_reject",
    "GridVerif.C12.tables_ok",
    "GridVerif.C12.degree_request",
    "GridVerif.C12.size_request",
    "GridVerif.C12.request_above_max_rejected",
    "GridVerif.C12.convert_is_map",
    # over the generated decision logic (Gen/AngularLogic.lean)
    "GridVerif.C12.gen_body_eq_model",
    "GridVerif.C12.gen_eq_model",
    "GridVerif.C12.gen_malformed_rejected",
    "GridVerif.C12.gen_never_unmodelled",
    "GridVerif.C12.gen_dispatch_iff",
    "GridVerif.C12.gen_dispatch_unknown",
    "GridVerif.C12.listing_names",
    "GridVerif.C12.loader_ok",
    "GridVerif.C12.gen_loader_resolved",
    "GridVerif.C12.gen_degree_request",
    "GridVerif.C12.gen_size_request",
    "GridVerif.C12.gen_request_above_max_rejected",
    "GridVerif.C12.gen_convert_is_map",
    "GridVerif.C12.gen_convert_elementwise",
    "GridVerif.C12.gen_ok_in_table",
    "GridVerif.C12.gen_init_size_overrides_degree",
    "GridVerif.C12.gen_init_resolved",
    "GridVerif.C12.gen_init_degree_request",
    "GridVerif.C12.gen_init_size_request",
    "GridVerif.C12.gen_cache_key_sound",
    # round 3: over the full generated text of __init__, the loader after np.load and the warning logs
    "GridVerif.C12.gen_warnings_body_eq",
    "GridVerif.C12.gen_warnings_of_ok",
    "GridVerif.C12.gen_loader_data",
    "GridVerif.C12.gen_loader_data_shape",
    "GridVerif.C12.gen_initFull_unfold",
    "GridVerif.C12.gen_init_full",
    "GridVerif.C12.gen_init_independent_of_cache",
    "GridVerif.C12.gen_init_full_reject",
    "GridVerif.C12.gen_init_full_unknown_method",
    "GridVerif.C12.demoLoad_ok",
    # round 5: over the generated text of AtomGrid._find_degrees_for_radial_points (Gen/AtomGrid.lean)
    "GridVerif.C12.gen_find_degrees_unfold",
    "GridVerif.C12.gen_sector_per_shell",
    "GridVerif.C12.gen_pruned_shell_not_coarser",
    "GridVerif.C12.gen_find_degrees_append",
]
RULE = (
    "correspondence: every integer degree 0..max+2 of each of the 4 methods (always) and every size "
    "0..max+2 (thorough: all; quick: every table key k and k-1,k+1 plus a VERIF_SEED stride) sent to "
    "AngularGrid._get_degree_and_size and to the Lean model; random size sequences to "
    "convert_angular_sizes_to_degrees as one history of calls sharing a pool of sizes across methods; non-trivial = request is not itself a table key (bisect path) "
    "or is above the maximum (rejection path) or a sequence with >=2 distinct sizes. Argument classes: degree/size as "
    "int, bool, np.int8..uint64, np.bool_, float, np.float64, 0-d/1-element array, str, None, negative, both given, positional "
    "and keyword, unknown / differently spelled method; converter input as list, tuple, int64/int32/uint16/object array, "
    "read-only, non-contiguous, float64 and bool arrays, the same array object reused across methods (input must stay "
    "unchanged, output must be a fresh integer array); AngularGrid constructions as one history (cache on/off, "
    "degree/size/both, any spelling of the method, largest degree and size of every method, repeated and interleaved), "
    "each compared with the generated __init__ selection: degree, size, cache entry, and the points of the very file "
    "the model names; AtomGrid(...).degrees for degrees= and sizes=. Round 3: constructions on the arrays of the named file through the "
    "generated full constructor and loader tail (weights bit for bit, warnings with category / message / attributed frame, cache entry, "
    "a second build = cache hit; all Lebedev grids with negative weights, single-weight files, degree / size / both, cache on / off / default); "
    "histories that START in a fresh interpreter (subprocess) with a non-default option (cache=False first, size= first, other spelling, "
    "rejected request first, loader / converter / _get_degree_and_size / AtomGrid first), edit the grid / array they were handed in place and "
    "build again, read the accessors in every order, alternate cache=True/False and two methods on one degree — each step compared with the "
    "generated constructor run as one history from empty caches (degree, method, points of the named file, weights, warnings, keys of the four "
    "cache dictionaries after every step), and the same histories continuing this process's state; oracle: AtomGrid(degrees=/sizes=), "
    "AtomGrid.from_pruned / from_preset with every method over the method's whole range (beyond 131 for the non-Lebedev ones) incl. requests "
    "above the maximum, MolGrid.from_size / from_pruned / from_preset (Lebedev only: these routes have no method argument) incl. requests above 131 / 5810. "
    "Round 4: in every run sequences holding a size together with its own matched degree (and that degree's degree), both orders, repeats, table and odd sizes, every "
    "method, through the converter (model and brute force; array / list / int32 / negative stride) and AtomGrid(sizes=); ONE argument object (int64 / int32 / int16 / uint16 array, "
    "read-only, negative-stride, strided and middle-slice views of a larger caller array whose other elements must survive, list, tuple) handed two and three times to the "
    "converter, AtomGrid, from_pruned, MolGrid.from_pruned([obj]*natoms) and through three entry points in a row, reference from a pristine copy; every argument combination "
    "(degree and size / degrees and sizes / d_sectors and s_sectors both given, None next to the alternative, omitted vs None vs the default, positional vs keyword); calls that "
    "raise (above the maximum, negative, float, both None, unknown method, a bad entry in the middle of a sequence) inside histories, every later accepted call against the table; "
    "one entry for every shell, one / two / three / five radial points, first / last entry the largest or zero, lengths that do not fit. corr and oracle run as independent parts "
    "(an exception in one part is recorded — `<part>:raises` when the library raised — and never hides the others). "
    "Round 5: from_pruned / from_preset (radii presets) / MolGrid.from_pruned on radial grids in every order — ascending, descending, shuffled, repeated radii, radii "
    "exactly on sector boundaries, the descending grids the library makes itself (MultiExp / Becke transform of Gauss-Legendre, a reversed Gauss-Laguerre) — every shell "
    "against the sector of its own radius (brute force; a radius on a boundary may take either neighbour, consistently); radii / boundaries / radius as float16, float32, "
    "longdouble, integers, called twice with the same objects (boundaries unchanged); one radial grid object shared by two set-ups of different methods in either order, its "
    "points overwritten in place in between; the same sizes object overwritten in place and used again; converter on 1025 / 4097 / 20001 sizes (thorough: up to 2^19+1) with "
    "unique first / last entries, per element and additive over a split; an atomic grid with 1025 shells"
)
TRUSTED_BASE = [
    "Lean 4.33 kernel; axioms propext, Classical.choice, Quot.sound only (audited per theorem)",
    "translator harness/translate/angular_tables.py (dumps dicts in insertion order, reads npz headers)",
    "translators harness/translate/atomgrid.py, presets.py (C05's; here for the statement-by-statement text of AtomGrid._find_degrees_for_radial_points, primitives npCountAxis1 / npTake of Model/AtomGrid.lean)",
    "translator harness/translate/angular_logic.py (AST -> Gen/AngularLogic.lean; raises on syntax it cannot carry; also lists the data packages named by the loader)",
    "Model/AngularPy.lean: meaning of bisect_left, dict lookup / in, max, list[i], np.unique, np.zeros, a[np.where(m)] = v, isinstance(x, int | np.integer), comparisons, f-string fields (hand-written primitives; the bisect loop / dict / max are those of Model/Bisect.lean)",
    "harness classification of a Python argument as none / integer (int, bool, np.integer) / other, mirroring isinstance(x, int | np.integer)",
    "Model/AngularNp.lean: meaning of data['points'] / data['weights'], np.ones, a*b / a/b with NumPy broadcasting of a one-element array, a*x, a<x, np.any, x.copy() (value-wise), the cache dictionaries (in / [] / []=), Grid.__init__'s length check, warnings.warn(message, category, stacklevel)",
    "hypothesis FsOk of the round-3 theorems: np.load of a listed file returns as many points as its name says and one weight per point or a single one (the header facts regenerated into Gen/AngularTables.lean and decided in tables_ok)",
]
ASSUMPTIONS = [
    "np.load returns the arrays stored in the file; file naming method_degree_size.npz",
    "converter input is a one-dimensional sequence (a scalar or 2-D array raises TypeError / IndexError inside numpy, outside the model)",
    "warnings.warn calls have no effect on the result",
]

METHODS = ["lebedev", "spherical", "maxdet", "ahrens_beylkin"]
_HISTORY = []   # every converter call made in this process, in order (replayed by the snippet)
PREFIX = {"lebedev": "LEBEDEV", "spherical": "SPHERICAL", "maxdet": "MAX_DET", "ahrens_beylkin": "AHRENS_BEYLKIN"}
DIRS = {"lebedev": "lebedev", "spherical": "spherical_design", "maxdet": "maxdet", "ahrens_beylkin": "ahrens_beylkin"}


def _impl(ang, method, degree=None, size=None):
    try:
        d, s = ang.AngularGrid._get_degree_and_size(degree=degree, size=size, method=method)
        return f"ok {int(d)} {int(s)}"
    except ValueError:
        return "value-error"
    except IndexError:
        return "index-error"
    except TypeError:
        return "type-error"
    except KeyError:
        return "key-error"


def _tok(v):
    """A Python argument as the model sees it: none / an instance of int | np.integer / other."""
    if v is None:
        return "none"
    if isinstance(v, (int, np.integer)):   # bool is an int; np.bool_ is not an np.integer
        return str(int(v))
    return "other"


def _tag(e):
    return {ValueError: "value-error", IndexError: "index-error", TypeError: "type-error", KeyError: "key-error"}.get(type(e), type(e).__name__)


def _npint(ctx, i):
    """`i` as a randomly chosen NumPy integer type that can hold it."""
    ts = [t for t in (np.int8, np.int16, np.int32, np.int64, np.uint8, np.uint16, np.uint32, np.uint64)
          if np.iinfo(t).min <= i <= np.iinfo(t).max]
    return ctx.rng.choice(ts)(i) if ts else i


def _npint_list(ctx, seq):
    """The sequence as a list of NumPy integer scalars of one common type (a list mixing uint64
    with signed types is promoted to float64 by np.unique — NumPy's rule, not a list of integers
    any more — and is left out)."""
    ts = [t for t in (np.int8, np.int16, np.int32, np.int64, np.uint8, np.uint16, np.uint32, np.uint64)
          if all(np.iinfo(t).min <= x <= np.iinfo(t).max for x in seq)]
    t = ctx.rng.choice(ts)
    return [t(x) for x in seq]


def _values(ctx, ang, m):
    """Objects of every argument class for `degree=` / `size=`."""
    npts = getattr(ang, PREFIX[m] + "_NPOINTS")
    ks, ds = sorted(npts), sorted(npts.values())
    ints = [0, 1, ctx.rng.choice(ds), ctx.rng.choice(ds) + 1, ds[-1], ds[-1] + 1, ctx.rng.choice(ks), ctx.rng.choice(ks) - 1,
            ks[-1], ks[-1] + 1, ctx.rng.randrange(0, ks[-1])]
    vals = [None, True, False, np.True_, np.bool_(False), -1, -ctx.rng.randrange(1, 50), np.int64(-3), np.int8(-1), 2 ** 70,
            2.5, 5.0, float(ctx.rng.choice(ds)), np.float64(7.0), np.float32(3.0), "7", b"7", np.array(5), np.array([5]),
            [5], (5,), 5 + 0j, float("nan"), float("inf"),
            # extreme but well-formed integers (class 8): far above every table, at the edges of the machine integer types
            10 ** 12, 2 ** 63 - 1, 2 ** 64, 10 ** 30, np.int64(2 ** 62), np.uint64(2 ** 64 - 1), np.int64(-2 ** 63), -10 ** 20]
    for i in ints:
        vals += [i, _npint(ctx, i)]
    return vals


def _corr_classes(ctx: Ctx, ang):
    """Class 2/4/6: every kind of scalar argument, both arguments given, positional and keyword,
    unknown and differently spelled methods — against the generated _get_degree_and_size."""
    f = ang.AngularGrid._get_degree_and_size
    cases = []
    for m in METHODS + ["Lebedev", "SPHERICAL", "maxdet_", "gauss"]:
        vals = _values(ctx, ang, m if m in METHODS else "lebedev")
        pairs = [(v, None) for v in vals] + [(None, v) for v in vals]
        pairs += [(ctx.rng.choice(vals), ctx.rng.choice(vals)) for _ in range(ctx.n(40, 400))]
        if m not in METHODS:
            pairs = ctx.rng.sample(pairs, 12)
        cases += [(m, d, sz) for d, sz in pairs]
    model = driver_batch([f"C12.gds {m} {_tok(d)} {_tok(sz)}" for m, d, sz in cases])
    for i, ((m, d, sz), ans) in enumerate(zip(cases, model)):
        with warnings.catch_warnings():
            warnings.simplefilter("ignore")
            try:
                r = f(d, sz, m) if i % 2 else f(degree=d, size=sz, method=m)
                impl = f"ok {int(r[0])} {int(r[1])}"
            except Exception as e:  # noqa: BLE001
                impl = _tag(e)
        cls = f"{type(d).__name__}/{type(sz).__name__}"
        ctx.count(["gds", m, repr(d), repr(sz)], nontrivial=(d is not None and sz is not None) or _tok(d) == "other" or _tok(sz) == "other",
                  tag="class:" + ("both" if d is not None and sz is not None else "other" if "other" in (_tok(d), _tok(sz)) else "npint" if isinstance(d, np.integer) or isinstance(sz, np.integer) else "int"))
        if impl != ans:
            ctx.fail("corr", f"gds:{m}:{cls}", f"_get_degree_and_size(degree={d!r}, size={sz!r}, method={m!r}): implementation {impl}, generated model {ans}",
                     witness={"method": m, "degree": repr(d), "size": repr(sz), "degree_token": _tok(d), "size_token": _tok(sz), "impl": impl, "model": ans})


def _containers(ctx, seq):
    """The same sequence of sizes in every container / dtype the converter may be handed:
    -> (label, object, class of its elements)."""
    a = np.array(seq, dtype=np.int64)
    out = [("list", list(seq), "int"), ("tuple", tuple(seq), "int"), ("int64", a.copy(), "int"),
           ("int32", a.astype(np.int32), "int"), ("object", np.array(list(seq), dtype=object), "int"),
           ("list-npint", _npint_list(ctx, seq), "int")]
    if all(0 <= x < 65536 for x in seq):
        out.append(("uint16", a.astype(np.uint16), "int"))
    ro = a.copy()
    ro.setflags(write=False)
    out.append(("read-only", ro, "int"))
    out.append(("non-contiguous", np.repeat(a, 2)[::2], "int"))
    out.append(("float64", a.astype(float), "other"))
    out.append(("float-list", [float(x) for x in seq], "other"))
    for ft in (np.float32, np.float16, np.longdouble):
        if all(abs(x) < 2000 for x in seq):
            out.append((ft.__name__, a.astype(ft), "other"))
    out.append(("bool", a % 2 == 0, "other"))
    return out


def _corr_containers(ctx: Ctx, ang, pool):
    """Class 2/3/5/6: container kind and dtype of `sizes`, the same array object reused under
    every method, keyword vs positional `method`, input left unchanged, output a fresh int array."""
    conv = ang.AngularGrid.convert_angular_sizes_to_degrees
    other = dict(zip(METHODS, driver_batch([f"C12.gds {m} none other" for m in METHODS])))
    jobs = []
    for _ in range(ctx.n(14, 200)):
        L = ctx.rng.randrange(0, 7)
        seq = [ctx.rng.choice(pool) for _ in range(L)]
        if ctx.rng.random() < 0.15 and seq:
            seq[ctx.rng.randrange(L)] = -ctx.rng.randrange(1, 9)
        variants = [seq, sorted(seq), sorted(seq, reverse=True), seq + seq[::-1]]
        seq = ctx.rng.choice(variants)
        for label, obj, cls in _containers(ctx, seq):
            jobs.append((seq, label, obj, cls))
    model = {}
    keys = sorted({(m, tuple(seq)) for seq, *_ in jobs for m in METHODS})
    for k, ans in zip(keys, driver_batch([f"C12.convert {m} {len(q)} " + " ".join(map(str, q)) for m, q in keys])):
        model[k] = ans
    for seq, label, obj, cls in jobs:
        before = obj.copy() if isinstance(obj, np.ndarray) else type(obj)(obj)
        for j, m in enumerate(ctx.rng.sample(METHODS, len(METHODS))):     # the same object under every method
            want = model[(m, tuple(seq))] if cls == "int" else ("ok 0" if not seq else other[m])
            with warnings.catch_warnings():
                warnings.simplefilter("ignore")
                try:
                    d = conv(obj, m) if j % 2 else conv(obj, method=m)
                    impl = "ok " + " ".join([str(len(d))] + [str(int(x)) for x in d])
                except Exception as e:  # noqa: BLE001
                    d, impl = None, _tag(e)
            _HISTORY.append([m, list(seq)])
            ctx.count(["convert-container", label, m, seq], nontrivial=len(set(seq)) >= 2, tag="container:" + label)
            if impl != want:
                ctx.fail("corr", f"convert:{m}:{label}", f"convert_angular_sizes_to_degrees({label} {seq}, {m}): implementation {impl}, generated model {want}",
                         witness={"method": m, "sizes": seq, "container": label, "impl": impl, "model": want})
            same = np.array_equal(obj, before) if isinstance(obj, np.ndarray) else obj == before
            if not same:
                ctx.fail("corr", f"convert:{m}:{label}:input-changed", f"convert_angular_sizes_to_degrees changed its input {label} {seq} -> {list(obj)}",
                         witness={"method": m, "sizes": seq, "container": label})
                break
            if d is not None and not (isinstance(d, np.ndarray) and d.dtype.kind in "iu" and d.shape == (len(seq),)
                                      and not (isinstance(obj, np.ndarray) and np.shares_memory(d, obj))):
                ctx.fail("corr", f"convert:{m}:{label}:result-kind", f"convert_angular_sizes_to_degrees({label} {seq}, {m}) returned {type(d).__name__} "
                         f"dtype={getattr(d, 'dtype', None)} shape={getattr(d, 'shape', None)} (expected a fresh integer array of that length)",
                         witness={"method": m, "sizes": seq, "container": label})


_FILES = {}


def _file_points(pkg, name):
    """points array of the data file the model names (package `grid.x.y` -> <src>/x/y)."""
    if (pkg, name) not in _FILES:
        f = SRC.joinpath(*pkg.split(".")[1:]) / name
        if not f.exists():
            _FILES[(pkg, name)] = None
        else:
            with np.load(f) as z:
                _FILES[(pkg, name)] = np.array(z["points"])
    return _FILES[(pkg, name)]


def _construction_plan(ctx: Ctx, ang, n_each):
    """A history of AngularGrid constructions: (method spelling, style, degree, size, cache)."""
    plan = []
    for m in METHODS:
        npts = getattr(ang, PREFIX[m] + "_NPOINTS")
        ks, ds = sorted(npts), sorted(npts.values())
        small_s = [k for k in ks if k <= 1300]
        small_d = [npts[k] for k in small_s]
        degs = {0, 1, ds[-1], ds[-1] + 1, small_d[-1]} | {ctx.rng.choice(small_d) + ctx.rng.choice((-1, 0, 1)) for _ in range(n_each)}
        sizes = {0, 1, ks[-1], ks[-1] + 1} | {ctx.rng.choice(small_s) + ctx.rng.choice((-1, 0, 1)) for _ in range(n_each)}
        spell = [m, m.upper(), m.capitalize(), m.title()]
        for d in degs:
            for _ in range(2):      # every request is built (at least) twice, interleaved with the others
                v = ctx.rng.choice([d, d, _npint(ctx, d), float(d) if ctx.rng.random() < 0.3 else d])
                plan.append((ctx.rng.choice(spell), ctx.rng.choice(["deg-kw", "deg-pos"]), v, None, ctx.rng.random() < 0.5))
        for sz in sizes:
            for _ in range(2):
                st = ctx.rng.choice(["size", "size-degnone", "both"])
                d = ctx.rng.choice([0, ctx.rng.choice(ds), ds[-1] + 5, 2.5, True]) if st == "both" else None
                plan.append((ctx.rng.choice(spell), st, d, _npint(ctx, sz) if ctx.rng.random() < 0.3 else sz, ctx.rng.random() < 0.5))
        plan.append((m, "deg-kw", None, None, True))
        plan.append((m + "x", "deg-kw", 5, None, True))
    plan += [("lebedev", "default", None, None, True)] * 2
    ctx.rng.shuffle(plan)
    return plan


def _construct(ang, spelling, style, d, sz, cache):
    A = ang.AngularGrid
    with warnings.catch_warnings():
        warnings.simplefilter("ignore")
        if style == "default":
            return A()
        if style == "deg-kw":
            return A(degree=d, method=spelling, cache=cache)
        if style == "deg-pos":
            return A(d, method=spelling, cache=cache)
        if style == "size":
            return A(size=sz, method=spelling, cache=cache)
        if style == "size-degnone":
            return A(None, size=sz, cache=cache, method=spelling)
        return A(degree=d, size=sz, method=spelling, cache=cache)


def _corr_constructions(ctx: Ctx, ang):
    """Class 1/4/6: AngularGrid(...) as one history of calls in this process — cache on and off,
    degree / size / both, positional / keyword, any spelling of the method, the largest degree and
    size of every method, every request at least twice — each compared with the generated selection
    part of __init__: reported degree, size, number of points, the cache entry, and the points of the
    very file the model names."""
    plan = _construction_plan(ctx, ang, ctx.n(3, 25))
    dflt = inspect.signature(ang.AngularGrid.__init__).parameters["degree"].default
    lines = []
    for sp, st, d, sz, cache in plan:
        if st == "default":
            lines.append("C12.init0")
        else:
            lines.append(f"C12.init {sp} {_tok(dflt if st == 'size' else d)} {_tok(sz)}")
    model = driver_batch(lines)
    for step, ((sp, st, d, sz, cache), ans) in enumerate(zip(plan, model)):
        try:
            g = _construct(ang, sp, st, d, sz, cache)
            impl = f"ok {int(g.degree)} {int(g.size)}"
        except Exception as e:  # noqa: BLE001
            g, impl = None, _tag(e)
        ctx.count(["init", sp, st, repr(d), repr(sz), cache], nontrivial=True, tag="init:" + st + (":reject" if g is None else ""))
        wit = {"method": sp, "style": st, "degree": repr(d), "size": repr(sz), "cache": cache, "impl": impl, "model": ans,
               "degree_token": _tok(d), "size_token": _tok(sz), "history": [[a, b, repr(c), repr(e_), f] for a, b, c, e_, f in plan[max(0, step - 10):step]]}
        what = f"AngularGrid({st}: degree={d!r}, size={sz!r}, method={sp!r}, cache={cache}) as call #{step} of a history"
        if g is None or not ans.startswith("ok"):
            if impl != ans:
                ctx.fail("corr", f"init:{sp.lower()}:{st}", f"{what}: implementation {impl}, generated model {ans}", witness=wit)
            continue
        _, md, ms, mcache, mkey, pkg, fname = ans.split()
        if impl != f"ok {md} {ms}":
            ctx.fail("corr", f"init:{sp.lower()}:{st}", f"{what}: implementation {impl}, generated model ok {md} {ms}", witness=wit)
            continue
        pts = _file_points(pkg, fname)
        if pts is None:
            ctx.fail("corr", f"init:{sp.lower()}:file", f"{what}: the model names the file {pkg}/{fname}, which does not exist", witness=wit)
            continue
        if not (g.points.shape == pts.shape == (int(ms), 3) and np.array_equal(g.points, pts) and g.weights.shape == (int(ms),)
                and g.method == sp.lower()):
            ctx.fail("corr", f"init:{sp.lower()}:points", f"{what}: reports degree {g.degree}, size {g.size}, but its {len(g.points)} points / {len(g.weights)} weights "
                     f"are not the {len(pts)} points of {fname}", witness=wit)
        if cache:
            ent = getattr(ang, mcache).get(int(mkey))
            if ent is None or not np.array_equal(ent[0], pts):
                ctx.fail("corr", f"init:{sp.lower()}:cache", f"{what}: {mcache}[{mkey}] " + ("is missing" if ent is None else f"holds {len(ent[0])} points that are not those of {fname}"), witness=wit)


def _corr_atomgrid(ctx: Ctx, ang):
    """observe_at AtomGrid(...).degrees: per-shell degrees for `degrees=` and for `sizes=`."""
    from grid.atomgrid import AtomGrid
    from grid.onedgrid import GaussLaguerre

    jobs = []
    for m in METHODS:
        npts = getattr(ang, PREFIX[m] + "_NPOINTS")
        small = [k for k in sorted(npts) if k <= 400]
        for kind in ("deg", "size"):
            for _ in range(ctx.n(2, 12)):
                L = ctx.rng.randrange(2, 6)
                src = [npts[k] for k in small] if kind == "deg" else small
                seq = [max(0, ctx.rng.choice(src) + ctx.rng.choice((-1, 0, 0, 1))) for _ in range(L)]
                jobs.append((m, kind, seq))
    lines = []
    for m, kind, seq in jobs:
        lines += [f"C12.resolve {m} deg {x}" for x in seq] if kind == "deg" else [f"C12.convert {m} {len(seq)} " + " ".join(map(str, seq))]
    ans = iter(driver_batch(lines))
    for m, kind, seq in jobs:
        if kind == "deg":
            want = [int(next(ans).split()[1]) for _ in seq]
        else:
            want = [int(x) for x in next(ans).split()[2:]]
        rg = GaussLaguerre(len(seq))
        with warnings.catch_warnings():
            warnings.simplefilter("ignore")
            cont = ctx.rng.choice([list, np.array])
            g = AtomGrid(rg, degrees=cont(seq), method=m) if kind == "deg" else AtomGrid(rg, sizes=cont(seq), method=m)
        got = [int(x) for x in g.degrees]
        ctx.count(["atomgrid", m, kind, seq], nontrivial=True, tag="atomgrid:" + kind)
        if got != want:
            ctx.fail("corr", f"atomgrid:{m}:{kind}", f"AtomGrid(rgrid, {'degrees' if kind == 'deg' else 'sizes'}={seq}, method={m}).degrees = {got}, generated model {want}",
                     witness={"method": m, "kind": kind, "request": seq, "impl": got, "model": want})



# ================================================================================================
# round 3
# ================================================================================================
def _direct(f, *a, **k):
    """Call f from a frame of its own file name; -> (result | exception, [[category, message, attributed to the caller]])."""
    ext.exec_steps([])          # makes sure the executor is loaded
    return ext._NS["_call"](f, *a, **k)


def _warn_tokens(ans_tokens):
    """`n cat:level:depth:message …` of a driver answer -> [[category, message, attributed to the direct caller]]."""
    n = int(ans_tokens[0])
    out = []
    for t in ans_tokens[1:1 + n]:
        cat, lvl, depth, msg = t.split(":", 3)
        out.append([cat, msg.replace("_", " "), int(lvl) == int(depth) + 2])
    return out, ans_tokens[1 + n:]


def _wnorm(ws):
    return [[c, m.replace("_", " "), bool(d)] for c, m, d in ws]


def _bits(a):
    return np.ascontiguousarray(np.asarray(a, dtype=float)).view(np.uint64)


def _numeric_cases(ctx, ang):
    """(method spelling, degree, size, cache): requests whose grid has at most ~1500 points — every Lebedev grid with
    negative weights (13, 25, 27: warning), the Ahrens-Beylkin one (no warning), single-weight files (spherical),
    full-weight files, degree and size route, cache on / off / default, other spellings."""
    cases = [("lebedev", 13, None, True), ("Lebedev", 25, None, False), ("lebedev", None, 266, None), ("ahrens_beylkin", 39, None, False),
             ("LEBEDEV", 12, 3, None), ("spherical", 0, None, False), ("maxdet", None, 1, True)]
    for m in METHODS:
        npts = getattr(ang, PREFIX[m] + "_NPOINTS")
        small = [k for k in sorted(npts) if k <= 1500]
        for _ in range(ctx.n(3, 30)):
            k = ctx.rng.choice(small)
            sp = ctx.rng.choice([m, m.upper(), m.title()])
            c = ctx.rng.choice([True, False, None])
            if ctx.rng.random() < 0.5:
                cases.append((sp, max(0, npts[k] - ctx.rng.randrange(0, 2)), None, c))
            else:
                cases.append((sp, ctx.rng.choice([None, 5]), max(0, k - ctx.rng.randrange(0, 3)), c))
    if ctx.thorough:
        cases += [("lebedev", 131, None, False), ("spherical", None, 5000, True)]
    return cases


def _corr_numeric(ctx: Ctx, ang):
    """Part B: the generated numeric definitions against the implementation, bit for bit — the loader after np.load
    (`loadPrecomputedAngularGrid_data`) and the whole constructor (`initFull`: weights, warnings, number of cache
    entries in a fresh state) on the arrays of the very file the model names; the warnings of `_get_degree_and_size`;
    the default of `cache=`."""
    A = ang.AngularGrid
    dflt = inspect.signature(A.__init__).parameters
    cdef = driver_batch(["C12.cachedefault"])[0]
    ctx.count(["cache-default"], nontrivial=False, tag="numeric:cache-default")
    if cdef != f"ok {1 if dflt['cache'].default is True else 0}":
        ctx.fail("corr", "init:cache-default", f"default of cache= is {dflt['cache'].default!r}, generated model says {cdef}",
                 witness={"impl": repr(dflt['cache'].default), "model": cdef})
    cases = _numeric_cases(ctx, ang)
    sel = driver_batch([f"C12.init {sp} {_tok(dflt['degree'].default if d is None and sz is not None else d)} {_tok(sz)}" for sp, d, sz, c in cases])
    jobs = []
    for (sp, d, sz, c), ans in zip(cases, sel):
        if not ans.startswith("ok"):
            continue
        _, md, ms, _, _, pkg, fname = ans.split()
        f = SRC.joinpath(*pkg.split(".")[1:]) / fname
        with np.load(f) as z:
            fp, fw = np.array(z["points"]), np.array(z["weights"], dtype=float)
        jobs.append((sp, d, sz, c, int(md), int(ms), fp, fw))
    lines = []
    for sp, d, sz, c, md, ms, fp, fw in jobs:
        cflag = 1 if (c if c is not None else dflt["cache"].default) else 0
        dtok = _tok(dflt['degree'].default if d is None and sz is not None else d)
        lines.append(f"C12.build {sp} {dtok} {_tok(sz)} {cflag} {len(fp)} " + " ".join([str(len(fw))] + [f2b(x) for x in fw]))
        lines.append(f"C12.tail {len(fp)} " + " ".join([str(len(fw))] + [f2b(x) for x in fw]))
    ans = iter(driver_batch(lines))
    for sp, d, sz, c, md, ms, fp, fw in jobs:
        build, tail = next(ans).split(), next(ans).split()
        kw = {"method": sp}
        if d is not None:
            kw["degree"] = d
        if sz is not None:
            kw["size"] = sz
        if c is not None:
            kw["cache"] = c
        getattr(ang, PREFIX[sp.lower()] + "_CACHE").pop(md, None)     # the model runs in a fresh state: make it a miss here too
        g, ws = _direct(A, **kw)
        ctx.count(["numeric", sp, repr(d), repr(sz), c], nontrivial=True, tag="numeric:init:" + ("single-weight" if len(fw) == 1 else "neg-weights" if (fw < 0).any() else "plain"))
        key = f"init:{sp.lower()}:numeric"
        wit = {"method": sp, "degree": repr(d), "size": repr(sz), "cache": c, "degree_token": _tok(d), "size_token": _tok(sz), "style": "both" if d is not None and sz is not None else "size" if sz is not None else "deg-kw"}
        if isinstance(g, Exception) or build[0] != "ok":
            ctx.fail("corr", key, f"AngularGrid({kw}): implementation {g!r}, generated initFull {' '.join(build[:3])}", witness=wit)
            continue
        mdeg, mmeth, mnp, mncache = build[1], build[2], int(build[3]), int(build[4])
        mwarn, rest = _warn_tokens(build[5:])
        mw = np.array([int(x) for x in rest[1:]], dtype=np.uint64)
        problems = []
        if (str(int(g.degree)), g.method, len(g.points)) != (mdeg, mmeth, mnp):
            problems.append(f"(degree, method, points) = {(int(g.degree), g.method, len(g.points))}, model {(mdeg, mmeth, mnp)}")
        if not np.array_equal(g.points, fp):
            problems.append("points are not those of the file the model names")
        if len(g.weights) != len(mw) or not np.array_equal(_bits(g.weights), mw):
            k = next((i for i in range(min(len(mw), len(g.weights))) if _bits(g.weights)[i] != mw[i]), None)
            problems.append(f"weights differ from the generated `initFull` (first at index {k}: {g.weights[k] if k is not None else len(g.weights)} vs {b2f(str(mw[k])) if k is not None else len(mw)})")
        if _wnorm(ws) != mwarn:
            problems.append(f"warnings {ws}, model {mwarn}")
        in_cache = md in getattr(ang, PREFIX[sp.lower()] + "_CACHE")
        if in_cache != (mncache == 1):
            problems.append(f"cache entry for degree {md} present: {in_cache}, model: {mncache} entries after a construction in a fresh state")
        if problems:
            ctx.fail("corr", key, f"AngularGrid({kw}) with the cache entry cleared first: " + "; ".join(problems), witness=wit)
            continue
        g2, ws2 = _direct(A, **kw)       # again: a cache hit when the first construction stored its arrays
        ctx.count(["numeric-again", sp, repr(d), repr(sz), c], nontrivial=True, tag="numeric:init:" + ("hit" if in_cache else "miss-again"))
        if isinstance(g2, Exception) or not np.array_equal(g2.points, fp) or not np.array_equal(_bits(g2.weights), mw) or _wnorm(ws2) != mwarn or int(g2.degree) != int(mdeg):
            ctx.fail("corr", key, f"AngularGrid({kw}) built a second time ({'cache hit' if in_cache else 'not cached'}): degree / points / weights / warnings differ from the first build and from the generated `initFull`", witness=wit)
        # the loader on its own
        out, _ = _direct(A._load_precomputed_angular_grid, md, ms, sp.lower())
        ctx.count(["numeric-load", sp.lower(), md, ms], nontrivial=len(fw) == 1, tag="numeric:load")
        tw = np.array([int(x) for x in tail[3:]], dtype=np.uint64) if tail[0] == "ok" else None
        if isinstance(out, Exception) or tw is None or not np.array_equal(out[0], fp) or len(out[1]) != len(tw) or not np.array_equal(_bits(out[1]), tw):
            ctx.fail("corr", f"load:{sp.lower()}:numeric", f"_load_precomputed_angular_grid({md}, {ms}, {sp.lower()!r}): "
                     + (repr(out) if isinstance(out, Exception) else f"{len(out[0])} points / weights {np.asarray(out[1])[:3]}…") + f", generated loader tail: {' '.join(tail[:3])} …",
                     witness={"method": sp.lower(), "degree": md, "size": ms})
    # warnings of _get_degree_and_size
    cases = []
    for m in METHODS + ["gauss"]:
        for d, sz in [(5, 7), (0, 7), (5, 0), (None, 7), (5, None), (np.int64(3), True), (7.5, 3), (-1, 4), (10 ** 6, 3), (3, 10 ** 9)]:
            cases.append((m, d, sz))
    model = driver_batch([f"C12.gdsw {m} {_tok(d)} {_tok(sz)}" for m, d, sz in cases])
    for (m, d, sz), a in zip(cases, model):
        out, ws = _direct(A._get_degree_and_size, d, sz, m)
        ctx.count(["gdsw", m, repr(d), repr(sz)], nontrivial=d is not None and sz is not None, tag="numeric:gds-warnings")
        want = _warn_tokens(a.split()[1:])[0] if a.startswith("ok") else None
        got = None if isinstance(out, Exception) else _wnorm(ws)
        if got != want:
            ctx.fail("corr", f"gds:{m}:warnings", f"_get_degree_and_size({d!r}, {sz!r}, {m!r}): warnings {ws if got is not None else repr(out)}, generated model {a}",
                     witness={"method": m, "degree": repr(d), "size": repr(sz), "degree_token": _tok(d), "size_token": _tok(sz)})


# ---- fresh-interpreter scenarios -------------------------------------------------------------------
def _scenarios(ctx: Ctx, ang, n):
    """Histories that *start* in a fresh interpreter with a non-default option (class 11), edit what they were
    handed (class 9) and use accessors / options in alternating order (class 10)."""
    out = []
    orders = [["degree", "size", "method", "points", "weights"], ["size", "degree"], ["weights", "points", "size", "method", "degree"], ["method", "size", "degree", "size"]]
    for i in range(n):
        m = METHODS[i % 4] if i < 8 else ctx.rng.choice(METHODS)
        npts = getattr(ang, PREFIX[m] + "_NPOINTS")
        small = [k for k in sorted(npts) if k <= 700]
        k = ctx.rng.choice(small)
        d, sz = npts[k], k
        dreq, sreq = max(0, d - ctx.rng.randrange(0, 2)), max(0, k - ctx.rng.randrange(0, 3))
        sp = ctx.rng.choice([m, m.upper(), m.capitalize()])
        m2 = ctx.rng.choice([x for x in METHODS if x != m])
        openers = [
            {"op": "init", "degree": dreq, "cache": False, "method": sp},
            {"op": "init", "size": sreq, "cache": False, "method": sp},
            {"op": "init", "degree": dreq, "size": sreq, "cache": False, "method": sp},
            {"op": "init", "degree": dreq, "positional": True, "cache": False, "method": sp},
            {"op": "init", "size": sreq, "method": sp},
            {"op": "init", "degree": max(npts.values()) + 1, "cache": False, "method": sp},
            {"op": "init", "degree": dreq, "cache": False, "method": m + "x"},
            {"op": "init"} if m == "lebedev" else {"op": "init", "cache": False, "method": sp},
            {"op": "load", "degree": d, "size": sz, "method": m},
            {"op": "convert", "sizes": [sreq, 0, sreq], "method": m, "container": ctx.rng.choice(["array", "list", "tuple"])},
            {"op": "gds", "degree": dreq, "size": sreq, "method": m},
            {"op": "atomgrid", "kind": "size", "seq": [sreq, max(0, sreq - 7)], "rpoints": [0.3, 1.1], "method": m},
            {"op": "atomgrid", "kind": "deg", "seq": [dreq, 0, dreq], "rpoints": [0.3, 1.1, 2.0], "method": sp, "container": "array"},
        ]
        steps = [openers[i % len(openers)] if i < 2 * len(openers) else ctx.rng.choice(openers)]
        pool = [
            {"op": "init", "degree": dreq, "cache": True, "method": m},
            {"op": "init", "degree": dreq, "cache": False, "method": m},
            {"op": "init", "size": sreq, "cache": ctx.rng.choice([True, False]), "method": sp},
            {"op": "init", "degree": dreq, "method": m2, "cache": ctx.rng.choice([True, False])} if dreq <= max(getattr(ang, PREFIX[m2] + "_NPOINTS").values()) else {"op": "init", "degree": 3, "method": m2},
            {"op": "edit", "what": "grid"},
            {"op": "attrs", "order": ctx.rng.choice(orders)},
            {"op": "convert", "sizes": [sreq, 1, sreq + 1], "method": ctx.rng.choice([m, m2])},
            {"op": "edit", "what": "converted"},
            {"op": "atomgrid", "kind": ctx.rng.choice(["deg", "size"]), "seq": [3, 5], "rpoints": [0.5, 1.5], "method": m},
        ]
        dmax, smax = max(npts.values()), max(npts)
        raising = [
            {"op": "init", "degree": dmax + ctx.rng.randrange(1, 9), "cache": True, "method": m},
            {"op": "init", "size": smax + 1, "method": sp},
            {"op": "init", "size": -1, "cache": ctx.rng.choice([True, False]), "method": m},
            {"op": "init", "degree": 2.5, "method": m},
            {"op": "init", "degree": None, "size": None, "method": m},
            {"op": "init", "degree": dreq, "method": m + "_"},
            {"op": "convert", "sizes": [sreq, smax + 3, 1], "method": m},
            {"op": "convert", "sizes": [sreq, 1], "method": "gauss"},
            {"op": "gds", "degree": None, "size": smax + 1, "method": m},
            {"op": "load", "degree": d, "size": sz + 1, "method": m},
            {"op": "atomgrid", "kind": "deg", "seq": [dreq, dmax + 1], "rpoints": [0.5, 1.5], "method": m},
            {"op": "atomgrid", "kind": "size", "seq": [sreq, smax + 1, sreq], "rpoints": [0.5, 1.0, 1.5], "method": m},
        ]
        variants = [
            {"op": "init", "degree": None, "size": sreq, "method": m},                # explicit None next to the alternative
            {"op": "init", "degree": dreq, "size": None, "cache": True, "method": m},  # explicit defaults
            {"op": "atomgrid", "kind": ctx.rng.choice(["deg", "size"]), "seq": [ctx.rng.choice([dreq, 3])], "rpoints": [0.3, 0.8, 1.9][:ctx.rng.randrange(1, 4)], "method": m},
        ]
        for _ in range(ctx.rng.randrange(4, 8)):
            r = ctx.rng.random()
            steps.append(ctx.rng.choice(raising) if r < 0.25 else ctx.rng.choice(variants) if r < 0.4 else ctx.rng.choice(pool))
        steps += [{"op": "init", "degree": dreq, "cache": False, "method": m}, {"op": "attrs", "order": ctx.rng.choice(orders)}]
        out.append(json.loads(json.dumps(steps)))
    return out


def _expand(ang, st, dflt, convert):
    """The constructor calls a step makes, as the model sees them: [(method, degree token, size token, cache)]."""
    if st["op"] == "init":
        d = st["degree"] if "degree" in st else dflt["degree"]
        return [(st.get("method", dflt["method"]), _tok(d), _tok(st.get("size", dflt["size"])), st.get("cache", dflt["cache"]))]
    if st["op"] == "atomgrid":
        m = st.get("method", "lebedev")
        degs = st["seq"] if st["kind"] == "deg" else convert(m, st["seq"])
        if degs is None:
            return None
        if len(degs) == 1:
            degs = list(degs) * len(st["rpoints"])
        elif len(degs) != len(st["rpoints"]):
            return None
        return [(m.lower(), _tok(int(x)), "none", dflt["cache"]) for x in degs]
    return []


def _model_history(ang, scenarios):
    """Run every scenario through the generated `initFull` (driver op C12.hist, empty caches at the start).
    -> per scenario, per step: list of per-call answers (token lists) or None when a step is not modelled."""
    A = ang.AngularGrid
    par = inspect.signature(A.__init__).parameters
    dflt = {"degree": par["degree"].default, "size": par["size"].default, "method": par["method"].default,
            "cache": driver_batch(["C12.cachedefault"])[0] == "ok 1"}
    conv_keys = sorted({(st.get("method", "lebedev"), tuple(st["seq"])) for sc in scenarios for st in sc if st["op"] == "atomgrid" and st["kind"] == "size"})
    conv_ans = dict(zip(conv_keys, driver_batch([f"C12.convert {m} {len(q)} " + " ".join(map(str, q)) for m, q in conv_keys])))

    def convert(m, seq):
        a = conv_ans[(m, tuple(seq))]
        return [int(x) for x in a.split()[2:]] if a.startswith("ok") else None
    lines, shapes = [], []
    for sc in scenarios:
        calls, shape = [], []
        for st in sc:
            ex = _expand(ang, st, dflt, convert)
            shape.append(None if ex is None else len(ex))
            calls += ex or []
        lines.append("C12.hist " + " ".join(f"{m} {d} {s} {1 if c else 0}" for m, d, s, c in calls) if calls else None)
        shapes.append(shape)
    answers = iter(driver_batch([l for l in lines if l is not None]))
    out = []
    for sc, line, shape in zip(scenarios, lines, shapes):
        per_call = [a.split() for a in next(answers).split(" | ")] if line is not None else []
        it = iter(per_call)
        out.append([None if k is None else [next(it) for _ in range(k)] for k in shape])
    return out


def _parse_hist(tokens):
    """`ok d method pkg/file n name:key:file… w warns…` -> dict; an error tag -> {'error': tag}."""
    if tokens[0] != "ok":
        return {"error": tokens[0]}
    d, meth, f = int(tokens[1]), tokens[2], tokens[3]
    n = int(tokens[4])
    caches = {c: [] for c in ext.CACHE_NAMES}
    for t in tokens[5:5 + n]:
        name, key, _ = t.split(":", 2)
        caches[name].append(int(key))
    warns, _ = _warn_tokens(tokens[5 + n:])
    pkg, fname = f.split("/")
    return {"degree": d, "method": meth, "pkg": pkg, "file": fname, "caches": {c: sorted(v) for c, v in caches.items()}, "warnings": warns}


_FSHA = {}


def _file_sha(pkg, fname):
    if (pkg, fname) not in _FSHA:
        pts = _file_points(pkg, fname)
        _FSHA[(pkg, fname)] = (None, 0) if pts is None else (ext.sha(pts), len(pts))
    return _FSHA[(pkg, fname)]


ERRTAG = {"ValueError": "value-error", "TypeError": "type-error", "IndexError": "index-error", "KeyError": "key-error",
          "FileNotFoundError": "os-error", "OSError": "os-error"}


def _check_weights(ctx: Ctx, ang, pending, dflt):
    """Weights and warnings of constructions made inside histories (cache hit or miss, fresh interpreter or not)
    against the generated `initFull` run on the arrays of the file the model names."""
    lines, todo = [], []
    for where, steps, st, o, c in pending:
        pts = _file_points(c["pkg"], c["file"])
        with np.load(SRC.joinpath(*c["pkg"].split(".")[1:]) / c["file"]) as z:
            fw = np.array(z["weights"], dtype=float)
        d = st["degree"] if "degree" in st else dflt["degree"]
        lines.append(f"C12.build {st.get('method', dflt['method'])} {_tok(d)} {_tok(st.get('size', dflt['size']))} 0 {len(pts)} "
                     + " ".join([str(len(fw))] + [f2b(x) for x in fw]))
        todo.append((where, steps, st, o))
    for (where, steps, st, o), a in zip(todo, driver_batch(lines)):
        t = a.split()
        ctx.count([where, "weights", st], nontrivial=True, tag=f"{where}:weights")
        if t[0] != "ok":
            ctx.fail("corr", f"{where}:weights", f"{where}, {st}: generated constructor on the named file: {a[:80]}", witness={"steps": steps, "where": where})
            continue
        mwarn, rest = _warn_tokens(t[5:])
        mw = np.array([int(x) for x in rest[1:]], dtype=np.uint64)
        got = np.frombuffer(bytes.fromhex(o["weights"]), dtype=np.uint64)
        if len(got) != len(mw) or not np.array_equal(got, mw) or o["warnings"] != mwarn:
            k = next((i for i in range(min(len(mw), len(got))) if got[i] != mw[i]), None)
            ctx.fail("corr", f"{where}:weights:{st.get('method', 'lebedev').lower()}", f"{where}, last step of {steps[-3:]}: weights / warnings differ from the generated `initFull` on the same file "
                     f"(first weight differing: index {k}; warnings {o['warnings']} vs {mwarn})", witness={"steps": steps, "where": where, "step": len(steps) - 1})


def _compare_history(ctx: Ctx, ang, steps, obs, model, where, base=None, pending=None):
    """One executed history against the generated constructor run on the same calls. `base`: cache keys that were
    present before the history (in-process histories); None for a fresh interpreter."""
    prev_caches = {c: [] for c in ext.CACHE_NAMES}
    last_model = None
    for i, (st, o, mo) in enumerate(zip(steps, obs, model)):
        if "crash" in o:
            ctx.fail("corr", f"fresh:crash", f"{where}: the interpreter running the history crashed: {o['crash'][-300:]}", witness={"steps": steps})
            return
        tag = f"{where}:{st['op']}" + (":first" if i == 0 else "")
        ctx.count([where, i, st], nontrivial=True, tag=tag)
        wit = {"steps": steps[:i + 1], "step": i, "observed": {k: v for k, v in o.items() if k != "weights"}, "where": where}
        key = f"{where}:{st['op']}:{st.get('method', 'lebedev').lower()}"
        if mo is None:
            prev_caches = None
            continue
        calls = [_parse_hist(t) for t in mo]
        if st["op"] == "init":
            c = calls[0]
            if "error" in c or "error" in o:
                if ERRTAG.get(o.get("error"), o.get("error")) != c.get("error"):
                    ctx.fail("corr", key, f"{where}, step {i} {st}: implementation {o.get('error', 'returns a grid')}, generated constructor {c.get('error', 'returns a grid')}", witness=wit)
                    return
            else:
                fsha, fn = _file_sha(c["pkg"], c["file"])
                bad = []
                if (o["degree"], o["method"], o["npoints"], o["nweights"], o["size"]) != (c["degree"], c["method"], fn, fn, fn):
                    bad.append(f"(degree, method, points, weights, size) = {(o['degree'], o['method'], o['npoints'], o['nweights'], o['size'])}, model {(c['degree'], c['method'], fn, fn, fn)}")
                if o["points"] != fsha:
                    bad.append(f"its points are not those of {c['file']}")
                # (the history model loads token files: the data-dependent negative-weights warning is compared, together
                # with the weights themselves, by `_check_weights` on the real arrays)
                if [w for w in o["warnings"] if w[0] != "UserWarning"] != c["warnings"]:
                    bad.append(f"warnings {o['warnings']}, model {c['warnings']}")
                if bad:
                    ctx.fail("corr", key, f"{where}, step {i} {st}: " + "; ".join(bad), witness=wit)
                    return
                if "weights" in o and pending is not None:
                    pending.append((where, steps[:i + 1], st, o, c))
            last_model = None if ("error" in c or "error" in o) else (c["degree"], c["method"], _file_sha(c["pkg"], c["file"])[1])
        elif st["op"] == "attrs" and last_model is not None and o.get("values") is not None:
            exp = {"degree": last_model[0], "method": last_model[1], "size": last_model[2], "points": last_model[2], "weights": last_model[2]}
            if [[a, exp[a]] for a in st["order"]] != o["values"]:
                ctx.fail("corr", f"{where}:attrs", f"{where}, step {i}: accessors {st['order']} of the grid built last give {o['values']}, generated constructor {[[a, exp[a]] for a in st['order']]}", witness=wit)
                return
        elif st["op"] == "atomgrid":
            if "error" in o or any("error" in c for c in calls):
                merr = next((c["error"] for c in calls if "error" in c), None)
                if ERRTAG.get(o.get("error"), o.get("error")) != merr:
                    ctx.fail("corr", key, f"{where}, step {i} {st}: implementation {o.get('error', 'returns')}, model {merr or 'returns'}", witness=wit)
                    return
            else:
                want_d = [c["degree"] for c in calls]
                want_s = [_file_sha(c["pkg"], c["file"])[1] for c in calls]
                if o["degrees"] != want_d or o["shells"] != want_s:
                    ctx.fail("corr", key, f"{where}, step {i} {st}: shell degrees {o['degrees']} / sizes {o['shells']}, generated constructor per shell {want_d} / {want_s}", witness=wit)
                    return
        good = [c for c in calls if "caches" in c]
        if good:
            prev_caches = good[-1]["caches"]
        if prev_caches is not None:
            want_c = prev_caches if base is None else {c: sorted(set(v) | set(base[c])) for c, v in prev_caches.items()}
            if o["caches"] != want_c:
                ctx.fail("corr", f"{where}:caches:{st.get('method', 'lebedev').lower()}", f"{where}, after step {i} {st}: cache dictionaries hold {o['caches']}, generated constructor: {want_c}", witness=wit)
                return


def _corr_fresh(ctx: Ctx, ang):
    """Classes 9 / 10 / 11 against the generated constructor: every scenario runs in its own interpreter."""
    pending = []
    scen = _scenarios(ctx, ang, ctx.n(13, 80))
    obs = ext.run_scenarios(scen)
    model = _model_history(ang, scen)
    for sc, ob, mo in zip(scen, obs, model):
        if len(ob) != len(sc):
            ctx.fail("corr", "fresh:crash", f"fresh interpreter: the history did not run to its end: {str(ob)[-300:]}", witness={"steps": sc})
            continue
        _compare_history(ctx, ang, sc, ob, mo, "fresh", pending=pending)
    # the same kind of history continuing the state of this process (cache dictionaries already populated)
    scen = _scenarios(ctx, ang, ctx.n(4, 30))
    base = {c: sorted(int(k) for k in getattr(ang, c)) for c in ext.CACHE_NAMES}
    model = _model_history(ang, scen)
    for sc, mo in zip(scen, model):
        base = {c: sorted(int(k) for k in getattr(ang, c)) for c in ext.CACHE_NAMES}
        ob = ext.exec_steps(sc)
        _compare_history(ctx, ang, sc, ob, mo, "inproc", base=base, pending=pending)
    par = inspect.signature(ang.AngularGrid.__init__).parameters
    _check_weights(ctx, ang, pending, {"degree": par["degree"].default, "size": par["size"].default, "method": par["method"].default})



# ================================================================================================
# round 4
# ================================================================================================
def _run_parts(ctx: Ctx, kind, parts):
    """Run independent parts; an exception in one part never hides what the others find. The library raising inside the
    envelope is a failure of its own (`<part>:raises`); anything else (driver, harness) is kept and re-raised at the end."""
    first = None
    for name, fn in parts:
        try:
            fn()
        except Exception as e:  # noqa: BLE001
            tb = traceback.extract_tb(e.__traceback__)
            if not isinstance(e, DriverError) and any(str(SRC) in (f.filename or "") for f in tb):
                where = next(f for f in reversed(tb) if str(SRC) in (f.filename or ""))
                ctx.fail(kind, f"{name}:raises", f"part `{name}`: the library raised {type(e).__name__}: {str(e)[:200]} at {where.filename.split('/')[-1]}:{where.lineno} "
                         "on an input inside the property's range", witness={"part": name, "traceback": traceback.format_exception(type(e), e, e.__traceback__)[-6:]})
            elif first is None:
                first = e
    if first is not None:
        raise first


def _chains(ctx: Ctx, ang, n):
    """(method, sequence): sizes together with their OWN matched degree (and the degree that one resolves to when read as a
    size), in both orders, with repeats — table sizes and odd sizes between table entries, every method. A converter that
    works on a partly converted array confuses an already written degree with a later size exactly here."""
    out = [("lebedev", [50, 11]), ("lebedev", [11, 50]), ("lebedev", [49, 11, 5])]
    for m in METHODS:
        npts = getattr(ang, PREFIX[m] + "_NPOINTS")
        ks = sorted(npts)

        def deg(x):
            return npts[min(k for k in ks if k >= x)]
        picks = [k for k in ks if deg(k) != k and deg(k) >= 2][:40]
        for j in range(n):
            k = picks[j] if j < 3 else ctx.rng.choice(picks)
            s0 = k if j % 2 == 0 else max(1, k - ctx.rng.randrange(1, 3))      # a table size / an odd size just below it
            d1 = deg(s0)
            d2 = deg(d1)
            d3 = deg(d2)
            for q in ([s0, d1], [d1, s0], [s0, d1, d2], [d2, d1, s0], [d1, s0, d1, s0], [s0, d1, d2, d3, s0]):
                out.append((m, q))
            extra = [ctx.rng.choice(ks[:30]) for _ in range(2)]
            q = [s0, d1, d2] + extra
            ctx.rng.shuffle(q)
            out.append((m, q))
    return out


def _requests(ctx: Ctx, ang, full: bool):
    """-> list of (method, kind, n)"""
    reqs = []
    for m in METHODS:
        npts = getattr(ang, PREFIX[m] + "_NPOINTS")
        maxd, maxs = max(npts.values()), max(npts.keys())
        reqs += [(m, "deg", n) for n in range(0, maxd + 3)]
        if full:
            reqs += [(m, "size", n) for n in range(0, maxs + 3)]
        else:
            ss = set()
            for k in npts:
                ss.update((k - 1, k, k + 1))
            ss.update((0, 1, 2, maxs + 1, maxs + 2))
            stride = 37 + ctx.rng.randrange(40)
            ss.update(range(ctx.rng.randrange(stride), maxs, stride))
            reqs += [(m, "size", n) for n in sorted(s for s in ss if s >= 0)]
    return reqs


def _corr_resolve(ctx: Ctx, ang):
    reqs = _requests(ctx, ang, ctx.thorough)
    lines = [f"C12.resolve {m} {k} {n}" for m, k, n in reqs]
    model = driver_batch(lines)
    for (m, k, n), ans in zip(reqs, model):
        npts = getattr(ang, PREFIX[m] + "_NPOINTS")
        keys = npts.values() if k == "deg" else npts.keys()
        impl = _impl(ang, m, degree=n) if k == "deg" else _impl(ang, m, size=n)
        ctx.count([m, k, n], nontrivial=(n not in keys), tag=f"{m}:{k}:" + ("hit" if n in keys else ("reject" if ans == "value-error" else "bisect")))
        if impl != ans:
            ctx.fail("corr", f"resolve:{m}:{k}", f"_get_degree_and_size({k}={n}, method={m}): implementation {impl}, model {ans}",
                     witness={"method": m, "kind": k, "request": n, "impl": impl, "model": ans})
    ctx.exhaustive = ctx.thorough
    # np.integer requests take the same path
    for m in METHODS:
        for n in (np.int64(7), np.int32(20)):
            a = _impl(ang, m, degree=n)
            b = _impl(ang, m, degree=int(n))
            ctx.count([m, "npint", int(n)], nontrivial=False, tag="npint")
            if a != b:
                ctx.fail("corr", f"resolve:{m}:npint", f"np.integer degree {n!r} resolves to {a}, int to {b}")
    # malformed stream: rejected before the modelled part
    for m in METHODS:
        for bad in (-1, 2.5, "7"):
            for kw in ("degree", "size"):
                r = _impl(ang, m, **{kw: bad})
                ctx.count([m, kw, repr(bad)], nontrivial=False, tag="malformed")
                if r != "value-error":
                    ctx.fail("corr", f"resolve:{m}:malformed", f"{kw}={bad!r} not rejected: {r}")
        r = _impl(ang, m)
        if r != "value-error":
            ctx.fail("corr", f"resolve:{m}:malformed", f"degree=None,size=None not rejected: {r}")


def _pool(ctx: Ctx, ang):
    pool = set()
    for m in METHODS:
        ks = sorted(getattr(ang, PREFIX[m] + "_NPOINTS"))
        for k in ks[:14] + ctx.rng.sample(ks, min(6, len(ks))) + [ks[-1]]:
            pool.update((k - 1, k, k + 1))
    return sorted(x for x in pool if x >= 0)


def _corr_convert_history(ctx: Ctx, ang, pool):
    # converter on sequences: a *history* of calls in one process; the sizes come from one shared
    # pool (table keys of every method and values around them), so the same size is converted
    # under different methods, in both orders, repeatedly — the rule is stateless, any memory of
    # earlier calls shows up as a disagreement with the model
    nseq = ctx.n(160, 3000)
    seqs = list(_chains(ctx, ang, ctx.n(4, 25)))       # a size together with its own matched degree: in every run
    for _ in range(nseq):
        m = ctx.rng.choice(METHODS)
        npts = list(getattr(ang, PREFIX[m] + "_NPOINTS"))
        L = ctx.rng.randrange(0, 9)
        r = ctx.rng.random()
        if r < 0.7:
            src = pool
        else:
            src = [ctx.rng.randrange(0, max(npts) + 1) for _ in range(max(1, L // 2))] + [ctx.rng.choice(npts)]
            if ctx.rng.random() < 0.3:
                src.append(max(npts) + 1 + ctx.rng.randrange(5))
        seqs.append((m, [ctx.rng.choice(src) for _ in range(L)]))
    model = driver_batch([f"C12.convert {m} {len(s)} " + " ".join(map(str, s)) for m, s in seqs])
    for (m, s), ans in zip(seqs, model):
        _HISTORY.append([m, list(s)])
        try:
            d = ang.AngularGrid.convert_angular_sizes_to_degrees(np.array(s, dtype=int), m)
            impl = "ok " + " ".join([str(len(d))] + [str(int(x)) for x in d])
        except ValueError:
            impl = "value-error"
        ctx.count(["convert", m, s], nontrivial=len(set(s)) >= 2, tag="convert:" + ("reject" if impl == "value-error" else "ok"))
        if impl != ans:
            ctx.fail("corr", f"convert:{m}", f"convert_angular_sizes_to_degrees({s}, {m}) after earlier calls with other methods: implementation {impl}, model {ans}",
                     witness={"method": m, "sizes": s, "impl": impl, "model": ans,
                              "history": [[mm, ss] for mm, ss in seqs[:seqs.index((m, s))][-12:]]})


def corr(ctx: Ctx):
    ang = importlib.import_module("grid.angular")
    pool = _pool(ctx, ang)
    _run_parts(ctx, "corr", [
        ("resolve", lambda: _corr_resolve(ctx, ang)),
        ("convert", lambda: _corr_convert_history(ctx, ang, pool)),
        ("classes", lambda: _corr_classes(ctx, ang)),
        ("containers", lambda: _corr_containers(ctx, ang, pool)),
        ("constructions", lambda: _corr_constructions(ctx, ang)),
        ("atomgrid", lambda: _corr_atomgrid(ctx, ang)),
        ("numeric", lambda: _corr_numeric(ctx, ang)),
        ("fresh", lambda: _corr_fresh(ctx, ang)),
    ])
    ctx.traces += 1



SNIPPET = """import warnings; warnings.filterwarnings('ignore')
import numpy as np
from importlib.resources import files
from grid import angular as ang
method, kind, n = {method!r}, {kind!r}, {n}
P = {{'lebedev':'LEBEDEV','spherical':'SPHERICAL','maxdet':'MAX_DET','ahrens_beylkin':'AHRENS_BEYLKIN'}}[method]
npts = getattr(ang, P + '_NPOINTS')           # size -> degree
pairs = sorted((d, s) for s, d in npts.items())
cands = [(d, s) for d, s in pairs if (d if kind == 'deg' else s) >= n]
try:
    got = ang.AngularGrid._get_degree_and_size(degree=n if kind == 'deg' else None, size=n if kind == 'size' else None, method=method)
    got = (int(got[0]), int(got[1]))
except (ValueError, IndexError) as e:
    got = type(e).__name__
want = min(cands, key=lambda p: p[0] if kind == 'deg' else p[1]) if cands else 'ValueError'
assert got == want, f'{{method}} {{kind}}={{n}}: got {{got}}, smallest supported not below is {{want}}'
"""


def _want(ang, m, kind, n):
    """Brute force over the table: the supported (degree, size) with the least degree (size) not
    below the request, or None."""
    npts = getattr(ang, PREFIX[m] + "_NPOINTS")
    cands = [(int(d), int(sz)) for sz, d in npts.items() if (d if kind == "deg" else sz) >= n]
    return min(cands, key=lambda p: p[0] if kind == "deg" else p[1]) if cands else None


_DIRFILES = {}


def _dir_points(m, d, sz):
    """points of the data file with this degree and size, found by listing the directory."""
    if (m, d, sz) not in _DIRFILES:
        fs = [f for f in (SRC / "data" / DIRS[m]).glob("*.npz") if f.name.endswith(f"_{d}_{sz}.npz")]
        if len(fs) != 1:
            _DIRFILES[(m, d, sz)] = None
        else:
            with np.load(fs[0]) as z:
                _DIRFILES[(m, d, sz)] = np.array(z["points"])
    return _DIRFILES[(m, d, sz)]


BUILT_SNIPPET = """import warnings; warnings.filterwarnings('ignore')
import inspect
import numpy as np
from grid import angular as ang
A = ang.AngularGrid
P = {{'lebedev':'LEBEDEV','spherical':'SPHERICAL','maxdet':'MAX_DET','ahrens_beylkin':'AHRENS_BEYLKIN'}}
def build(sp, st, d, sz, cache):
    if st == 'default': return A()
    if st == 'deg-kw': return A(degree=d, method=sp, cache=cache)
    if st == 'deg-pos': return A(d, method=sp, cache=cache)
    if st == 'size': return A(size=sz, method=sp, cache=cache)
    if st == 'size-degnone': return A(None, size=sz, cache=cache, method=sp)
    return A(degree=d, size=sz, method=sp, cache=cache)
hist = {hist!r}      # (method, style, degree, size, cache), the last one is the failing call
for sp, st, d, sz, cache in hist:
    m = sp.lower()
    if st == 'default':
        par = inspect.signature(A.__init__).parameters
        m, d, sz = par['method'].default, par['degree'].default, par['size'].default
    npts = getattr(ang, P[m] + '_NPOINTS')
    kind, n = ('size', sz) if sz is not None else ('deg', d)
    cands = [(dd, ss) for ss, dd in npts.items() if (dd if kind == 'deg' else ss) >= n]
    try:
        g = build(sp, st, d, sz, cache)
        got = (int(g.degree), int(g.size), len(g.points), len(g.weights))
    except Exception as e:
        got = type(e).__name__
    if cands:
        w = min(cands, key=lambda p: p[0] if kind == 'deg' else p[1])
        want = (w[0], w[1], w[1], w[1])
    else:
        want = 'ValueError'
    assert got == want, f'AngularGrid({{st}}: degree={{d}}, size={{sz}}, method={{sp}}, cache={{cache}}): (degree, size, points, weights) = {{got}}, smallest supported not below gives {{want}}'
"""


def _plain(v):
    return v if v is None else int(v)


def _check_built(ctx: Ctx, ang, step, done):
    """The property on one construction (after the constructions in `done`): requests made of
    integers only; float / negative arguments are outside the property's quantifier."""
    sp, st, d, sz, cache = step
    m = sp.lower()
    if m not in METHODS or any(_tok(v) == "other" or (v is not None and int(v) < 0) for v in (d, sz)):
        return True
    if st == "default":     # whatever the defaults are, they are a request like any other
        par = inspect.signature(ang.AngularGrid.__init__).parameters
        m, d, sz = par["method"].default, par["degree"].default, par["size"].default
        if m not in METHODS or any(not (v is None or (isinstance(v, int) and v >= 0)) for v in (d, sz)):
            return True
    if sz is not None:
        kind, n = "size", int(sz)      # "If both degree and size are given, size is used"
    elif d is not None:
        kind, n = "deg", int(d)
    else:
        return True
    w = _want(ang, m, kind, n)
    try:
        g = _construct(ang, sp, st, d, sz, cache)
        got = (int(g.degree), int(g.size), len(g.points), len(g.weights))
    except Exception as e:  # noqa: BLE001
        g, got = None, type(e).__name__
    want = "ValueError" if w is None else (w[0], w[1], w[1], w[1])
    ok = got == want
    why = f"(degree, size, points, weights) = {got}, the smallest supported grid not below the request gives {want}"
    if ok and g is not None:
        pts = _dir_points(m, w[0], w[1])
        if pts is None:
            ctx.fail("oracle", f"angular:{m}:{w[0]}_{w[1]}:file", f"{m}: no single data file for degree {w[0]} with {w[1]} points",
                     witness={"method": m, "degree": w[0], "size": w[1]})
            return True
        if not np.array_equal(g.points, pts):
            ok, why = False, f"its points are not those stored for degree {w[0]} / size {w[1]}"
    if not ok:
        hist = [(a, b, _plain(c), _plain(e_), f) for a, b, c, e_, f in done[-60:] + [step] if _tok(c) != "other" and _tok(e_) != "other"]
        ctx.fail("oracle", f"angular:{m}:built", f"AngularGrid({st}: degree={d!r}, size={sz!r}, method={sp!r}, cache={cache}) after {len(done)} earlier constructions: {why}",
                 witness={"method": sp, "style": st, "degree": repr(d), "size": repr(sz), "cache": cache, "got": got, "want": want, "history": hist},
                 snippet=BUILT_SNIPPET.format(hist=hist))
    return ok


def _oracle_atomgrid(ctx: Ctx, ang, n):
    from grid.atomgrid import AtomGrid
    from grid.onedgrid import GaussLaguerre

    for m in METHODS:
        npts = getattr(ang, PREFIX[m] + "_NPOINTS")
        small = [k for k in sorted(npts) if k <= 400]
        for kind in ("deg", "size"):
            for _ in range(n):
                src = [npts[k] for k in small] if kind == "deg" else small
                seq = [max(0, ctx.rng.choice(src) + ctx.rng.choice((-1, 0, 1))) for _ in range(ctx.rng.randrange(2, 5))]
                with warnings.catch_warnings():
                    warnings.simplefilter("ignore")
                    rg = GaussLaguerre(len(seq))
                    g = AtomGrid(rg, degrees=list(seq), method=m) if kind == "deg" else AtomGrid(rg, sizes=list(seq), method=m)
                got = [int(x) for x in g.degrees]
                want = [_want(ang, m, kind, x)[0] for x in seq]
                shells = [int(g.indices[i + 1] - g.indices[i]) for i in range(len(seq))]
                wsz = [_want(ang, m, kind, x)[1] for x in seq]
                if got != want or shells != wsz:
                    ctx.fail("oracle", f"angular:{m}:atomgrid", f"AtomGrid(rgrid, {'degrees' if kind == 'deg' else 'sizes'}={seq}, method={m}): shell degrees {got} / shell sizes {shells}, "
                             f"smallest supported not below the request: degrees {want} / sizes {wsz}",
                             witness={"method": m, "kind": kind, "request": seq, "got": got, "want": want},
                             snippet=("import warnings; warnings.filterwarnings('ignore')\nfrom grid import angular as ang\nfrom grid.atomgrid import AtomGrid\nfrom grid.onedgrid import GaussLaguerre\n"
                                      f"m, kind, seq = {m!r}, {kind!r}, {seq!r}\n"
                                      "P = {'lebedev':'LEBEDEV','spherical':'SPHERICAL','maxdet':'MAX_DET','ahrens_beylkin':'AHRENS_BEYLKIN'}\n"
                                      "npts = getattr(ang, P[m] + '_NPOINTS')\n"
                                      "g = AtomGrid(GaussLaguerre(len(seq)), degrees=seq, method=m) if kind == 'deg' else AtomGrid(GaussLaguerre(len(seq)), sizes=seq, method=m)\n"
                                      "want = [min((d, s) for s, d in npts.items() if (d if kind == 'deg' else s) >= x) if kind == 'deg' else min((s, d) for s, d in npts.items() if s >= x)[::-1] for x in seq]\n"
                                      "assert [int(x) for x in g.degrees] == [w[0] for w in want], ([int(x) for x in g.degrees], want)\n"
                                      "assert [int(g.indices[i+1]-g.indices[i]) for i in range(len(seq))] == [w[1] for w in want], want\n"))


    # pruned atomic grids: every shell of a sector gets the smallest supported degree (size) of ITS method not below the sector's
    # request, over the whole range of the method (beyond the Lebedev maximum 131 for the other three methods too); the sector
    # bounds are put far below / above all radial points so that the sector assignment itself (C05) plays no role
    for m in METHODS:
        npts = getattr(ang, PREFIX[m] + "_NPOINTS")
        dmax, smax = max(npts.values()), max(npts)
        for kind in ("deg", "size"):
            for _ in range(max(2, n // 2)):
                top = dmax if kind == "deg" else min(smax, 6000)
                req = [ctx.rng.randrange(0, top + 1), ctx.rng.choice([ctx.rng.randrange(0, top + 1), ctx.rng.randrange(max(0, top - 40), top + 1), ctx.rng.randrange(0, 40)])]
                which = ctx.rng.randrange(2)
                bound = [1e-9, 1e9][1 - which]          # all shells in sector `which`
                with warnings.catch_warnings():
                    warnings.simplefilter("ignore")
                    rg = GaussLaguerre(3)
                    kw = {"d_sectors": list(req)} if kind == "deg" else {"s_sectors": list(req)}
                    try:
                        g = AtomGrid.from_pruned(rg, 1.0, r_sectors=[bound], method=m, **kw)
                        got, shells = [int(x) for x in g.degrees], [int(g.indices[i + 1] - g.indices[i]) for i in range(3)]
                    except Exception as e:
                        got, shells = f"{type(e).__name__}: {str(e)[:80]}", None
                # both sector requests are converted (a conversion error for the unused sector is still an error of the call)
                want, wsz = [_want(ang, m, kind, req[which])[0]] * 3, [_want(ang, m, kind, req[which])[1]] * 3
                ctx.count(["from_pruned", m, kind, req, which], nontrivial=True, tag=f"from_pruned:{m}")
                if got != want or shells != wsz:
                    ctx.fail("oracle", f"angular:{m}:atomgrid:from_pruned",
                             f"AtomGrid.from_pruned(GaussLaguerre(3), 1.0, r_sectors=[{bound}], {'d' if kind == 'deg' else 's'}_sectors={req}, method={m}): shell degrees {got} / sizes {shells}; "
                             f"all shells lie in sector {which}: smallest supported not below {req[which]} is degree {want[0]} / size {wsz[0]}",
                             witness={"method": m, "kind": kind, "request": req, "sector": which, "got": got, "want": want},
                             snippet=("import warnings; warnings.filterwarnings('ignore')\nfrom grid import angular as ang\nfrom grid.atomgrid import AtomGrid\nfrom grid.onedgrid import GaussLaguerre\n"
                                      f"m, kind, req, which, bound = {m!r}, {kind!r}, {req!r}, {which}, {bound!r}\n"
                                      "P = {'lebedev':'LEBEDEV','spherical':'SPHERICAL','maxdet':'MAX_DET','ahrens_beylkin':'AHRENS_BEYLKIN'}\n"
                                      "npts = getattr(ang, P[m] + '_NPOINTS')\n"
                                      "kw = {'d_sectors': req} if kind == 'deg' else {'s_sectors': req}\n"
                                      "g = AtomGrid.from_pruned(GaussLaguerre(3), 1.0, r_sectors=[bound], method=m, **kw)\n"
                                      "w = min((d, s) for s, d in npts.items() if (d if kind == 'deg' else s) >= req[which])\n"
                                      "assert [int(x) for x in g.degrees] == [w[0]] * 3 and [int(g.indices[i+1]-g.indices[i]) for i in range(3)] == [w[1]] * 3, ([int(x) for x in g.degrees], w)\n"))



# ---- round 3, oracle side: the property itself on histories and on every consumer route ----------------
def _shell_want(ang, m, kind, req):
    """per requested degree/size: (degree, size) of the smallest supported grid not below, or None."""
    return [ext.want(ang, m, kind, int(x)) for x in req]



def _per_shell_expect(ang, m, kind, seq, bounds, rpts, got_deg, got_shell):
    """Brute force, shell by shell, independent of the order of the radial array: the sector of a radius is the number of
    boundaries below it; a radius exactly on a boundary may belong to either neighbour (the documentation gives both
    readings) but every occurrence of the same radius in one call must get the same one. -> (degrees, shells) or None when a
    sector request is above the maximum."""
    ws = _shell_want(ang, m, kind, seq)
    if any(w is None for w in ws):
        return None
    choice, degs, shells = {}, [], []
    for i, r in enumerate(rpts):
        lo, hi = sum(1 for b in bounds if b < r), sum(1 for b in bounds if b <= r)
        allowed = [ws[k] for k in range(lo, hi + 1)]
        if r not in choice:
            g = (got_deg[i], got_shell[i]) if got_deg is not None and i < len(got_deg) and i < len(got_shell) else None
            choice[r] = g if g in allowed else allowed[0]
        degs.append(choice[r][0])
        shells.append(choice[r][1])
    return degs, shells


def _oracle_steps(ctx: Ctx, ang, steps, obs, where):
    """Brute-force check of every observation of one history. -> False at the first violation."""
    par = inspect.signature(ang.AngularGrid.__init__).parameters
    last = None

    def fail(i, key, what, exp):
        chk = (f"i, exp = {i}, json.loads({json.dumps(exp)!r})\n"
               "got = {k: obs[i].get(k) for k in exp}\n"
               f"assert got == exp, 'step %d %r: observed %r, the resolution rule gives %r' % (i, steps[i], got, exp)\n")
        ctx.fail("oracle", key, f"{where}, step {i} of {len(steps)} ({steps[i]}) after {steps[:i][-4:]}: {what}",
                 witness={"steps": steps[:i + 1], "expected": exp, "observed": {k: v for k, v in obs[i].items() if k != 'weights'}},
                 snippet=ext.snippet(steps[:i + 1], chk))
        return False
    for i, (st, o) in enumerate(zip(steps, obs)):
        if "crash" in o:
            ctx.fail("oracle", f"angular:{where}:crash", f"{where}: history did not run: {o['crash'][-200:]}", witness={"steps": steps})
            return False
        op = st["op"]
        m = st.get("method", "lebedev" if op != "init" else par["method"].default).lower()
        ctx.count([where, "oracle", i, st], nontrivial=True, tag=f"oracle:{where}:{op}")
        if op == "init":
            d = st["degree"] if "degree" in st else par["degree"].default
            sz = st.get("size", par["size"].default)
            if m not in METHODS:
                if o.get("error") != "ValueError":
                    return fail(i, f"angular:{m}:built", f"unknown method accepted: {o}", {"error": "ValueError"})
                continue
            if any(v is not None and (isinstance(v, bool) or not isinstance(v, int) or v < 0) for v in (d, sz)):
                continue        # a float / negative request is outside the property's quantifier (the step is there for what follows it)
            kind, n = ("size", sz) if sz is not None else ("deg", d)
            if n is None:       # neither a degree nor a size: nothing to build
                if o.get("error") != "ValueError":
                    return fail(i, f"angular:{m}:built", f"AngularGrid with degree=None and size=None was not rejected: {o}", {"error": "ValueError"})
                continue
            w = ext.want(ang, m, kind, n)
            if w is None:
                if o.get("error") != "ValueError":
                    return fail(i, f"angular:{m}:built", f"request {kind}={n} above the maximum was not rejected: {o.get('degree')}/{o.get('size')}", {"error": "ValueError"})
                continue
            fa = ext.file_arrays(m, w[0], w[1])
            if fa is None:
                ctx.fail("oracle", f"angular:{m}:{w[0]}_{w[1]}:file", f"{m}: no single data file for degree {w[0]} with {w[1]} points", witness={"method": m, "degree": w[0], "size": w[1]})
                return False
            exp = {"degree": w[0], "size": w[1], "method": m, "npoints": w[1], "nweights": w[1], "points": ext.sha(fa[0])}
            got = {k: o.get(k) for k in exp}
            if got != exp:
                what = (f"built {got.get('degree')}/{got.get('size')} with {got.get('npoints')} points" if "error" not in o else f"raised {o['error']}: {o.get('msg')}")
                if got.get("points") != exp["points"] and all(got.get(k) == exp[k] for k in exp if k != "points"):
                    what = "reports the right degree and size but its points are not those of the data file"
                return fail(i, f"angular:{m}:built", f"{what}; smallest supported grid not below {kind}={n} is degree {w[0]} / size {w[1]} ({'fresh interpreter' if where == 'fresh' else 'in-process history'})", exp)
            if "weights" in o:
                gw = np.frombuffer(bytes.fromhex(o["weights"]), dtype=float)
                rw = ext.reference_weights(m, fa[1], w[1])
                if not np.allclose(gw, rw, rtol=1e-13, atol=0):
                    k = int(np.argmax(np.abs(gw - rw)))
                    chk = ("from grid import angular as ang\n"
                           f"i = {i}\nimport numpy as np\nw = np.frombuffer(bytes.fromhex(obs[i]['weights']), dtype=float)\n"
                           f"z = np.load({str(next((SRC / 'data' / DIRS[m]).glob(f'*_{w[0]}_{w[1]}.npz')))!r})\n"
                           f"s = z['weights'] if len(z['weights']) > 1 else np.full({w[1]}, z['weights'][0])\n"
                           f"ref = s * {4 * np.pi if m in ('lebedev', 'spherical') else 1.0!r}\n"
                           "assert np.allclose(w, ref, rtol=1e-13, atol=0), 'weights of the built grid are not those of its data file: max deviation %g' % np.abs(w - ref).max()\n")
                    ctx.fail("oracle", f"angular:{m}:built:weights", f"{where}, step {i} ({st}) after {steps[:i][-4:]}: the grid has the points of {m}_{w[0]}_{w[1]}.npz but not its weights (index {k}: {gw[k]} vs {rw[k]})",
                             witness={"steps": steps[:i + 1]}, snippet=ext.snippet(steps[:i + 1], chk))
                    return False
            last = exp
        elif op == "attrs" and last is not None and o.get("values") is not None:
            vals = {"degree": last["degree"], "size": last["size"], "method": last["method"], "points": last["size"], "weights": last["size"]}
            exp = {"values": [[a, vals[a]] for a in st["order"]]}
            if o.get("values") != exp["values"]:
                return fail(i, f"angular:{last['method']}:built:attrs", f"accessors in the order {st['order']} give {o.get('values')}", exp)
        elif op == "gds" and m in METHODS:
            d, sz = st["degree"], st["size"]
            kind, n = ("deg", d) if d is not None else ("size", sz)
            w = ext.want(ang, m, kind, n)
            exp = {"error": "ValueError"} if w is None else {"degree": w[0], "size": w[1]}
            if {k: o.get(k) for k in exp} != exp:
                return fail(i, f"angular:{m}:{kind}", f"_get_degree_and_size answers {o}", exp)
        elif op == "load" and m in METHODS:
            fa = ext.file_arrays(m, st["degree"], st["size"])
            if fa is None or ext.want(ang, m, "deg", st["degree"]) != (st["degree"], st["size"]):
                continue        # not a pair of the table: the loader refuses it (checked by the correspondence)
            exp = {"points": ext.sha(fa[0]), "npoints": len(fa[0])}
            if {k: o.get(k) for k in exp} != exp:
                return fail(i, f"angular:{m}:load", f"the loader returns {o.get('npoints')} points that are not those of the file", exp)
        elif op == "convert" and m in METHODS:
            ws = _shell_want(ang, m, "size", st["sizes"])
            exp = {"error": "ValueError"} if any(w is None for w in ws) else {"degrees": [w[0] for w in ws]}
            if {k: o.get(k) for k in exp} != exp:
                return fail(i, f"angular:{m}:convert", f"convert_angular_sizes_to_degrees gives {o.get('degrees', o.get('error'))}", exp)
        elif op == "rgrid_edit":
            continue
        elif st.get("per_shell") and op in ("pruned", "preset") and m in METHODS:
            # any order of the radial grid: every shell against the sector of its own radius
            rpts = o.get("rpoints") or st.get("rpoints")
            e = _per_shell_expect(ang, m, st["kind"], st["seq"], st["bounds"], rpts, o.get("degrees"), o.get("shells"))
            exp = {"error": "ValueError"} if e is None else {"degrees": e[0], "shells": e[1]}
            if {k: o.get(k) for k in exp} != exp:
                return fail(i, f"angular:{m}:atomgrid:from_{op}:order", f"{op} on the radial points {rpts} (sector boundaries {st['bounds']}, per-sector {st['kind']} requests {st['seq']}): "
                            f"shell degrees {o.get('degrees', o.get('error'))} / sizes {o.get('shells')}; shell by shell from each radius' own sector: {exp.get('degrees', exp)} / {exp.get('shells')}", exp)
            if "second" in o and o["second"] != {k: o[k] for k in o["second"]}:
                return fail(i, f"angular:{m}:atomgrid:from_{op}:second-call", f"{op} called a second time with the same arguments gives {o['second']}, first {exp}", {"second": {**exp, "size": sum(exp.get("shells", []))}})
            if o.get("bounds_unchanged") is False:
                return fail(i, f"angular:{m}:atomgrid:from_{op}:argument-changed", f"{op}: the r_sectors array of the caller was modified", {"bounds_unchanged": True})
        elif st.get("per_shell") and op == "molpruned":
            rpts = o.get("rpoints") or st.get("rpoints")
            atoms, bad = [], False
            for a, (q, b) in enumerate(zip(st["seq"], st["bounds"])):
                oa = o["atoms"][a] if "atoms" in o and a < len(o["atoms"]) else {}
                e = _per_shell_expect(ang, "lebedev", st["kind"], q, b, rpts, oa.get("degrees"), oa.get("shells"))
                if e is None:
                    bad = True
                    break
                atoms.append({"degrees": e[0], "shells": e[1], "size": sum(e[1])})
            exp = {"error": "ValueError"} if bad else {"atoms": atoms}
            if {k: o.get(k) for k in exp} != exp:
                got = o.get("error") or [(a["degrees"], a["shells"]) for a in o.get("atoms", [])]
                return fail(i, "angular:lebedev:molgrid:pruned:order", f"MolGrid.from_pruned on the radial points {rpts} (boundaries per atom {st['bounds']}, requests {st['seq']}): per atom (degrees, shell sizes) {got}; "
                            f"shell by shell from each radius' own sector: {[(a['degrees'], a['shells']) for a in atoms] if not bad else 'ValueError'}", exp)
        elif op in ("atomgrid", "pruned", "preset", "atomgrid2", "pruned2") and m in METHODS:
            seq = None
            if op == "atomgrid2":       # both alternative arguments may be given: the documentation says sizes win
                kind, req = ("size", st["sizes"]) if st.get("sizes") is not None else ("deg", st.get("degrees"))
            elif op == "pruned2":       # s_sectors win over d_sectors
                kind, seq = ("size", st["s_sectors"]) if st.get("s_sectors") is not None else ("deg", st.get("d_sectors"))
                req = None if seq is None else [seq[st["sector"]]] * len(st["rpoints"])
            elif op == "atomgrid":
                req, kind = st["seq"], st["kind"]
            elif op == "pruned":
                seq, kind = st["seq"], st["kind"]
                req = [seq[st["sector"]]] * len(st["rpoints"])
            else:
                req, kind = st["request"], "size"
            if req is None:             # neither of the two: must be refused
                if "error" not in o:
                    return fail(i, f"angular:{m}:atomgrid", f"{op} with neither degrees nor sizes built a grid: {o.get('degrees')}", {"error": "TypeError"})
                continue
            if op in ("atomgrid", "atomgrid2"):
                every = list(req)       # the converter / the constructor sees every entry, also when the lengths do not fit
                if len(req) == 1:       # one entry stands for every radial point
                    req = list(req) * len(st["rpoints"])
                elif len(req) != len(st["rpoints"]):
                    if o.get("error") != "ValueError":
                        return fail(i, f"angular:{m}:atomgrid", f"{op}: {len(req)} requests for {len(st['rpoints'])} radial points were not refused: {o.get('degrees')}", {"error": "ValueError"})
                    continue
            ws = _shell_want(ang, m, kind, req)
            also = _shell_want(ang, m, kind, seq) if seq is not None else []     # every sector request is converted
            exp = {"error": "ValueError"} if any(w is None for w in ws + also) else {"degrees": [w[0] for w in ws], "shells": [w[1] for w in ws]}
            if {k: o.get(k) for k in exp} != exp:
                return fail(i, f"angular:{m}:atomgrid" + ("" if op == "atomgrid" else ":from_" + op), f"{op}: shell degrees {o.get('degrees', o.get('error'))} / sizes {o.get('shells')}; requested per shell ({kind}) {req}", exp)
        elif op in ("molsize", "molpruned", "molpreset"):
            nat = len(st["atnums"])
            if op == "molsize":
                reqs, kind = [[st["size"]] * len(st["rpoints"])] * nat, "size"
                also = []
            elif op == "molpruned":
                seqs = st["seq"]
                reqs, kind = [[q[st["sector"]]] * len(st["rpoints"]) for q in seqs], st["kind"]
                also = [x for q in seqs for x in q]
            else:
                reqs, kind, also = [st["request"]] * nat, "size", []
            ws = [_shell_want(ang, "lebedev", kind, r) for r in reqs]
            bad = any(w is None for a in ws for w in a) or any(w is None for w in _shell_want(ang, "lebedev", kind, also))
            exp = {"error": "ValueError"} if bad else {"atoms": [{"degrees": [w[0] for w in a], "shells": [w[1] for w in a], "size": sum(w[1] for w in a)} for a in ws]}
            if {k: o.get(k) for k in exp} != exp:
                got = o.get("error") or [(a["degrees"], a["shells"]) for a in o.get("atoms", [])]
                if "error" in exp:
                    got = f"a grid was built {got}: a request above the Lebedev maximum (among {sorted(set(also) | {x for r in reqs for x in r})}) was not rejected"
                return fail(i, f"angular:lebedev:molgrid:{op[3:]}", f"MolGrid.from_{op[3:]}: per atom (degrees, shell sizes) {got}; requested per shell ({kind}) {reqs}", exp)
    return True


def _consumer_steps(ctx: Ctx, ang, n):
    """Every consumer route of the rule, every method where the route has one, over the whole range of the method
    (beyond the Lebedev maximum for the other three), including requests above the maximum (must be rejected)."""
    steps = []
    presets = sorted(p.name[len("prune_grid_"):-4] for p in (SRC / "data" / "prune_grid").glob("prune_grid_*.npz"))
    for m in METHODS:
        npts = getattr(ang, PREFIX[m] + "_NPOINTS")
        dmax, smax = max(npts.values()), max(npts)
        for _ in range(n):
            # AtomGrid(degrees= / sizes=)
            kind = ctx.rng.choice(["deg", "size"])
            top = dmax if kind == "deg" else min(smax, 3000)
            seq = [ctx.rng.choice([ctx.rng.randrange(0, top + 1), ctx.rng.randrange(0, 60), top]) for _ in range(ctx.rng.randrange(1, 4))]
            if ctx.rng.random() < 0.25:
                seq[ctx.rng.randrange(len(seq))] = (dmax if kind == "deg" else smax) + ctx.rng.randrange(1, 4)
            # (the sizes route hands the method to the converter as it is spelled: only the documented lower-case names there)
            steps.append({"op": "atomgrid", "kind": kind, "seq": seq, "rpoints": [0.4 * (j + 1) for j in range(len(seq))], "method": ctx.rng.choice([m, m.upper()]) if kind == "deg" else m,
                          "container": ctx.rng.choice(["list", "array"])})
            # AtomGrid.from_pruned: all shells in one sector (bounds far away), the other sector's request anything
            kind = ctx.rng.choice(["deg", "size"])
            top = dmax if kind == "deg" else min(smax, 6000)
            req = [ctx.rng.randrange(0, top + 1), ctx.rng.choice([ctx.rng.randrange(0, 40), ctx.rng.randrange(max(0, top - 30), top + 1)])]
            if ctx.rng.random() < 0.3:
                req[ctx.rng.randrange(2)] = (dmax if kind == "deg" else smax) + ctx.rng.randrange(1, 3)
            sector = ctx.rng.randrange(2)
            steps.append({"op": "pruned", "kind": kind, "seq": req, "sector": sector, "radius": 1.0, "r_sectors": [[1e9], [1e-9]][sector],
                          "rpoints": [0.3, 0.9, 2.2], "method": m})
            # AtomGrid.from_preset: one preset tabulated as counts of shells, sg_1 (both branches), one tabulated as radii
            for pz in (ctx.rng.choice([p for p in presets if p in ext.LIST_PRESETS]), "sg_1", ctx.rng.choice([p for p in presets if p not in ext.LIST_PRESETS])):
                z = ctx.rng.choice(ext.preset_atnums(pz))
                rp, req = ext.preset_case(ctx.rng, pz, z)
                steps.append({"op": "preset", "preset": pz, "atnum": z, "rpoints": rp, "request": req, "method": m})
    lmax_d, lmax_s = max(ang.LEBEDEV_NPOINTS.values()), max(ang.LEBEDEV_NPOINTS)
    coords = [[0.0, 0.0, 0.0], [0.0, 0.0, 1.4], [1.1, 0.3, -0.2]]
    for _ in range(max(1, n // 2)):
        nat = ctx.rng.randrange(1, 4)
        zs = [ctx.rng.choice([1, 6, 8, 16]) for _ in range(nat)]
        size = ctx.rng.choice([ctx.rng.randrange(0, 700), ctx.rng.randrange(0, lmax_s + 1), lmax_s, lmax_s + 1, ctx.rng.randrange(lmax_s + 1, 60000)])
        steps.append({"op": "molsize", "atnums": zs, "atcoords": coords[:nat], "size": size, "rpoints": [0.5, 1.5]})
        kind = ctx.rng.choice(["deg", "size"])
        top = lmax_d if kind == "deg" else 1500
        seq = [[ctx.rng.randrange(0, top + 1), ctx.rng.choice([ctx.rng.randrange(0, top + 1), top + ctx.rng.randrange(1, 200) if ctx.rng.random() < 0.3 else top])] for _ in range(nat)]
        sector = ctx.rng.randrange(2)
        steps.append({"op": "molpruned", "atnums": zs, "atcoords": coords[:nat], "kind": kind, "seq": seq, "sector": sector,
                      "radius": [1.0] * nat, "r_sectors": [[[1e9], [1e-9]][sector]] * nat, "rpoints": [0.5, 1.5]})
        # (the scalar form of d_sectors — MolGrid.from_pruned's own default 50 — raises TypeError "len() of unsized object" on
        # the pinned tree for every value: no grid is built, nothing for this property to judge; reported to the lead, not generated)
        pz = ctx.rng.choice(presets)
        z = ctx.rng.choice(ext.preset_atnums(pz))
        rp, req = ext.preset_case(ctx.rng, pz, z)
        steps.append({"op": "molpreset", "atnums": [z] * nat, "atcoords": coords[:nat], "preset": pz, "rpoints": rp, "request": req})
    # always there, whatever the budget: a request above the maximum on every route (in the sector that is used and in the
    # one that is not), the largest supported request, and zero
    for m in METHODS:
        npts = getattr(ang, PREFIX[m] + "_NPOINTS")
        dmax, smax = max(npts.values()), max(npts)
        up = ctx.rng.randrange(1, 60)
        steps.append({"op": "atomgrid", "kind": "deg", "seq": [dmax + up, 3], "rpoints": [0.4, 0.8], "method": m})
        steps.append({"op": "atomgrid", "kind": "size", "seq": [3, smax + up], "rpoints": [0.4, 0.8], "method": m})
        for sector in (0, 1):
            steps.append({"op": "pruned", "kind": "deg", "seq": [dmax + up, ctx.rng.randrange(0, 30)], "sector": sector, "radius": 1.0,
                          "r_sectors": [[1e9], [1e-9]][sector], "rpoints": [0.3, 0.9], "method": m})
            steps.append({"op": "pruned", "kind": "size", "seq": [ctx.rng.randrange(0, 30), smax + up], "sector": sector, "radius": 1.0,
                          "r_sectors": [[1e9], [1e-9]][sector], "rpoints": [0.3, 0.9], "method": m})
        steps.append({"op": "pruned", "kind": "deg", "seq": [dmax, 0], "sector": ctx.rng.randrange(2), "radius": 1.0, "r_sectors": [0.5], "rpoints": [0.3, 0.9], "method": m})
        steps[-1]["sector"] = 0
        steps[-1]["r_sectors"] = [1e9]
    two = {"atnums": [1, 8], "atcoords": coords[:2], "rpoints": [0.5, 1.5]}
    up = ctx.rng.randrange(1, 190)
    steps.append({"op": "molsize", **two, "size": lmax_s + up})
    steps.append({"op": "molsize", **two, "size": 0})
    for sector in (0, 1):
        steps.append({"op": "molpruned", **two, "kind": "deg", "seq": [[3, 5], [lmax_d + up, 7]][::1 if sector == 0 else -1], "sector": sector,
                      "radius": [1.0, 1.0], "r_sectors": [[[1e9], [1e-9]][sector]] * 2})
        steps.append({"op": "molpruned", **two, "kind": "deg", "seq": [[7, lmax_d + up], [3, 5]], "sector": sector,
                      "radius": [1.0, 1.0], "r_sectors": [[[1e9], [1e-9]][sector]] * 2})
        steps.append({"op": "molpruned", **two, "kind": "size", "seq": [[6, 27], [lmax_s + up, 6]], "sector": sector,
                      "radius": [1.0, 1.0], "r_sectors": [[[1e9], [1e-9]][sector]] * 2})
    steps.append({"op": "molpruned", **two, "kind": "deg", "seq": [[lmax_d, 0], [0, lmax_d]], "sector": 0, "radius": [1.0, 1.0], "r_sectors": [[1e9]] * 2})
    ctx.rng.shuffle(steps)
    return json.loads(json.dumps(steps))


def _oracle_round3(ctx: Ctx, ang, budget):
    big = budget == "large" or ctx.thorough
    # fresh interpreters: first call with a non-default option, handed-out objects edited, accessors in any order
    scen = _scenarios(ctx, ang, 26 if big else 5)
    cons = _consumer_steps(ctx, ang, 6 if big else 1)
    # a consumer route as the very first thing a fresh interpreter does, then the plain constructor without cache
    for st in cons[:8 if big else 3]:
        m = st.get("method", "lebedev").lower()
        scen.append([st, {"op": "init", "degree": 3, "cache": False, "method": m}, {"op": "attrs", "order": ["size", "degree"]}])
    for sc, ob in zip(scen, ext.run_scenarios(scen)):
        if len(ob) != len(sc):
            ctx.fail("oracle", "angular:fresh:crash", f"fresh interpreter: history did not run to its end: {str(ob)[-300:]}", witness={"steps": sc})
            continue
        if not _oracle_steps(ctx, ang, sc, ob, "fresh"):
            return
    # every consumer route, as one history in this process
    obs = ext.exec_steps(cons)
    _oracle_steps(ctx, ang, cons, obs, "inproc")




def _round4_steps(ctx: Ctx, ang, n):
    """Classes 15 (every argument combination: both alternatives at once, positional / keyword, omitted / None / default),
    18 (calls that raise, then accepted calls) and 20 (one entry for every shell, one and two radial points, first / last
    entry special, lengths that do not fit), as one history."""
    steps = []
    for m in METHODS:
        npts = getattr(ang, PREFIX[m] + "_NPOINTS")
        ks = [k for k in sorted(npts) if k <= 800]
        dmax, smax = max(npts.values()), max(npts)
        for _ in range(n):
            k = ctx.rng.choice(ks)
            d, sreq, dreq = npts[k], max(0, k - ctx.rng.randrange(0, 3)), max(0, npts[k] - ctx.rng.randrange(0, 2))
            other_d, other_s = ctx.rng.choice([3, 5, dmax, dmax + 7]), ctx.rng.choice([1, 27, smax, smax + 7])
            # AngularGrid: every combination of degree / size given, None, omitted
            steps += [{"op": "init", "degree": None, "size": sreq, "method": m},
                      {"op": "init", "degree": other_d, "size": sreq, "method": m, "cache": ctx.rng.choice([True, False])},
                      {"op": "init", "degree": dreq, "size": None, "method": m},
                      {"op": "init", "degree": dreq, "positional": True, "size": None, "cache": True, "method": m},
                      {"op": "init", "degree": None, "size": None, "method": m},
                      {"op": "init", "degree": None, "method": m}]
            if m == "lebedev":
                steps += [{"op": "init"}, {"op": "init", "degree": 50}, {"op": "init", "degree": 50, "size": None, "cache": True, "method": "lebedev"}]
            # AtomGrid: degrees and sizes at once (sizes win, the degrees may be anything), None next to the alternative, positional
            L = ctx.rng.randrange(1, 4)
            rp = [0.3 * (j + 1) for j in range(L)]
            dseq = [max(0, ctx.rng.choice([dreq, 3, other_d])) for _ in range(L)]
            sseq = [ctx.rng.choice([sreq, 1, k]) for _ in range(L)]
            steps += [{"op": "atomgrid2", "degrees": dseq, "sizes": sseq, "rpoints": rp, "method": m},
                      {"op": "atomgrid2", "degrees": None, "sizes": sseq, "rpoints": rp, "method": m, "container": "array"},
                      {"op": "atomgrid2", "degrees": [min(x, dmax) for x in dseq], "sizes": None, "rpoints": rp, "method": m},
                      {"op": "atomgrid2", "degrees": [min(x, dmax) for x in dseq], "positional": True, "rpoints": rp, "method": m, "container": "array"},
                      {"op": "atomgrid2", "degrees": None, "sizes": None, "rpoints": rp, "method": m},
                      {"op": "atomgrid2", "degrees": [dmax + 1] * L, "sizes": sseq, "rpoints": rp, "method": m}]
            # one entry for every shell; one and two radial points; first / last entry special; lengths that do not fit
            for npnt in (1, 2, 3, 5):
                rp2 = [0.25 * (j + 1) for j in range(npnt)]
                steps.append({"op": "atomgrid", "kind": ctx.rng.choice(["deg", "size"]), "seq": [ctx.rng.choice([dreq, 0, 7])], "rpoints": rp2, "method": m})
            steps += [{"op": "atomgrid", "kind": "deg", "seq": [dmax, 0], "rpoints": [0.4, 0.8], "method": m},
                      {"op": "atomgrid", "kind": "size", "seq": [0, sreq, min(smax, 3000)], "rpoints": [0.4, 0.8, 1.3], "method": m},
                      {"op": "atomgrid", "kind": "deg", "seq": [dreq, 3], "rpoints": [0.4, 0.8, 1.3], "method": m},
                      {"op": "atomgrid2", "sizes": [sreq, 1, 6], "rpoints": [0.4, 0.8], "method": m}]
            # from_pruned: both sector lists at once (the sizes win), None next to the alternative
            sector = ctx.rng.randrange(2)
            rs = [[1e9], [1e-9]][sector]
            steps += [{"op": "pruned2", "d_sectors": [other_d, 3], "s_sectors": [sreq, k], "sector": sector, "radius": 1.0, "r_sectors": rs, "rpoints": [0.3, 0.9], "method": m},
                      {"op": "pruned2", "d_sectors": None, "s_sectors": [k, sreq], "sector": sector, "radius": 1.0, "r_sectors": rs, "rpoints": [0.3, 0.9], "method": m},
                      {"op": "pruned2", "d_sectors": [dreq, 3], "s_sectors": None, "sector": sector, "radius": 1.0, "r_sectors": rs, "rpoints": [0.3], "method": m},
                      {"op": "pruned2", "d_sectors": [3, dreq], "sector": sector, "radius": 1.0, "r_sectors": rs, "rpoints": [0.3, 0.9, 1.4], "method": m, "container": "array"}]
            # calls that raise, each followed by the accepted call it resembles (class 18)
            steps += [{"op": "init", "degree": dmax + 1, "cache": True, "method": m}, {"op": "init", "degree": dmax, "cache": False, "method": m} if dmax <= 131 or m != "lebedev" else {"op": "init", "degree": 3, "method": m},
                      {"op": "convert", "sizes": [sreq, smax + 1], "method": m}, {"op": "convert", "sizes": [sreq, sreq], "method": m},
                      {"op": "atomgrid", "kind": "deg", "seq": [dreq, dmax + 2], "rpoints": [0.4, 0.8], "method": m}, {"op": "atomgrid", "kind": "deg", "seq": [dreq, 3], "rpoints": [0.4, 0.8], "method": m},
                      {"op": "init", "size": -3, "method": m}, {"op": "init", "size": sreq, "cache": False, "method": m},
                      {"op": "init", "degree": dreq, "method": m.upper() + "?"}, {"op": "init", "degree": dreq, "method": m.upper()}]
    # a size together with its own matched degree as the per-shell sizes of an atomic grid, both orders
    for m, q in _chains(ctx, ang, 2)[:3] + ctx.rng.sample(_chains(ctx, ang, 2), 6 * n):
        if max(q) <= 800:
            steps.append({"op": "atomgrid", "kind": "size", "seq": q, "rpoints": [0.2 * (j + 1) for j in range(len(q))], "method": m,
                          "container": ctx.rng.choice(["list", "array"])})
    return json.loads(json.dumps(steps))


def _oracle_round4(ctx: Ctx, ang, budget):
    big = budget == "large" or ctx.thorough
    steps = _round4_steps(ctx, ang, 3 if big else 1)
    # the largest grids are cheap to resolve but not to build many times: keep the history below ~10 s
    if not _oracle_steps(ctx, ang, steps, ext.exec_steps(steps), "inproc"):
        return
    # the same history split over fresh interpreters (a raising call first, then the accepted ones)
    chunks = [steps[i:i + 12] for i in range(0, len(steps), 12)]
    chunks = chunks if big else ctx.rng.sample(chunks, min(4, len(chunks)))
    for sc, ob in zip(chunks, ext.run_scenarios(chunks)):
        if len(ob) != len(sc):
            ctx.fail("oracle", "angular:fresh:crash", f"fresh interpreter: history did not run to its end: {str(ob)[-300:]}", witness={"steps": sc})
            continue
        if not _oracle_steps(ctx, ang, sc, ob, "fresh"):
            return



def _orders(ctx: Ctx, radii):
    """the same radii ascending, descending, shuffled, with repeats"""
    a = sorted(radii)
    sh = list(a)
    ctx.rng.shuffle(sh)
    dup = list(sh) + [ctx.rng.choice(a), a[-1], a[0]]
    ctx.rng.shuffle(dup)
    return [("asc", a), ("desc", a[::-1]), ("shuffled", sh), ("repeated", dup)]


def _round5_steps(ctx: Ctx, ang, n):
    """Class 22 (radial grids in every order — descending as the library itself makes them, shuffled, repeated radii, radii
    exactly on sector boundaries), 23 (radii / boundaries / radius given as float16 / float32 / longdouble / integers, a
    second call with the same objects), 24 / 26 (one radial grid object shared by several atomic grids of different
    methods and set-ups, in either order), 25 (the points of a shared radial grid overwritten in place between two calls)."""
    steps = []
    presets = sorted(p.name[len("prune_grid_"):-4] for p in (SRC / "data" / "prune_grid").glob("prune_grid_*.npz"))
    radii_presets = [p for p in presets if p not in ext.LIST_PRESETS]
    dy = [0.125, 0.25, 0.375, 0.5, 0.75, 1.0, 1.25, 1.5, 2.0, 2.5, 3.0, 4.0, 6.0, 8.0, 12.0]      # exact in float16
    rid = 0
    for m in METHODS:
        npts = getattr(ang, PREFIX[m] + "_NPOINTS")
        ks = [k for k in sorted(npts) if k <= 600]
        for _ in range(n):
            nb = ctx.rng.randrange(1, 4)
            bounds = sorted(ctx.rng.sample(dy[2:-2], nb))
            kind = ctx.rng.choice(["deg", "size"])
            picks = ctx.rng.sample(ks, nb + 1)          # distinct grids per sector: a wrong sector always shows
            seq = [(npts[k] if kind == "deg" else k) - ctx.rng.randrange(0, 2) for k in picks]
            radii = set(ctx.rng.sample(dy, ctx.rng.randrange(3, 7))) | set(ctx.rng.sample(bounds, ctx.rng.randrange(0, nb + 1))) | {dy[0], dy[-1]}
            base = {"op": "pruned", "kind": kind, "seq": seq, "radius": 1.0, "r_sectors": bounds, "bounds": bounds, "method": m, "per_shell": True}
            for name, pts in _orders(ctx, radii):
                steps.append({**base, "rpoints": pts, "order": name})
            # a scaled radius (power of two: exact), radii / boundaries / radius in other number types, twice with the same objects
            pts = _orders(ctx, radii)[ctx.rng.randrange(1, 4)][1]
            steps.append({**base, "radius": 2.0, "bounds": [2.0 * b for b in bounds], "rpoints": [2.0 * r for r in pts], "order": "scaled"})
            for pd, bd in (("float32", "float64"), ("float16", "float32"), ("longdouble", "longdouble"), ("float64", "float16")):
                steps.append({**base, "rpoints": pts, "pdtype": pd, "bdtype": bd, "twice": True, "order": f"{pd}/{bd}", **({"rdtype": "float32"} if pd == "float16" else {})})
            steps.append({**base, "radius": 2.0, "bounds": [2.0 * b for b in bounds], "rpoints": [2.0 * r for r in pts], "bdtype": "float64", "twice": True, "order": "float64 boundaries, radius 2, twice"})
            ints = sorted(ctx.rng.sample(range(1, 9), nb))
            steps.append({**base, "r_sectors": ints, "bounds": [float(b) for b in ints], "bdtype": "int64", "pdtype": "int64" if False else "float64",
                          "rpoints": [float(x) for x in ctx.rng.sample(range(0, 10), 5)], "twice": True, "order": "integer boundaries"})
            # the radial grids the library itself produces: descending (MultiExp of Gauss-Legendre), ascending, reversed rule
            for spec in ({"kind": "multiexp", "rmin": 0.0625, "R": ctx.rng.choice([1.0, 1.5, 3.0]), "n": ctx.rng.randrange(3, 9)},
                         {"kind": "becke", "rmin": 0.0625, "R": 1.5, "n": ctx.rng.randrange(3, 8)},
                         {"kind": "laguerre-reversed", "n": ctx.rng.randrange(3, 9)}):
                steps.append({**base, "rgrid": spec, "order": spec["kind"]})
            # one radial grid object shared by several atomic grids (other method, other set-up), its points overwritten in between
            rid += 1
            m2 = ctx.rng.choice([x for x in METHODS if x != m])
            shared = {**base, "rpoints": _orders(ctx, radii)[2][1], "rgrid_id": f"g{rid}", "order": "shared"}
            other = {**shared, "method": m2, "seq": [min(x, 100) for x in seq][::-1]}
            pair = [shared, other] if ctx.rng.random() < 0.5 else [other, shared]
            steps += pair + [{"op": "atomgrid", "kind": "deg", "seq": [3] * len(shared["rpoints"]), "rpoints": shared["rpoints"], "rgrid_id": f"g{rid}", "method": m},
                             {"op": "rgrid_edit", "rgrid_id": f"g{rid}", "rpoints": shared["rpoints"][::-1]}, dict(pair[0]), dict(pair[1])]
            # from_preset, presets tabulated as radii: radii inside the sectors, exactly on the stored boundaries, in every order
            pz = ctx.rng.choice(radii_presets + ["sg_1"])
            zs = [z for z in ext.preset_atnums(pz) if pz != "sg_1" or z <= 18]
            z = ctx.rng.choice(zs)
            rad, npt = ext.preset_data(pz, z)
            b = [float(x) for x in rad]
            mids = [b[0] / 2] + [(x + y) / 2 for x, y in zip(b, b[1:])] + [b[-1] * 2]
            radii = set(ctx.rng.sample(mids, min(len(mids), ctx.rng.randrange(2, 5)))) | set(ctx.rng.sample(b, ctx.rng.randrange(0, min(3, len(b)) + 1)))
            for name, pts in _orders(ctx, radii)[1:]:
                steps.append({"op": "preset", "preset": pz, "atnum": z, "rpoints": pts, "kind": "size", "seq": [int(x) for x in npt], "bounds": b, "method": m,
                              "per_shell": True, "order": name})
    # MolGrid.from_pruned (Lebedev): one radial grid in every order for all atoms, other boundaries per atom
    coords = [[0.0, 0.0, 0.0], [0.0, 0.0, 1.4], [1.1, 0.3, -0.2]]
    lk = [k for k in sorted(ang.LEBEDEV_NPOINTS) if k <= 400]
    for _ in range(n):
        nat = ctx.rng.randrange(1, 4)
        radii = set(ctx.rng.sample(dy, 4)) | {0.5}
        kind = ctx.rng.choice(["deg", "size"])
        bnds = [sorted(ctx.rng.sample(dy[2:-2], 2)) for _ in range(nat)]
        seqs = [[(ang.LEBEDEV_NPOINTS[k] if kind == "deg" else k) for k in ctx.rng.sample(lk, 3)] for _ in range(nat)]
        for name, pts in _orders(ctx, radii)[1:]:
            steps.append({"op": "molpruned", "atnums": [ctx.rng.choice([1, 6, 8]) for _ in range(nat)], "atcoords": coords[:nat], "kind": kind, "seq": seqs,
                          "radius": [1.0] * nat, "r_sectors": bnds, "bounds": bnds, "rpoints": pts, "per_shell": True, "order": name})
    return json.loads(json.dumps(steps))


def _block_sizes(ctx: Ctx):
    return [1025, 4097, 20001] + ([31234, 65537, 2 ** 19 + 1] if ctx.thorough else [])


def _oracle_blocks(ctx: Ctx, ang):
    """Class 21: sequences longer than any plausible block (1025, 4097, 20001 elements; thorough up to 2^19 + 1) through the
    converter — every element against the table, and additivity over a split — and an atomic grid with 1025 shells."""
    conv = ang.AngularGrid.convert_angular_sizes_to_degrees
    for m in METHODS:
        npts = getattr(ang, PREFIX[m] + "_NPOINTS")
        ks = sorted(npts)
        pool = [ctx.rng.randrange(0, ks[-1] + 1) for _ in range(40)] + ks[:10] + [ks[-1], 0]
        ref = {x: npts[min(k for k in ks if k >= x)] for x in set(pool)}
        for n in _block_sizes(ctx):
            seq = np.array([ctx.rng.choice(pool) for _ in range(n)], dtype=np.int64)
            # first / last element special: sizes that occur nowhere else in the sequence
            outside = [x for x in range(1, ks[-1]) if x not in ref][:2]
            for x in outside:
                ref[x] = npts[min(k for k in ks if k >= x)]
            seq[-1], seq[0] = outside[0], outside[1]
            ctx.count(["blocks", m, n, int(seq[:8].sum())], nontrivial=True, tag="oracle:blocks:convert")
            got = np.asarray(conv(seq.copy(), m))
            want = np.array([ref[int(x)] for x in seq])
            cut = n // 3 + 1
            parts = np.concatenate([np.asarray(conv(seq[:cut].copy(), m)), np.asarray(conv(seq[cut:].copy(), m))])
            if got.shape != want.shape or not np.array_equal(got, want) or not np.array_equal(parts, want):
                bad = int(np.argmax(got != want)) if got.shape == want.shape and not np.array_equal(got, want) else -1
                ctx.fail("oracle", f"angular:{m}:convert:blocks", f"convert_angular_sizes_to_degrees on {n} sizes (method {m}): " +
                         (f"element {bad}: size {int(seq[bad])} -> {int(got[bad])}, the table gives {int(want[bad])}" if bad >= 0 else f"result of shape {got.shape} / not additive over a split at {cut}"),
                         witness={"method": m, "n": n, "pool": pool},
                         snippet=("import warnings; warnings.filterwarnings('ignore')\nimport numpy as np\nfrom grid import angular as ang\n"
                                  f"m, n, pool = {m!r}, {n}, {pool!r}\n"
                                  "P = {'lebedev':'LEBEDEV','spherical':'SPHERICAL','maxdet':'MAX_DET','ahrens_beylkin':'AHRENS_BEYLKIN'}\n"
                                  "npts = getattr(ang, P[m] + '_NPOINTS'); ks = sorted(npts)\n"
                                  "seq = np.array([pool[(7 * i + i // 13) % len(pool)] for i in range(n)]); seq[-1] = [x for x in range(1, ks[-1]) if x not in pool][0]\n"
                                  "got = ang.AngularGrid.convert_angular_sizes_to_degrees(seq.copy(), m)\n"
                                  "want = np.array([npts[min(k for k in ks if k >= x)] for x in seq])\n"
                                  "assert got.shape == want.shape and np.array_equal(got, want), 'first wrong element %d' % int(np.argmax(np.asarray(got)[:len(want)] != want[:len(got)]))\n"))
                return False
    # many shells: 1025 radial points, small grids
    from grid.atomgrid import AtomGrid
    from grid.basegrid import OneDGrid
    m = ctx.rng.choice(METHODS)
    n = 1025
    req = [ctx.rng.choice([0, 2, 3, 4, 5]) for _ in range(n)]
    rg = OneDGrid(np.linspace(0.01, 9.0, n), np.ones(n), (0, np.inf))
    with warnings.catch_warnings():
        warnings.simplefilter("ignore")
        g = AtomGrid(rg, degrees=req, method=m)
    ws = _shell_want(ang, m, "deg", req)
    got = ([int(x) for x in g.degrees], [int(g.indices[i + 1] - g.indices[i]) for i in range(n)])
    ctx.count(["blocks", "atomgrid", m, n], nontrivial=True, tag="oracle:blocks:atomgrid")
    if got != ([w[0] for w in ws], [w[1] for w in ws]):
        k = next(i for i in range(n) if (got[0][i], got[1][i]) != ws[i])
        ctx.fail("oracle", f"angular:{m}:atomgrid:blocks", f"AtomGrid with {n} shells (method {m}): shell {k} asked for degree {req[k]} has degree {got[0][k]} / {got[1][k]} points, the table gives {ws[k]}",
                 witness={"method": m, "n": n, "shell": k})
        return False
    return True


def _oracle_round5(ctx: Ctx, ang, budget):
    big = budget == "large" or ctx.thorough
    steps = _round5_steps(ctx, ang, 3 if big else 1)
    if not _oracle_steps(ctx, ang, steps, ext.exec_steps(steps), "inproc"):
        return
    # in fresh interpreters: a descending / shuffled radial grid as the first thing, and pairs of set-ups sharing one radial grid
    # in either order (each answer is compared with the table = what the set-up gives in isolation)
    chunks = [steps[i:i + 9] for i in range(0, len(steps), 9)]
    chunks = chunks[:12] if big else ctx.rng.sample(chunks, min(3, len(chunks)))
    chunks = [c for c in chunks if not any(s.get("op") == "rgrid_edit" or "rgrid_id" in s for s in c)]
    chunks += [[s for s in steps if s.get("rgrid_id") == g] for g in ("g1", "g2")]      # shared radial grid objects: whole groups only
    chunks = [c for c in chunks if c]
    for sc, ob in zip(chunks, ext.run_scenarios(chunks)):
        if len(ob) != len(sc):
            ctx.fail("oracle", "angular:fresh:crash", f"fresh interpreter: history did not run to its end: {str(ob)[-300:]}", witness={"steps": sc})
            continue
        if not _oracle_steps(ctx, ang, sc, ob, "fresh"):
            return


def _same_object_cases(ctx: Ctx, ang, n):
    """(route, method, kind, container, request, times, sector, atoms): ONE argument object serving several requests."""
    cases = []
    for m in METHODS:
        npts = getattr(ang, PREFIX[m] + "_NPOINTS")
        ks = [k for k in sorted(npts) if k <= 1500]
        ds = [npts[k] for k in ks]
        for route in ("convert", "atomgrid", "pruned", "mixed") + (("molpruned",) if m == "lebedev" else ()):
            for kind in (("size",) if route == "convert" else ("size", "deg")):
                # (a read-only array is only handed to the routes that document array-like input and never write: all of them)
                conts = ["int64", "intp", "int32", "list", "view", "strided", "rev", "ro", "int16", "uint16"] + (["tuple"] if route in ("convert", "pruned") else [])
                picked = ["int64", "view"] + ctx.rng.sample(conts[1:], min(n, len(conts) - 1))
                for cont in picked:
                    src = ks if kind == "size" else ds
                    L = 2 if route in ("pruned", "molpruned", "mixed") else ctx.rng.randrange(2, 5)
                    req = [max(0, ctx.rng.choice(src[4:]) - ctx.rng.randrange(0, 2)) for _ in range(L)]
                    if ctx.rng.random() < 0.3:
                        req[-1] = req[0]
                    then = [max(0, ctx.rng.choice(src[4:]) - ctx.rng.randrange(0, 2)) for _ in range(L)]
                    cases.append((route, m, kind, cont, req, ctx.rng.choice([2, 3]), ctx.rng.randrange(2), ctx.rng.choice([2, 3]), then))
    return cases


def _oracle_same_object(ctx: Ctx, ang, n, only=None):
    """The same int64 / int32 ndarray, list or tuple of sizes / degrees handed to the converter, AtomGrid(sizes=/degrees=),
    from_pruned(s_sectors=/d_sectors=) and MolGrid.from_pruned([obj]*natoms) two and three times."""
    for case in (only or _same_object_cases(ctx, ang, n)):
        route, m, kind, cont, req = case[:5]
        ctx.count(["same-object", *case], nontrivial=True, tag=f"oracle:same-object:{route}:{cont}")
        problems = ext.same_object(*case)
        if problems:
            ctx.fail("oracle", f"angular:{m}:same-object:{route}", f"{route}({'sizes' if kind == 'size' else 'degrees'} = one {cont} object {req}, method={m}) used {case[5]} times: " + "; ".join(problems),
                     witness={"case": list(case), "problems": problems}, snippet=ext.same_object_snippet(list(case)))
            return False
    return True


def oracle_at(ctx: Ctx, failure):
    """Evaluate the property itself at an input on which model and implementation disagreed."""
    ang = importlib.import_module("grid.angular")
    w = failure.witness or {}
    if not isinstance(w, dict):
        return
    key = failure.key
    def num(t):  # noqa: E306
        return None if t == "none" else int(t)
    if key.startswith("resolve:") and {"method", "kind", "request"} <= set(w):
        m, k, n = w["method"], w["kind"], int(w["request"])
        _oracle_request(ctx, ang, m, k, n)
    elif key.startswith("gds:") and w.get("method") in METHODS and "other" not in (w.get("degree_token"), w.get("size_token")):
        d, sz = num(w["degree_token"]), num(w["size_token"])
        if d is not None and d >= 0:        # "if both degree and size are given degree is used" (this method's contract)
            _oracle_request(ctx, ang, w["method"], "deg", d)
        elif d is None and sz is not None and sz >= 0:
            _oracle_request(ctx, ang, w["method"], "size", sz)
    elif key.startswith("convert:") and w.get("method") in METHODS and "sizes" in w:
        m, seq = w["method"], [int(x) for x in w["sizes"]]
        npts = getattr(ang, PREFIX[m] + "_NPOINTS")
        if seq and all(0 <= x <= max(npts) for x in seq):
            if _oracle_convert(ctx, ang, m, seq):
                cont = {"int64": "int64", "int32": "int32", "list": "list", "tuple": "tuple"}.get(w.get("container"), "int64")
                _oracle_same_object(ctx, ang, 1, only=[(r, m, "size", cont, seq if r == "convert" else (seq + seq)[:2], 3, 0, 2)
                                                       for r in ("convert", "atomgrid", "pruned") if not (r == "atomgrid" and cont == "tuple")])
    elif key.startswith("init:") and "other" not in (w.get("degree_token"), w.get("size_token")) and "style" in w:
        step = (w["method"], w["style"], num(w["degree_token"]), num(w["size_token"]), bool(w["cache"]))
        if _check_built(ctx, ang, step, []) and key.endswith(":numeric"):
            # degree / size / points are right: look at the weights too, twice (miss, then hit), in a fresh interpreter
            st = {"op": "init", "method": w["method"]}
            if num(w["degree_token"]) is not None:
                st["degree"] = num(w["degree_token"])
            if num(w["size_token"]) is not None:
                st["size"] = num(w["size_token"])
            if w.get("cache") is not None:
                st["cache"] = bool(w["cache"])
            steps = [st, dict(st), {"op": "attrs", "order": ["size", "degree", "method"]}]
            obs = ext.run_scenarios([steps])[0]
            if len(obs) == len(steps):
                _oracle_steps(ctx, ang, steps, obs, "fresh")
    elif key.startswith("atomgrid:"):
        _oracle_atomgrid(ctx, ang, 6)
    elif key.startswith(("fresh:", "inproc:")) and isinstance(w.get("steps"), list):
        steps = w["steps"]
        if key.startswith("fresh:"):
            obs = ext.run_scenarios([steps])[0]
            if len(obs) == len(steps):
                _oracle_steps(ctx, ang, steps, obs, "fresh")
        else:
            _oracle_steps(ctx, ang, steps, ext.exec_steps(steps), "inproc")


def _oracle_request(ctx: Ctx, ang, m, k, n):
    got = _impl(ang, m, degree=n) if k == "deg" else _impl(ang, m, size=n)
    w = _want(ang, m, k, n)
    want = "value-error" if w is None else f"ok {w[0]} {w[1]}"
    if got != want:
        ctx.fail("oracle", f"angular:{m}:{k}", f"{m} {k}={n}: got {got}, smallest supported not below is {want}",
                 witness={"method": m, "kind": k, "request": n, "got": got, "want": want},
                 snippet=SNIPPET.format(method=m, kind=k, n=n))


def _oracle_convert(ctx: Ctx, ang, m, seq, container=np.array):
    """The converter on one in-range sequence, after everything this process has converted so far."""
    npts = getattr(ang, PREFIX[m] + "_NPOINTS")
    ks = sorted(npts)
    _HISTORY.append([m, list(seq)])
    with warnings.catch_warnings():
        warnings.simplefilter("ignore")
        try:
            got = [int(x) for x in ang.AngularGrid.convert_angular_sizes_to_degrees(container(seq), m)]
        except Exception as e:  # noqa: BLE001
            got = _tag(e)
    want = [npts[min(k for k in ks if k >= x)] for x in seq]
    if got != want:
        h = [(a, b) for a, b in _HISTORY[-400:]]
        ctx.fail("oracle", f"angular:{m}:convert", f"convert_angular_sizes_to_degrees({getattr(container, '__name__', 'array')}({seq}), {m}) = {got} after {len(h) - 1} earlier converter calls in this process (other methods, same sizes), element-wise rule gives {want}",
                 witness={"method": m, "sizes": seq, "history": [[a, b] for a, b in h]},
                 snippet=CONVERT_SNIPPET.format(hist=[[a, b] for a, b in h]))
        return False
    return True


CONVERT_SNIPPET = ("import warnings; warnings.filterwarnings('ignore')\nimport numpy as np\nfrom grid import angular as ang\n"
                   "hist = {hist!r}\n"
                   "P = {{'lebedev':'LEBEDEV','spherical':'SPHERICAL','maxdet':'MAX_DET','ahrens_beylkin':'AHRENS_BEYLKIN'}}\n"
                   "for m, s in hist:\n"
                   "    npts = getattr(ang, P[m] + '_NPOINTS'); ks = sorted(npts)\n"
                   "    if any(x > ks[-1] or x < 0 for x in s): continue\n"
                   "    for c in (np.array, list, tuple):\n"
                   "        d = [int(x) for x in ang.AngularGrid.convert_angular_sizes_to_degrees(c(s), m)]\n"
                   "        want = [npts[min(k for k in ks if k >= x)] for x in s]\n"
                   "        assert d == want, f'{{m}} {{c.__name__}} {{s}}: {{d}} != {{want}}'\n")


def _oracle_sweep(ctx: Ctx, ang, budget):
    reqs = _requests(ctx, ang, full=(budget == "large" or ctx.thorough))
    for m in METHODS:
        npts = getattr(ang, PREFIX[m] + "_NPOINTS")
        degs = getattr(ang, PREFIX[m] + "_DEGREES")
        pairs = [(int(d), int(s)) for s, d in npts.items()]
        pairset = set(pairs)
        if {(int(d), int(s)) for d, s in degs.items()} != pairset:
            ctx.fail("oracle", f"angular:{m}:tables", f"{m}: degree->size and size->degree tables are not inverse of each other")
        filecache = {}
        for (mm, k, n) in reqs:
            if mm != m:
                continue
            got = _impl(ang, m, degree=n) if k == "deg" else _impl(ang, m, size=n)
            cands = [p for p in pairs if (p[0] if k == "deg" else p[1]) >= n]
            if not cands:
                want = "value-error"
            else:
                w = min(cands, key=lambda p: p[0] if k == "deg" else p[1])
                want = f"ok {w[0]} {w[1]}"
            ok = got == want
            if ok and got.startswith("ok"):
                _, d, s = got.split()
                if (d, s) not in filecache:
                    f = SRC / "data" / DIRS[m] / f"{m}_{d}_{s}.npz"
                    good = f.exists()
                    if good:
                        with np.load(f) as z:
                            good = z["points"].shape == (int(s), 3) and len(z["weights"]) in (1, int(s))
                    filecache[(d, s)] = good
                if not filecache[(d, s)]:
                    ctx.fail("oracle", f"angular:{m}:{d}_{s}:file", f"{m}: no data file with {s} points for degree {d}",
                             witness={"method": m, "degree": d, "size": s})
            if not ok:
                ctx.fail("oracle", f"angular:{m}:{k}", f"{m} {k}={n}: got {got}, smallest supported not below is {want}",
                         witness={"method": m, "kind": k, "request": n, "got": got, "want": want},
                         snippet=SNIPPET.format(method=m, kind=k, n=n))


def _oracle_intkinds(ctx: Ctx, ang):
    # integer-like argument kinds take the same rule (bool, NumPy integers of every width)
    for m in METHODS:
        npts = getattr(ang, PREFIX[m] + "_NPOINTS")
        ks = sorted(npts)
        for v in [True, False, _npint(ctx, ctx.rng.choice(ks) - 1), _npint(ctx, ctx.rng.randrange(0, ks[-1] + 1)), np.uint8(ctx.rng.randrange(0, 120))]:
            for k in ("deg", "size"):
                got = _impl(ang, m, degree=v) if k == "deg" else _impl(ang, m, size=v)
                w = _want(ang, m, k, int(v))
                want = "value-error" if w is None else f"ok {w[0]} {w[1]}"
                if got != want:
                    ctx.fail("oracle", f"angular:{m}:{k}", f"{m} {k}={v!r}: got {got}, smallest supported not below is {want}",
                             witness={"method": m, "kind": k, "request": repr(v), "got": got, "want": want},
                             snippet=SNIPPET.format(method=m, kind=k, n=int(v)))


def _oracle_built(ctx: Ctx, ang, budget):
    # built grids: one history of constructions (cache on and off, degree / size / both, any spelling,
    # largest degree and size of every method, every request at least twice, interleaved)
    plan = _construction_plan(ctx, ang, 2 if budget == "small" else 14)
    done = []
    for step in plan:
        if not _check_built(ctx, ang, step, done):
            break
        done.append(step)


def _oracle_convert_history(ctx: Ctx, ang, budget):
    # a size together with its own matched degree, both orders, every method, every container: in every run
    for m, q in _chains(ctx, ang, 3 if budget == "small" and not ctx.thorough else 20):
        for cont in (np.array, list, lambda v: np.array(v, dtype=np.int32), lambda v: np.array(v[::-1], dtype=np.int64)[::-1]):
            ctx.count(["chain", m, q], nontrivial=True, tag="oracle:convert:size-with-own-degree")
            if not _oracle_convert(ctx, ang, m, q, cont):
                return
    # converter element-wise, as a history of calls with a shared pool of sizes across methods
    pool = set()
    for m in METHODS:
        ks = sorted(getattr(ang, PREFIX[m] + "_NPOINTS"))
        for k in ks[:14]:
            pool.update((k - 1, k, k + 1))
    pool = sorted(x for x in pool if x >= 0)
    for _ in range(60 if budget == "small" else 1500):
        m = ctx.rng.choice(METHODS)
        npts = getattr(ang, PREFIX[m] + "_NPOINTS")
        ks = sorted(npts)
        s = [ctx.rng.choice(pool) if ctx.rng.random() < 0.8 else ctx.rng.randrange(0, ks[-1] + 1)
             for _ in range(ctx.rng.randrange(1, 7))]
        s = [x for x in s if x <= ks[-1]]
        if not s:
            continue
        cont = ctx.rng.choice([np.array, np.array, list, tuple, lambda q: np.array(q, dtype=np.int32), lambda q: np.repeat(np.array(q), 2)[::2]])
        if not _oracle_convert(ctx, ang, m, s, cont):
            break


def oracle(ctx: Ctx, budget: str):
    """The property on the implementation, against a brute-force minimum over the table
    and the data directory (no bisect, no model). Independent parts: one raising does not hide the others."""
    ang = importlib.import_module("grid.angular")
    small = budget == "small" and not ctx.thorough
    _run_parts(ctx, "oracle", [
        ("angular:sweep", lambda: _oracle_sweep(ctx, ang, budget)),
        ("angular:intkinds", lambda: _oracle_intkinds(ctx, ang)),
        ("angular:built", lambda: _oracle_built(ctx, ang, budget)),
        ("angular:atomgrid", lambda: _oracle_atomgrid(ctx, ang, 1 if budget == "small" else 8)),
        ("angular:histories", lambda: _oracle_round3(ctx, ang, budget)),
        ("angular:same-object", lambda: _oracle_same_object(ctx, ang, 1 if small else 4)),
        ("angular:convert", lambda: _oracle_convert_history(ctx, ang, budget)),
        ("angular:round4", lambda: _oracle_round4(ctx, ang, budget)),
        ("angular:orders", lambda: _oracle_round5(ctx, ang, budget)),
        ("angular:blocks", lambda: _oracle_blocks(ctx, ang)),
    ])

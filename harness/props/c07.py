"""C07 — a molecular grid is the weighted concatenation of its atomic grids."""
import importlib
import io
import math

import numpy as np

from ..common import Ctx, Tokens, close, driver_batch, f2b, fmat, fvec, vec

LEVEL = "proof"
LEVEL_TEXT = (
    "Lean theorems, for every number of atoms, all atomic grids (any point type, values in any commutative semiring), "
    "callable or array atom-in-molecule weights, store on and off: after a successful MolGrid(...) the index table has "
    "natoms+1 entries, starts at 0, is monotone, ends at the size, and points[indices[k]:indices[k+1]], "
    "atweights[indices[k]:indices[k+1]], atcoords[k] are atom k's points, weights, centre (molgrid_slices); "
    "weights = atweights*aim_weights point by point (weights_spec; wrong array size / type rejected: aim_array_size; "
    "one-element callable result broadcast: weights_broadcast); integrate(f) = sum over atoms of the atomic-grid integral of "
    "(aim*f) on that atom's segment (integral_decomposes); the construction with store=False is the one with store=True with "
    "the atgrids attribute forgotten, same exception otherwise, hence equal points, weights, atweights, aim_weights, "
    "atcoords, indices, integrals (init_store_false, store_independent); get_atomic_grid(k) returns atom k's points, raw "
    "atomic weights and centre in both modes, rejects negative and too large indices identically "
    "(getAtomicGrid_spec/_errors/_store_independent). __getitem__: points and centre are store-independent "
    "(getItem_store_independent_partial), the weights handed back are not — raw atomic weights when stored, aim-weighted "
    "otherwise (getItem_spec); the full-strength statement is kept as getItem_store_independent_full and its negation is "
    "proved at a witness (getItem_store_independent_fails_at), as is the negative-index behaviour "
    "(getItem_negative_index_fails_at); save() needs store=True (save_needs_store). Fan-out: atom i receives the single "
    "value / i-th list entry / atnums[i]-keyed dict entry / default for atnums[i] (fanout_spec); the isinstance chains of "
    "from_preset, from_pruned and the None test of from_size, regenerated from the source by an AST translator, are "
    "equal to that hand model (gen_selection_eq_model); loop headers, AtomGrid call arguments, pre-loop statements are "
    "pinned as text (call_sites_pinned); therefore from_preset / from_size / from_pruned = MolGrid(atnums, [AtomGrid... "
    "built by hand with the same arguments], aim_weights or BeckeWeights(order=3), store) exception for exception "
    "(fromPreset_/fromSize_/fromPruned_eq_hand_built, prunedSectors_spec, radiusAtom_spec, defaultRgrid_spec, "
    "defaultRgrid_table_ok). AtomGrid and BeckeWeights are given components (C05, C06). "
    "Exploration only (labelled, no theorem): the end-to-end clause — preset grids with the default radial grids integrate "
    "sums of normalised atom-centred Gaussians (exponents 0.3-30, 1-5 atoms >= 1.2 bohr apart) to the total charge within "
    "1 % — is sampled on the implementation, over the (preset, element) combinations for which a preset grid with the default "
    "radial grids exists (the presets that prescribe their own number of radial shells reject the default radial grid: a "
    "rejection, outside the clause; they are sampled with a radial grid of the prescribed size as a labelled extension)."
)
TECHNIQUE = ("Lean 4 proof over a hand model (concatenation / slices / decomposition / store independence / fan-out) + AST "
             "translator for the per-atom selection code + differential correspondence (model vs implementation on small "
             "arrays; constructor-built vs hand-built grids bit for bit) + sampled end-to-end integration (exploration)")
GEN = ["molgrid"]
LEAN_MODULES = ["GridVerif.Props.C07"]
THEOREMS = [
    "GridVerif.C07.molgrid_slices",
    "GridVerif.C07.weights_spec",
    "GridVerif.C07.aim_array_size",
    "GridVerif.C07.weights_broadcast",
    "GridVerif.C07.integral_decomposes",
    "GridVerif.C07.init_store_false",
    "GridVerif.C07.store_independent",
    "GridVerif.C07.getAtomicGrid_spec",
    "GridVerif.C07.getAtomicGrid_errors",
    "GridVerif.C07.getAtomicGrid_store_independent",
    "GridVerif.C07.getItem_spec",
    "GridVerif.C07.getItem_store_independent_partial",
    "GridVerif.C07.getItem_store_independent_fails_at",
    "GridVerif.C07.getItem_negative_index_fails_at",
    "GridVerif.C07.save_needs_store",
    "GridVerif.C07.fanout_spec",
    "GridVerif.C07.gen_selection_eq_model",
    "GridVerif.C07.call_sites_pinned",
    "GridVerif.C07.fromPreset_eq_hand_built",
    "GridVerif.C07.fromSize_eq_hand_built",
    "GridVerif.C07.prunedSectors_spec",
    "GridVerif.C07.radiusAtom_spec",
    "GridVerif.C07.fromPruned_eq_hand_built",
    "GridVerif.C07.defaultRgrid_spec",
    "GridVerif.C07.defaultRgrid_table_ok",
]
RULE = (
    "correspondence (a) model vs implementation on random small per-atom arrays (1-4 atoms, 0-4 points each, "
    "array / wrong-size array / list / callable aim weights incl. a one-element and a too short callable result): "
    "MolGrid.__init__ attributes, get_atomic_grid and __getitem__ for every index in -natoms-2..natoms+1 and both values "
    "of store, integrate incl. wrong shape, save keys; (b) the model (running the regenerated selection code) decides "
    "which radial grid / preset / radius / sector lists every atom receives or which exception is raised, the harness "
    "builds the AtomGrids by hand accordingly and compares MolGrid(atnums, hand-built, aim, store) with "
    "MolGrid.from_preset / from_size / from_pruned bit for bit (points, weights, atweights, aim_weights, indices, "
    "atcoords; identity of the radial grid objects when stored). Non-trivial = at least 2 atoms and (for (a)) a "
    "non-constant aim weight or a callable, (for (b)) a list or dict argument, a default radial grid, or an exception path. "
    "Oracle (implementation only): index table / segments / weights / integral decomposition with random f / store "
    "independence of attributes, integrals, get_atomic_grid and __getitem__ / fan-out equality against grids built by hand / "
    "default radial grid against rmin*(i+1)^p. EXPLORATION (no theorem): the 1 % clause is sampled over the (preset, element) "
    "combinations for which MolGrid.from_preset(preset, rgrid=None) yields a grid (coarse..insane; sg_1 for Z <= 18) — presets "
    "x 1-5 atoms >= 1.2 bohr apart x exponents 0.3-30 (end points always included) x random charges and rotation seeds. "
    "EXTENSION (outside the clause, never a violation, recorded in coverage.end_to_end_exploration): the shell-count presets "
    "(sg_0, sg_2, sg_3, g1..g7, sg_1 for Z > 18), for which the default radial grid is rejected, are sampled with the "
    "element's default PowerRTransform applied to UniformInteger(n), n = the number of radial points the preset prescribes"
)
TRUSTED_BASE = [
    "Lean 4.33 kernel; axioms propext, Classical.choice, Quot.sound only (audited per theorem)",
    "hand model Model/MolGrid.lean of MolGrid.__init__/get_atomic_grid/__getitem__/integrate/save and of the loops of "
    "from_preset/from_size/from_pruned, tied by correspondence",
    "translator harness/translate/molgrid.py (isinstance chains -> pattern matching on PyArg; call sites as text)",
    "NumPy slice assignment / slicing / broadcasting, Python list/dict indexing, zip/enumerate as modelled",
]
ASSUMPTIONS = [
    "AtomGrid (from_preset, from_pruned, __init__) and BeckeWeights are given components (C05, C06): abstract "
    "functions in the model; an atomic grid is its (points, weights, center) with len(points) = len(weights) "
    "(Grid.__init__)",
    "an aim-weight callable is a function of (points, atcoords, atnums, indices) (no hidden state); theorems about the "
    "weights assume it returns one value per grid point (the constructor enforces this for arrays only)",
    "atcoords.ndim != 2 is rejected before the modelled part (checked on a malformed stream)",
    "the 1 % end-to-end clause is exploration: sampled, not proved",
]

KEY_GETITEM = "molgrid.MolGrid.__getitem__:store"

PRESETS_ALL = ["coarse", "medium", "fine", "veryfine", "ultrafine", "insane", "sg_0", "sg_1", "sg_2", "sg_3",
               "g1", "g2", "g3", "g4", "g5", "g6", "g7"]
ELEMENTS = [1, 6, 7, 8, 9, 15, 16, 17]


def _mods():
    mg = importlib.import_module("grid.molgrid")
    ag = importlib.import_module("grid.atomgrid")
    bg = importlib.import_module("grid.basegrid")
    bk = importlib.import_module("grid.becke")
    od = importlib.import_module("grid.onedgrid")
    return mg, ag, bg, bk, od


def _tag(e):
    return {ValueError: "value-error", TypeError: "type-error", IndexError: "index-error",
            KeyError: "key-error"}.get(type(e), "exc:" + type(e).__name__)


def _beq(a, b):
    """bit-for-bit equality of two float arrays (nan == nan)."""
    a = np.asarray(a, dtype=float)
    b = np.asarray(b, dtype=float)
    return a.shape == b.shape and np.array_equal(a.view(np.uint64) if a.size else a, b.view(np.uint64) if b.size else b)


# ------------------------------------------------------------------------------------------
# (a) model vs implementation on small arrays
# ------------------------------------------------------------------------------------------
def _fmat3(rows):
    rows = [list(r) for r in rows]
    return " ".join([str(len(rows)), "3"] + [f2b(x) for r in rows for x in r])


def _small_case(ctx: Ctx, bg):
    rng = ctx.rng
    n = rng.choice([0, 1, 1, 1, 2, 2, 2, 2, 3, 3, 3, 4, 4])
    grids, parts = [], []
    for _ in range(n):
        k = rng.choice([0, 1, 1, 2, 2, 3, 4])
        pts = np.array([[rng.uniform(-3, 3) for _ in range(3)] for _ in range(k)], dtype=float).reshape(k, 3)
        w = np.array([rng.choice([rng.uniform(0.01, 2.0), rng.uniform(-1, 1)]) for _ in range(k)], dtype=float)
        c = np.array([rng.uniform(-2, 2) for _ in range(3)])
        grids.append(bg.LocalGrid(pts, w, c))
        parts.append(f"{_fmat3(pts)} {fvec(w)} {fvec(c)}")
    size = sum(g.size for g in grids)
    atnums = [rng.choice(ELEMENTS) for _ in range(n)]
    kind = rng.choice(["arr", "arr", "arr", "arr1", "arrbad", "other", "cbZ", "cbZ", "cb1", "cbshort"])
    if kind == "arr":
        a = np.array([rng.uniform(0, 1) for _ in range(size)])
        aim, aimtok = a, "arr " + fvec(a)
    elif kind == "arr1":
        a = np.ones(size)
        aim, aimtok = a, "arr " + fvec(a)
    elif kind == "arrbad":
        m = max(0, size + rng.choice([-1, 1, 2]))
        a = np.array([rng.uniform(0, 1) for _ in range(m)])
        aim, aimtok = a, "arr " + fvec(a)
    elif kind == "other":
        aim, aimtok = [0.5] * size, "other"
    elif kind == "cbZ":
        def aim(points, atcoords, nums, indices):
            out = np.zeros(len(points))
            for k in range(len(indices) - 1):
                out[indices[k]:indices[k + 1]] = 1.0 / (1.0 + float(nums[k]))
            return out
        aimtok = "cbZ"
    elif kind == "cb1":
        c1 = rng.uniform(0.1, 0.9)
        aim, aimtok = (lambda p, c, z, i, c1=c1: np.array([c1])), "cb1 " + f2b(c1)
    else:
        aim, aimtok = (lambda p, c, z, i: np.ones(max(len(p) - 1, 0))), "cbshort"
    body = f"{aimtok} {vec(atnums)} {n} " + " ".join(parts)
    return dict(n=n, grids=grids, atnums=atnums, aim=aim, kind=kind, size=size, body=body)


def _impl_init(mg, case, store):
    try:
        m = mg.MolGrid(np.array(case["atnums"]), case["grids"], case["aim"], store=store)
    except Exception as e:  # noqa: BLE001
        return _tag(e), None
    return "ok", m


def _cmp_sub(tok: Tokens, g, is_stored_obj):
    """compare the model's `ok isAtom points weights center` with the object handed back"""
    is_atom = tok.nat()
    pts = tok.fmat()
    w = tok.fvec()
    c = tok.fvec()
    if bool(is_atom) != bool(is_stored_obj):
        return "type (stored AtomGrid object vs LocalGrid)"
    if not _beq(np.array(pts).reshape(len(pts), 3), g.points):
        return "points"
    if not _beq(w, g.weights):
        return "weights"
    if not _beq(c, g.center):
        return "center"
    return None


def _corr_small(ctx: Ctx, mg, bg):
    ncase = ctx.n(140, 2500)
    cases = [_small_case(ctx, bg) for _ in range(ncase)]
    lines, meta = [], []
    for ci, case in enumerate(cases):
        for store in (False, True):
            spec = f"{int(store)} {case['body']}"
            lines.append("C07.init " + spec)
            meta.append((ci, store, "init", None))
            n = case["n"]
            for idx in range(-n - 2, n + 2):
                for which in ("atomic", "item"):
                    lines.append(f"C07.get {which} {idx} {spec}")
                    meta.append((ci, store, which, idx))
            f = np.array([ctx.rng.uniform(-2, 2) for _ in range(case["size"])])
            lines.append(f"C07.integrate {fvec(f)} {spec}")
            meta.append((ci, store, "integrate", f))
            fb = np.ones(case["size"] + 1)
            lines.append(f"C07.integrate {fvec(fb)} {spec}")
            meta.append((ci, store, "integrate", fb))
    answers = driver_batch(lines)
    built = {}
    for (ci, store, op, arg), ans in zip(meta, answers):
        case = cases[ci]
        if (ci, store) not in built:
            built[(ci, store)] = _impl_init(mg, case, store)
        status, m = built[(ci, store)]
        nontriv = case["n"] >= 2 and case["kind"] in ("arr", "cbZ", "cb1")
        canon = [op, int(store), case["kind"], case["atnums"], [g.size for g in case["grids"]],
                 arg if not isinstance(arg, np.ndarray) else len(arg)]
        wit = {"op": op, "store": store, "aim": case["kind"], "atnums": case["atnums"],
               "sizes": [g.size for g in case["grids"]], "arg": arg, "model": ans[:300]}
        if op == "init":
            ctx.count(canon, nontrivial=nontriv, tag=f"init:{case['kind']}:" + ("ok" if status == "ok" else status))
            if status != "ok":
                if ans != status:
                    ctx.fail("corr", "init:error", f"MolGrid(...) raised {status}, model answers {ans[:60]}", witness=wit)
                continue
            if not ans.startswith("ok "):
                ctx.fail("corr", "init:error", f"MolGrid(...) succeeded, model answers {ans}", witness=wit)
                continue
            t = Tokens(ans)
            t.tok()
            ind = t.vec(int)
            pts = t.fmat()
            w, atw, aimw = t.fvec(), t.fvec(), t.fvec()
            atc = t.fmat()
            stored = t.nat()
            bad = None
            if ind != [int(x) for x in m.indices]:
                bad = f"indices {ind} vs {list(m.indices)}"
            elif not _beq(np.array(pts).reshape(len(pts), 3), m.points):
                bad = "points"
            elif not _beq(w, m.weights):
                bad = f"weights {w} vs {m.weights.tolist()}"
            elif not _beq(atw, m.atweights):
                bad = "atweights"
            elif not _beq(aimw, np.asarray(m.aim_weights, dtype=float)):
                bad = "aim_weights"
            elif not _beq(np.array(atc).reshape(len(atc), 3), m.atcoords):
                bad = "atcoords"
            elif bool(stored) != (m.atgrids is not None):
                bad = "atgrids stored / not stored"
            elif m.size != len(w):
                bad = "size"
            if bad:
                ctx.fail("corr", "init:" + bad.split()[0], f"MolGrid.__init__ vs model: {bad}", witness=wit)
            continue
        if status != "ok":
            # every operation of the model on a failed construction repeats the constructor's error
            if ans != status:
                ctx.fail("corr", f"{op}:after-error", f"constructor raised {status}, model op answers {ans[:60]}", witness=wit)
            continue
        if op in ("atomic", "item"):
            try:
                g = m.get_atomic_grid(arg) if op == "atomic" else m[arg]
                impl = "ok"
            except Exception as e:  # noqa: BLE001
                impl, g = _tag(e), None
            branch = "neg" if arg < 0 else ("in" if arg < case["n"] else "beyond")
            ctx.count(canon, nontrivial=nontriv, tag=f"{op}:store={int(store)}:{branch}:{impl if impl != 'ok' else 'ok'}")
            if impl != "ok":
                if ans != impl:
                    ctx.fail("corr", f"{op}:error", f"{op}({arg}) store={store}: implementation {impl}, model {ans[:60]}", witness=wit)
                continue
            if not ans.startswith("ok "):
                ctx.fail("corr", f"{op}:error", f"{op}({arg}) store={store}: implementation returned a grid, model {ans}", witness=wit)
                continue
            t = Tokens(ans)
            t.tok()
            bad = _cmp_sub(t, g, any(g is a for a in case["grids"]))
            if bad:
                ctx.fail("corr", f"{op}:{bad.split()[0]}", f"{op}({arg}) store={store}: {bad} differ between implementation and model", witness=wit)
            continue
        if op == "integrate":
            try:
                val = float(m.integrate(arg))
                impl = "ok"
            except Exception as e:  # noqa: BLE001
                impl = _tag(e)
            ctx.count(canon, nontrivial=nontriv, tag=f"integrate:{impl}")
            if impl != "ok":
                if ans != impl:
                    ctx.fail("corr", "integrate:error", f"integrate: implementation {impl}, model {ans[:60]}", witness=wit)
                continue
            if not ans.startswith("ok "):
                ctx.fail("corr", "integrate:error", f"integrate: implementation {val}, model {ans}", witness=wit)
                continue
            t = Tokens(ans)
            t.tok()
            mv = t.flt()
            scale = float(np.sum(np.abs(m.weights * arg))) if len(arg) == m.size else 1.0
            if not close(val, mv, rtol=1e-13, atol=1e-300, scale=max(scale, 1e-300)):
                ctx.fail("corr", "integrate:value", f"integrate: implementation {val!r}, model {mv!r}", witness=wit)


# ------------------------------------------------------------------------------------------
# (b) fan-out: constructor-built vs hand-built according to the model's selection
# ------------------------------------------------------------------------------------------
class Pool:
    def __init__(self, mg, od):
        self.rg = {k + 1: od.GaussLaguerre(n) for k, n in enumerate((4, 5, 6, 7))}
        self.mg = mg
        self._dflt = {}
        self.presets = {1: "coarse", 2: "medium", 3: "fine", 4: "veryfine"}
        self.radii = {1: 0.7, 2: 1.0, 3: 1.4, 4: 2.1}
        self.rsec = [[], [0.5], [0.5, 1.0], [0.4, 0.9, 1.6]]
        self.dsec = [[5], [3, 7], [3, 5, 9], [3, 5, 7, 11]]
        self.ssec = [[14], [6, 26], [6, 14, 38], [6, 14, 26, 50]]
        self.sizes = [6, 14, 26, 38]

    def rgrid(self, ident):
        if ident >= 1000:
            if ident not in self._dflt:
                self._dflt[ident] = self.mg._generate_default_rgrid(ident - 1000)
            return self._dflt[ident]
        return self.rg[ident]


def _arg(ctx, ids_fn, n, atnums, allow_none, py_of, errors=0.2, plain=("obj", "list", "dict")):
    """-> (token string, python object, kind). ids_fn() draws an identifier; `errors` = share of the
    short-list / missing-key / unsupported-type variants."""
    rng = ctx.rng
    if rng.random() < errors:
        kind = rng.choice(["listshort", "dictmiss", "other"])
    else:
        kind = rng.choice(list(plain) + ["listlong"] + (["none", "none"] if allow_none else []))
    if kind == "obj":
        i = ids_fn()
        return f"obj {i}", py_of(i), kind
    if kind in ("list", "listshort", "listlong"):
        m = {"list": n, "listshort": max(0, n - 1), "listlong": n + 1}[kind]
        ids = [ids_fn() for _ in range(m)]
        return "list " + vec(ids), [py_of(i) for i in ids], kind
    if kind in ("dict", "dictmiss"):
        keys = sorted(set(atnums))
        if kind == "dictmiss":
            drop = rng.choice(keys)
            keys = [k for k in keys if k != drop] + [99]
        d = {k: ids_fn() for k in keys}
        flat = [x for k, v in d.items() for x in (k, v)]
        return "dict " + vec(flat), {k: py_of(v) for k, v in d.items()}, kind
    if kind == "none":
        return "none", None, kind
    bad = rng.choice([(1, 2), 3.5, {1, 2}])
    return "other", bad, kind


def _mol(ctx, n):
    """n centres at least 1.2 bohr apart"""
    pts = []
    while len(pts) < n:
        p = np.array([ctx.rng.uniform(-2.5, 2.5) for _ in range(3)])
        if all(np.linalg.norm(p - q) >= 1.2 for q in pts):
            pts.append(p)
    return np.array(pts).reshape(n, 3)


def _aim_choice(ctx, bk):
    r = ctx.rng.random()
    if r < 0.4:
        return None, "default"
    if r < 0.7:
        return bk.BeckeWeights(order=ctx.rng.choice([2, 3])), "becke"
    return "array", "array"


def _compare_molgrids(ctx, name, got, ref, wit):
    for attr in ("indices", "points", "weights", "atweights", "aim_weights", "atcoords"):
        a, b = getattr(got, attr), getattr(ref, attr)
        if attr == "indices":
            same = list(map(int, a)) == list(map(int, b))
        else:
            same = _beq(a, b)
        if not same:
            dev = float(np.max(np.abs(np.asarray(a, float) - np.asarray(b, float)))) if np.shape(a) == np.shape(b) else "shape"
            ctx.fail("corr", f"{name}:{attr}", f"MolGrid.{name}(...) and the hand-built MolGrid differ in {attr} (max dev {dev})", witness=wit)
            return False
    return True


def _run_fanout(ctx, name, mg, ag, bk, pool, line, call, hand, atnums, atcoords, store, aimkind, aim, nontriv, canon, ans):
    """call(aim) -> MolGrid via the convenience constructor; hand(sel) -> AtomGrid built by hand from one atom's
    model selection; ans = model answer."""
    wit = {"constructor": name, "line": line, "model": ans[:200]}
    # aim weights as an array need the size: take it from a first construction with Becke weights
    def build(a):
        try:
            return "ok", call(a)
        except Exception as e:  # noqa: BLE001
            return _tag(e), None
    if aimkind == "array":
        st0, g0 = build(None)
        if st0 == "ok":
            aim = np.array([ctx.rng.uniform(0, 1) for _ in range(g0.size)])
        else:
            aim = None
    status, got = build(aim)
    width = {"from_preset": 4, "from_size": 2, "from_pruned": 6}[name]
    t = Tokens(ans)
    head = t.tok()
    if head == "ok":
        t.vec(int)  # the model's index table of the recording grids (not used)
        model_err = None
    else:
        model_err = head
        t.nat()  # number of atoms built before the exception
    flat = t.vec(int)
    sels = [flat[i:i + width] for i in range(0, len(flat), width)]
    # build by hand what the model says was built (all atoms, or those before the model's exception);
    # the real AtomGrid constructor may raise earlier than the abstract one of the model
    hand_grids, herr = [], None
    for sel in sels:
        try:
            hand_grids.append(hand(sel))
        except Exception as e:  # noqa: BLE001
            herr = _tag(e)
            break
    if herr is not None:
        tag_branch = "atomgrid-" + herr
        if status != herr:
            ctx.fail("corr", f"{name}:error", f"hand-built AtomGrid raises {herr}, MolGrid.{name} gives {status}", witness=wit)
    elif model_err is not None:
        tag_branch = model_err
        if status != model_err:
            ctx.fail("corr", f"{name}:error", f"MolGrid.{name}: {status}, model (regenerated selection code): {model_err}", witness=wit)
    else:
        tag_branch = "ok"
        try:
            ref = mg.MolGrid(np.array(atnums), hand_grids, aim if aim is not None else bk.BeckeWeights(order=3), store=store)
            rst = "ok"
        except Exception as e:  # noqa: BLE001
            rst, ref = _tag(e), None
        if rst != status:
            ctx.fail("corr", f"{name}:error", f"hand-built MolGrid: {rst}, MolGrid.{name}: {status}", witness=wit)
        elif rst == "ok":
            if _compare_molgrids(ctx, name, got, ref, wit) and store:
                for i, (a, b, sel) in enumerate(zip(got.atgrids, hand_grids, sels)):
                    rid = sel[{"from_preset": 2, "from_size": 0, "from_pruned": 0}[name]]
                    same = (a.rgrid is b.rgrid) if rid < 1000 else (_beq(a.rgrid.points, b.rgrid.points) and _beq(a.rgrid.weights, b.rgrid.weights))
                    if not same:
                        ctx.fail("corr", f"{name}:rgrid-identity", f"atom {i} did not receive the selected radial grid object", witness=wit)
                        break
            if (got.atgrids is not None) != store:
                ctx.fail("corr", f"{name}:store", "atgrids attribute does not follow `store`", witness=wit)
        else:
            tag_branch = "molgrid-" + rst
    ctx.count(canon, nontrivial=nontriv, tag=f"{name}:{tag_branch}")


def _corr_fanout(ctx: Ctx, mg, ag, bk, od):
    pool = Pool(mg, od)
    rng = ctx.rng
    jobs = []
    # ---------------- from_preset
    for _ in range(ctx.n(160, 2000)):
        n = rng.choice([1, 2, 2, 3, 3, 4])
        atnums = [rng.choice(ELEMENTS + ([58] if rng.random() < 0.1 else [])) for _ in range(n)]
        nc = n if rng.random() < 0.93 else n + rng.choice([-1, 1])
        if nc < 1:
            nc = n
        atcoords = _mol(ctx, nc)
        ptok, ppy, pk = _arg(ctx, lambda: rng.choice([1, 2, 3, 4]), n, atnums, False, lambda i: pool.presets[i])
        rtok, rpy, rk = _arg(ctx, lambda: rng.choice([1, 2, 3, 4]), n, atnums, True, pool.rgrid)
        rotate = rng.choice([0, 37, rng.randrange(1, 10 ** 6)])
        store = rng.random() < 0.5
        aim, aimkind = _aim_choice(ctx, bk)
        line = f"C07.preset {vec(atnums)} {nc} {ptok} {rtok}"

        def call(a, atnums=atnums, atcoords=atcoords, ppy=ppy, rpy=rpy, rotate=rotate, store=store):
            return mg.MolGrid.from_preset(np.array(atnums), atcoords, ppy, rpy, a, rotate=rotate, store=store)

        def hand(sel, atcoords=atcoords, rotate=rotate):
            z, gd, rad, c = sel
            return ag.AtomGrid.from_preset(atnum=z, preset=pool.presets[gd], rgrid=pool.rgrid(rad), center=atcoords[c], rotate=rotate)

        nontriv = n >= 2 and not (pk == "obj" and rk == "obj")
        jobs.append(("from_preset", line, call, hand, atnums, atcoords, store, aimkind, aim, nontriv,
                     ["from_preset", atnums, nc, ptok, rtok, rotate, int(store), aimkind]))
    # ---------------- from_size
    for _ in range(ctx.n(80, 1000)):
        n = rng.choice([1, 2, 2, 3, 4])
        atnums = [rng.choice(ELEMENTS + ([58] if rng.random() < 0.1 else [])) for _ in range(n)]
        nc = n if rng.random() < 0.8 else max(1, n + rng.choice([-1, 1]))
        atcoords = _mol(ctx, nc)
        rtok, rpy, rk = _arg(ctx, lambda: rng.choice([1, 2, 3, 4]), n, atnums, True, pool.rgrid, errors=0.1,
                             plain=("obj", "obj", "obj", "obj", "list", "dict"))
        size = rng.choice(pool.sizes)
        rotate = rng.choice([0, 37, rng.randrange(1, 10 ** 6)])
        store = rng.random() < 0.5
        aim, aimkind = _aim_choice(ctx, bk)
        if nc != n and aimkind != "array":
            # Becke weights need as many numbers as centres; the zip truncation is observable with array weights
            aimkind = "array"
        line = f"C07.size {vec(atnums)} {nc} {rtok}"

        def call(a, atnums=atnums, atcoords=atcoords, rpy=rpy, rotate=rotate, store=store, size=size, n=n, nc=nc):
            if a is None and n != nc:
                a = lambda p, c, z, i: np.ones(len(p))  # noqa: E731
            return mg.MolGrid.from_size(np.array(atnums), atcoords, size, rpy, a, rotate=rotate, store=store)

        def hand(sel, atcoords=atcoords, rotate=rotate, size=size):
            rad, c = sel
            return ag.AtomGrid(pool.rgrid(rad), degrees=None, sizes=[size], center=atcoords[c], rotate=rotate)

        nontriv = n >= 2 and rk != "obj"
        jobs.append(("from_size", line, call, hand, atnums, atcoords, store, aimkind, aim, nontriv,
                     ["from_size", atnums, nc, rtok, size, rotate, int(store), aimkind]))
    # ---------------- from_pruned
    for _ in range(ctx.n(200, 2500)):
        n = rng.choice([1, 2, 2, 3, 3, 4])
        atnums = [rng.choice(ELEMENTS + ([58] if rng.random() < 0.05 else [])) for _ in range(n)]
        nc = n if rng.random() < 0.96 else max(1, n + rng.choice([-1, 1]))
        atcoords = _mol(ctx, nc)
        rtok, rpy, rk = _arg(ctx, lambda: rng.choice([1, 2, 3, 4]), n, atnums, True, pool.rgrid, errors=0.1)
        nr = nc if rng.random() < 0.93 else max(0, nc + rng.choice([-1, 1]))
        rs_ids = [rng.randrange(4) for _ in range(nr)]
        r_sectors = [pool.rsec[i] for i in rs_ids]
        rk2 = rng.choice(["float", "float", "float", "list", "list", "list", "npfloat", "array", "array"] + (["listshort", "other"] if rng.random() < 0.3 else []))
        if rk2 in ("float", "npfloat"):
            rid = rng.choice([1, 2, 3, 4])
            radius = pool.radii[rid] if rk2 == "float" else np.float64(pool.radii[rid])
            radtok, rad_of = f"float {rid}", (lambda i, rid=rid: pool.radii[rid])
        elif rk2 in ("list", "listshort", "array"):
            m = nc if rk2 != "listshort" else max(0, nc - 1)
            rl = [rng.choice([1, 2, 3, 4]) for _ in range(m)]
            radius = [pool.radii[i] for i in rl]
            if rk2 == "array":
                radius = np.array(radius)
            radtok, rad_of = "list " + vec(rl), (lambda i: pool.radii[i])
        else:
            radius, radtok, rad_of = 1, "other", None
        dk = rng.choice(["list"] * 12 + ["int", "listbadlen", "mismatch"])
        if dk == "int":
            d_sectors, dtok = rng.choice([50, np.int64(30)]), "int 50"
            d_of = lambda i, d_sectors=d_sectors: d_sectors  # noqa: E731
        else:
            m = nr if dk != "listbadlen" else nr + 1
            if dk == "mismatch":
                d_sectors = [pool.dsec[rng.randrange(4)] for _ in range(m)]
            else:
                d_sectors = [pool.dsec[len(r_sectors[i])] if i < nr else [5] for i in range(m)]
            dtok = "list " + vec(range(m))
            d_of = lambda i, d_sectors=d_sectors: d_sectors[i]  # noqa: E731
        sk = rng.choice(["none"] * 8 + ["list"] * 5 + ["int", "listbadlen"])
        if sk == "none":
            s_sectors, stok, s_of = None, "none", None
        elif sk == "int":
            s_sectors, stok, s_of = 26, "int", None
        else:
            m = nr if sk == "list" else nr + 1
            s_sectors = [pool.ssec[len(r_sectors[i])] if i < nr else [6] for i in range(m)]
            stok = "list " + vec(range(m))
            s_of = lambda i, s_sectors=s_sectors: s_sectors[i]  # noqa: E731
        rotate = rng.choice([0, 37, rng.randrange(1, 10 ** 6)])
        store = rng.random() < 0.5
        aim, aimkind = _aim_choice(ctx, bk)
        line = f"C07.pruned {vec(atnums)} {nc} {radtok} {nr} {dtok} {stok} {rtok}"

        def call(a, atnums=atnums, atcoords=atcoords, radius=radius, r_sectors=r_sectors, d_sectors=d_sectors,
                 s_sectors=s_sectors, rpy=rpy, rotate=rotate, store=store):
            return mg.MolGrid.from_pruned(np.array(atnums), atcoords, radius, r_sectors, d_sectors,
                                          s_sectors=s_sectors, rgrid=rpy, aim_weights=a, rotate=rotate, store=store)

        def hand(sel, atcoords=atcoords, rotate=rotate, r_sectors=r_sectors, rad_of=rad_of, d_of=d_of, s_of=s_of):
            rad, ra, rs, ds, ss, c = sel
            return ag.AtomGrid.from_pruned(pool.rgrid(rad), rad_of(ra), r_sectors=r_sectors[rs],
                                           d_sectors=None if ds == 0 else d_of(ds - 1),
                                           s_sectors=None if ss == 0 else s_of(ss - 1),
                                           center=atcoords[c], rotate=rotate)

        nontriv = n >= 2 and (rk != "obj" or rk2 in ("list", "array") or sk == "list")
        jobs.append(("from_pruned", line, call, hand, atnums, atcoords, store, aimkind, aim, nontriv,
                     ["from_pruned", atnums, nc, radtok, rs_ids, dk, sk, rtok, rotate, int(store), aimkind]))
    answers = driver_batch([j[1] for j in jobs])
    for j, ans in zip(jobs, answers):
        name, line, call, hand, atnums, atcoords, store, aimkind, aim, nontriv, canon = j
        _run_fanout(ctx, name, mg, ag, bk, pool, line, call, hand, atnums, atcoords, store, aimkind, aim, nontriv, canon, ans)
    # malformed stream: atcoords.ndim != 2 is rejected before the modelled part
    for ctor in ("from_preset", "from_pruned"):
        try:
            if ctor == "from_preset":
                mg.MolGrid.from_preset(np.array([1]), np.zeros(3), "coarse", pool.rg[1])
            else:
                mg.MolGrid.from_pruned(np.array([1]), np.zeros(3), 1.0, [[]], [[5]], rgrid=pool.rg[1])
            r = "ok"
        except Exception as e:  # noqa: BLE001
            r = _tag(e)
        ctx.count([ctor, "ndim1"], nontrivial=False, tag="malformed")
        if r != "value-error":
            ctx.fail("corr", f"{ctor}:malformed", f"1-D atcoords not rejected with ValueError: {r}")
    # _generate_default_rgrid: domain and size against the regenerated table
    zs = list(range(0, 100))
    ans = driver_batch([f"C07.defaultRgrid {z}" for z in zs])
    for z, a in zip(zs, ans):
        try:
            impl = f"ok {mg._generate_default_rgrid(z).size}"
        except Exception as e:  # noqa: BLE001
            impl = _tag(e)
        ctx.count(["defaultRgrid", z], nontrivial=False, tag="defaultRgrid:" + impl.split()[0])
        if impl != a:
            ctx.fail("corr", "defaultRgrid", f"_generate_default_rgrid({z}): implementation {impl}, model {a}")


def _corr_save(ctx: Ctx, mg, ag, od):
    rg = od.GaussLaguerre(4)
    for n in (1, 2, 3):
        ats = [ag.AtomGrid(rg, degrees=[3], center=np.array([0.0, 0.0, 2.0 * i])) for i in range(n)]
        aim = np.ones(sum(a.size for a in ats))
        for store in (False, True):
            buf = io.BytesIO()
            try:
                m = mg.MolGrid(np.array([1] * n), ats, aim, store=store)
                m.save(buf)
                buf.seek(0)
                with np.load(buf) as z:
                    impl = "ok " + " ".join([str(len(z.files))] + list(z.files))
            except Exception as e:  # noqa: BLE001
                impl = _tag(e)
            parts = " ".join(f"{_fmat3(a.points)} {fvec(a.weights)} {fvec(a.center)}" for a in ats)
            ans = driver_batch([f"C07.savekeys {int(store)} arr {fvec(aim)} {vec([1] * n)} {n} {parts}"])[0]
            ctx.count(["save", n, int(store)], nontrivial=False, tag="save:" + impl.split()[0])
            if ans != impl:
                ctx.fail("corr", "save", f"MolGrid.save keys, store={store}: implementation {impl[:120]}, model {ans[:120]}")


def corr(ctx: Ctx):
    mg, ag, bg, bk, od = _mods()
    _corr_small(ctx, mg, bg)
    _corr_fanout(ctx, mg, ag, bk, od)
    _corr_save(ctx, mg, ag, od)


# ------------------------------------------------------------------------------------------
# oracle: the property on the implementation
# ------------------------------------------------------------------------------------------
SNIPPET_GETITEM = """import warnings; warnings.filterwarnings('ignore')
import numpy as np
from grid.molgrid import MolGrid
from grid.atomgrid import AtomGrid
from grid.becke import BeckeWeights
from grid.onedgrid import GaussLaguerre
rg = GaussLaguerre(6)
coords = np.array([[0.0, 0.0, -0.7], [0.0, 0.0, 0.7]])
ats = [AtomGrid(rg, degrees=[5], center=c) for c in coords]
a = MolGrid(np.array([1, 1]), ats, BeckeWeights(order=3), store=True)
b = MolGrid(np.array([1, 1]), ats, BeckeWeights(order=3), store=False)
f = np.exp(-((a[0].points - coords[0]) ** 2).sum(axis=1))
ia, ib = a[0].integrate(f), b[0].integrate(f)
assert np.array_equal(a[0].weights, b[0].weights), (
    f'mg[0].weights depend on store: max difference {np.max(np.abs(a[0].weights - b[0].weights)):.3g}; '
    f'mg[0].integrate(f) = {ia!r} (store=True) vs {ib!r} (store=False)')
"""

def _atom_segments(m):
    return [(int(m.indices[k]), int(m.indices[k + 1])) for k in range(len(m.indices) - 1)]


SNIPPET_STRUCT = """import warnings; warnings.filterwarnings('ignore')
import math
import numpy as np
from grid.molgrid import MolGrid
from grid.atomgrid import AtomGrid
from grid.becke import BeckeWeights
from grid.onedgrid import GaussLaguerre
atnums = {atnums!r}; coords = np.array({coords!r}); nrad = {nrad!r}; degs = {degs!r}; rots = {rots!r}
use_arr, seed = {use_arr!r}, {seed!r}
n = len(atnums); rs = np.random.default_rng(seed)
def beq(x, y):
    x, y = np.asarray(x, float), np.asarray(y, float)
    return x.shape == y.shape and np.array_equal(x, y)
try:
    ats = [AtomGrid(GaussLaguerre(nrad[i]), degrees=[degs[i]], center=coords[i], rotate=rots[i]) for i in range(n)]
    size = sum(g.size for g in ats)
    aim = rs.uniform(0, 1, size) if use_arr else BeckeWeights(order=3)
    f = rs.uniform(-1, 1, size)
    a = MolGrid(np.array(atnums), ats, aim, store=True)
    b = MolGrid(np.array(atnums), ats, aim, store=False)
    ind = [int(x) for x in a.indices]
    seg = [(ind[k], ind[k + 1]) for k in range(len(ind) - 1)]
    # clause 1: concatenation in order, index table
    assert len(ind) == n + 1 and ind[0] == 0 and ind[-1] == a.size == size and all(s <= e for s, e in seg), (
        f'molgrid.MolGrid.__init__:indices :: index table {{ind}} is not 0 = i0 <= ... <= iM = size {{size}}')
    for k, (s, e) in enumerate(seg):
        assert beq(a.points[s:e], ats[k].points) and beq(a.atweights[s:e], ats[k].weights) and beq(a.atcoords[k], ats[k].center), (
            f'molgrid.MolGrid.__init__:segments :: points/atweights[{{s}}:{{e}}] of the molecular grid are not atomic grid {{k}}')
    # clause 2: weights = atomic weights x atom-in-molecule weights
    aimw = np.asarray(a.aim_weights, float)
    assert aimw.shape == (size,) and np.allclose(a.weights, a.atweights * aimw, rtol=1e-15, atol=0), (
        'molgrid.MolGrid.__init__:weights :: weights != atweights * aim_weights')
    # clause 3: the molecular integral is the sum of the atomic integrals of aim*f
    total = float(a.integrate(f))
    parts = math.fsum(float(ats[k].integrate(aimw[s:e] * f[s:e])) for k, (s, e) in enumerate(seg))
    assert abs(total - parts) <= 1e-12 * float(np.sum(np.abs(a.weights * f))), (
        f'molgrid.MolGrid.integrate:decomposition :: integrate(f) = {{total!r}} but the atomic integrals of aim*f sum to {{parts!r}}')
    # clause 4: nothing depends on store
    for attr in ('points', 'weights', 'atweights', 'aim_weights', 'atcoords', 'indices'):
        assert np.array_equal(np.asarray(getattr(a, attr)), np.asarray(getattr(b, attr))), (
            f'molgrid.MolGrid.__init__:store :: {{attr}} depends on store')
    assert a.integrate(f) == b.integrate(f), 'molgrid.MolGrid.integrate:store :: the integral depends on store'
    for k in range(n):
        ga, gb = a.get_atomic_grid(k), b.get_atomic_grid(k)
        assert ga is ats[k], f'molgrid.MolGrid.get_atomic_grid:store-branch :: get_atomic_grid({{k}}) with store=True is not atomic grid {{k}}'
        assert beq(gb.points, ats[k].points) and beq(gb.weights, ats[k].weights) and beq(gb.center, ats[k].center), (
            f'molgrid.MolGrid.get_atomic_grid:content :: get_atomic_grid({{k}}) with store=False is not atomic grid {{k}}')
        assert beq(ga.points, gb.points) and beq(ga.weights, gb.weights) and beq(ga.center, gb.center), (
            f'molgrid.MolGrid.get_atomic_grid:store :: get_atomic_grid({{k}}) depends on store')
        ia, ib = a[k], b[k]
        assert beq(ia.points, ib.points) and beq(ia.center, ib.center) and beq(ia.points, ats[k].points), (
            f'molgrid.MolGrid.__getitem__:points :: points / centre of mg[{{k}}] depend on store or are not those of atom {{k}}')
        assert beq(ib.weights, ats[k].weights * aimw[seg[k][0]:seg[k][1]]) and ia is ats[k], (
            f'molgrid.MolGrid.__getitem__:content :: mg[{{k}}] is neither the stored AtomGrid nor the aim-weighted segment')
    for bad in (-1, -n - 3):
        for g in (a, b):
            try:
                g.get_atomic_grid(bad); ok = True
            except ValueError:
                ok = False
            assert not ok, f'molgrid.MolGrid.get_atomic_grid:negative :: get_atomic_grid({{bad}}) not rejected'
except AssertionError:
    raise
except Exception as e:
    raise AssertionError(f'molgrid.MolGrid:raises :: {{type(e).__name__}}: {{e}} on admissible atomic grids')
"""


def _oracle_structure(ctx: Ctx, budget, mg, ag, bk, od):
    rng = ctx.rng
    reps = 14 if budget == "small" else 150
    for rep in range(reps):
        n = rng.choice([1, 2, 2, 3, 3, 4, 5])
        atnums = [rng.choice(ELEMENTS) for _ in range(n)]
        coords = _mol(ctx, n).tolist()
        params = dict(atnums=atnums, coords=coords, nrad=[rng.choice([4, 5, 6, 8]) for _ in range(n)],
                      degs=[rng.choice([3, 5, 7, 9]) for _ in range(n)], rots=[rng.choice([0, 37, rng.randrange(10 ** 6)]) for _ in range(n)],
                      use_arr=rng.random() < 0.4, seed=rng.randrange(2 ** 31))
        code = SNIPPET_STRUCT.format(**params)
        ctx.count(["oracle-structure", atnums, params["nrad"], params["degs"], params["use_arr"]], nontrivial=n >= 2, tag="oracle:structure")
        try:
            exec(compile(code, "<c07-structure>", "exec"), {"__name__": "c07_structure"})  # the replay snippet itself is the oracle
        except AssertionError as e:
            key, _, what = str(e).partition(" :: ")
            ctx.fail("oracle", key.strip(), what[:400], witness=params, snippet=code)
    # the known store dependence of __getitem__ (KNOWN_FINDINGS): replayed on every run
    rg = od.GaussLaguerre(6)
    coords = np.array([[0.0, 0.0, -0.7], [0.0, 0.0, 0.7]])
    ats = [ag.AtomGrid(rg, degrees=[5], center=c) for c in coords]
    a = mg.MolGrid(np.array([1, 1]), ats, bk.BeckeWeights(order=3), store=True)
    b = mg.MolGrid(np.array([1, 1]), ats, bk.BeckeWeights(order=3), store=False)
    fk = np.exp(-((ats[0].points - coords[0]) ** 2).sum(axis=1))
    if not _beq(a[0].weights, b[0].weights):
        ctx.fail("oracle", KEY_GETITEM,
                 f"the per-atom grid handed back by mg[0] depends on store: weights differ by up to "
                 f"{float(np.max(np.abs(a[0].weights - b[0].weights))):.3g} (raw atomic weights when stored, aim-weighted otherwise); "
                 f"integral of exp(-|r-R_0|^2) on mg[0] = {float(a[0].integrate(fk))!r} (store=True) vs {float(b[0].integrate(fk))!r} (store=False)",
                 witness={"atnums": [1, 1], "coords": coords, "rgrid": "GaussLaguerre(6)", "degrees": [5], "aim": "BeckeWeights(order=3)"},
                 snippet=SNIPPET_GETITEM)
    try:
        na, nb = a[-1].size, b[-1].size
    except Exception as e:  # noqa: BLE001
        na = nb = None
        ctx.info(f"mg[-1] raises {type(e).__name__}")
    if na != nb:
        ctx.info(f"mg[-1]: {na} points with store=True, {nb} with store=False (no sign check in __getitem__; "
                 f"get_atomic_grid rejects negative indices) — same call site as {KEY_GETITEM}")
        ctx.fail("oracle", KEY_GETITEM, f"mg[-1] has {na} points with store=True and {nb} with store=False", snippet=SNIPPET_GETITEM)


SNIPPET_FANOUT = """import warnings; warnings.filterwarnings('ignore')
import numpy as np
from grid.molgrid import MolGrid, _generate_default_rgrid
from grid.atomgrid import AtomGrid
from grid.becke import BeckeWeights
from grid.onedgrid import GaussLaguerre
which, form, pform, rotate, store = {which!r}, {form!r}, {pform!r}, {rotate!r}, {store!r}
atnums = np.array({atnums!r}); coords = np.array({coords!r}); n = len(atnums)
elems = sorted(set(atnums.tolist()))
# per-atom choice, then the argument in the requested form (single / list / dict keyed by atomic number / None = default)
rg_of = {{z: (_generate_default_rgrid(z) if form == 'none' else GaussLaguerre(4 + k % 4)) for k, z in enumerate(elems)}}
pr_of = {{z: ['coarse', 'medium', 'fine'][k % 3] for k, z in enumerate(elems)}}
if form == 'single': rg_of = {{z: rg_of[elems[0]] for z in elems}}
if pform == 'single': pr_of = {{z: pr_of[elems[0]] for z in elems}}
per_rg = [rg_of[z] for z in atnums.tolist()]; per_pr = [pr_of[z] for z in atnums.tolist()]
rgrid = None if form == 'none' else (per_rg[0] if form == 'single' else (per_rg if form == 'list' else rg_of))
preset = per_pr[0] if pform == 'single' else (per_pr if pform == 'list' else pr_of)
rs = [[0.5, 1.0][: i % 3] for i in range(n)]; ds = [[3, 5, 7][: len(r) + 1] for r in rs]; radius = [0.8 + 0.3 * i for i in range(n)]
try:
    if which == 'from_preset':
        got = MolGrid.from_preset(atnums, coords, preset, rgrid, rotate=rotate, store=store)
        hand = [AtomGrid.from_preset(atnum=z, preset=per_pr[i], rgrid=per_rg[i], center=coords[i], rotate=rotate) for i, z in enumerate(atnums)]
    elif which == 'from_pruned':
        got = MolGrid.from_pruned(atnums, coords, radius, rs, ds, rgrid=rgrid, rotate=rotate, store=store)
        hand = [AtomGrid.from_pruned(per_rg[i], radius[i], r_sectors=rs[i], d_sectors=ds[i], center=coords[i], rotate=rotate) for i in range(n)]
    else:
        got = MolGrid.from_size(atnums, coords, 26, None if form == 'none' else per_rg[0], rotate=rotate, store=store)
        hand = [AtomGrid(per_rg[i] if form == 'none' else per_rg[0], degrees=None, sizes=[26], center=coords[i], rotate=rotate) for i in range(n)]
except Exception as e:
    raise AssertionError(f'MolGrid.{{which}} raises {{type(e).__name__}}: {{e}} for arguments the atomic grids accept')
ref = MolGrid(atnums, hand, BeckeWeights(order=3), store=store)
for attr in ('indices', 'points', 'weights', 'atweights'):
    x, y = np.asarray(getattr(got, attr), float), np.asarray(getattr(ref, attr), float)
    assert x.shape == y.shape and np.allclose(x, y, rtol=1e-14, atol=1e-14), f'MolGrid.{{which}} differs in {{attr}} from the grid built by hand with the same arguments'
"""


def _oracle_fanout(ctx: Ctx, budget, mg, ag, bk, od):
    """fan-out equality against the plain reading: atom i gets arg / arg[i] / arg[atnums[i]]"""
    rng = ctx.rng
    reps = 16 if budget == "small" else 150
    for _ in range(reps):
        n = rng.choice([2, 3, 4])
        atnums = [rng.choice(ELEMENTS) for _ in range(n)]
        coords = _mol(ctx, n).tolist()
        which = rng.choice(["from_preset", "from_preset", "from_pruned", "from_pruned", "from_size"])
        form = rng.choice(["single", "none"]) if which == "from_size" else rng.choice(["single", "list", "dict", "dict", "none"])
        pform = rng.choice(["single", "list", "dict"])
        rotate = rng.choice([0, 37, rng.randrange(10 ** 6)])
        store = rng.random() < 0.5
        wit = {"constructor": which, "atnums": atnums, "coords": coords, "rgrid": form, "preset": pform, "rotate": rotate, "store": store}
        code = SNIPPET_FANOUT.format(which=which, form=form, pform=pform, rotate=rotate, store=store, atnums=atnums, coords=coords)
        ctx.count(["oracle-fanout", which, atnums, form, pform, rotate], nontrivial=True, tag=f"oracle:fanout:{which}")
        try:
            exec(compile(code, "<c07-fanout>", "exec"), {"__name__": "c07_fanout"})  # the replay snippet itself is the oracle
        except AssertionError as e:
            ctx.fail("oracle", f"molgrid.MolGrid.{which}:fanout", str(e)[:300] + f" (rgrid given as {form}, preset as {pform})",
                     witness=wit, snippet=code)


def _default_rgrid_reference(z, table):
    rmin, rmax, npt = table[z]
    a0 = 0.529177210903  # bohr in angstrom (CODATA 2018); newer CODATA values differ by < 1e-9 relative
    rmin, rmax = rmin / a0, rmax / a0
    power = (math.log(rmax) - math.log(rmin)) / math.log(npt)
    pts = np.array([rmin * (i + 1) ** power for i in range(npt)])
    wts = np.array([power * rmin * (i + 1) ** (power - 1) for i in range(npt)])
    return pts, wts


def _oracle_default_rgrid(ctx: Ctx, budget, mg):
    utils = importlib.import_module("grid.utils")
    table = utils._DEFAULT_POWER_RTRANSFORM_PARAMS
    zs = list(table) if budget == "large" or ctx.thorough else [1, 6, 8, 17, 35, 57, 72, 82]
    for z in zs:
        g = mg._generate_default_rgrid(z)
        pts, wts = _default_rgrid_reference(z, table)
        ctx.count(["oracle-default-rgrid", z], nontrivial=False, tag="oracle:default-rgrid")
        if g.size != len(pts) or not np.allclose(g.points, pts, rtol=1e-8, atol=0) or not np.allclose(g.weights, wts, rtol=1e-8, atol=0):
            ctx.fail("oracle", f"molgrid._generate_default_rgrid:Z={z}",
                     f"default radial grid of Z={z} is not rmin*(i+1)^p, p = ln(rmax/rmin)/ln(npt), in bohr")


def _prescribed_rgrid(mg, ag, preset, z, cache):
    """EXTENSION: the default radial transform of element z (PowerRTransform(rmin, rmax) of the default table) applied to
    a UniformInteger rule with the number of radial points the shell-count preset prescribes for z."""
    key = (preset, z)
    if key not in cache:
        utils = importlib.import_module("grid.utils")
        od = importlib.import_module("grid.onedgrid")
        rt = importlib.import_module("grid.rtransform")
        import scipy.constants as sc
        rmin, rmax, _ = utils._DEFAULT_POWER_RTRANSFORM_PARAMS[z]
        conv = sc.angstrom / sc.value("atomic unit of length")
        npt = int(ag._get_rgrid_size(preset, atnums=int(z))[0])
        cache[key] = rt.PowerRTransform(rmin * conv, rmax * conv).transform_1d_grid(od.UniformInteger(npt))
    return cache[key]


def _oracle_end_to_end(ctx: Ctx, budget, mg, ag):
    """EXPLORATION (no theorem): the 1 % clause sampled over the (preset, element) combinations for which a preset grid
    with the default radial grid exists; EXTENSION: shell-count presets with a radial grid of the prescribed size."""
    rng = ctx.rng
    quick = budget == "small" and not ctx.thorough
    worst, worst_ext = {}, {}
    constructible, ext_problems = {}, {}
    for preset in PRESETS_ALL:
        ok = []
        for z in ELEMENTS:
            try:
                mg.MolGrid.from_preset(np.array([z]), np.zeros((1, 3)), preset)
                ok.append(z)
            except (ValueError, KeyError, IndexError):
                pass
        constructible[preset] = ok
    heavy = ["veryfine", "ultrafine", "insane", "sg_2", "sg_3", "g4", "g5", "g6", "g7"]
    keep = set(rng.sample(heavy, 2)) if quick else set(heavy)
    per = 4 if quick else 40
    cache = {}

    def sample(preset, elems, extension):
        n = rng.choice([1, 2, 3, 4, 5])
        atnums = [rng.choice(elems) for _ in range(n)]
        coords = _mol(ctx, n)
        alphas = [rng.choice([0.3, 30.0, 10 ** rng.uniform(math.log10(0.3), math.log10(30.0))]) for _ in range(n)]
        charges = [rng.choice([1.0, rng.uniform(0.2, 3.0)]) for _ in range(n)]
        rotate = rng.choice([0, 37, rng.randrange(10 ** 6)])
        if extension:
            rgrid = {z: _prescribed_rgrid(mg, ag, preset, z, cache) for z in set(atnums)}
            g = mg.MolGrid.from_preset(np.array(atnums), coords, preset, rgrid, rotate=rotate)
        else:
            g = mg.MolGrid.from_preset(np.array(atnums), coords, preset, rotate=rotate)
        f = np.zeros(g.size)
        for c, al, q in zip(coords, alphas, charges):
            f += q * (al / math.pi) ** 1.5 * np.exp(-al * ((g.points - c) ** 2).sum(axis=1))
        total = sum(charges)
        err = abs(float(g.integrate(f)) - total) / total
        return err, atnums, coords, alphas, charges

    for preset in PRESETS_ALL:
        if preset in heavy and preset not in keep:
            continue
        elems = constructible[preset]
        if elems:
            for _ in range(per):
                try:
                    err, atnums, coords, alphas, charges = sample(preset, elems, False)
                except Exception as e:  # noqa: BLE001
                    ctx.fail("oracle", f"molgrid.MolGrid.from_preset:1pct:{preset}",
                             f"[exploration] preset {preset} with the default radial grids: construction / integration raises "
                             f"{type(e).__name__}: {str(e)[:120]} for elements that construct one by one")
                    break
                ctx.count(["oracle-1pct", preset, atnums, alphas], nontrivial=len(atnums) >= 2, tag=f"exploration:1pct:{preset}")
                if err > worst.get(preset, (-1.0,))[0]:
                    worst[preset] = (err, atnums, alphas)
                if err > 0.01:
                    ctx.fail("oracle", f"molgrid.MolGrid.from_preset:1pct:{preset}",
                             f"[exploration] preset {preset} with the default radial grids: a sum of normalised Gaussians integrates "
                             f"{err:.3%} off its total charge",
                             witness={"preset": preset, "atnums": atnums, "coords": coords, "alphas": alphas, "charges": charges})
        missing = [z for z in ELEMENTS if z not in elems]
        if missing and preset in ("sg_0", "sg_1", "sg_2", "sg_3", "g1", "g2", "g3", "g4", "g5", "g6", "g7"):
            # EXTENSION: radial grid of the prescribed size
            usable = []
            for z in missing:
                try:
                    mg.MolGrid.from_preset(np.array([z]), np.zeros((1, 3)), preset, _prescribed_rgrid(mg, ag, preset, z, cache))
                    usable.append(z)
                except Exception as e:  # noqa: BLE001  (shipped-table problems are C05's subject)
                    ext_problems[f"{preset}:Z={z}"] = f"{type(e).__name__}: {str(e)[:60]}"
            for _ in range(per if usable else 0):
                try:
                    err, atnums, coords, alphas, charges = sample(preset, usable, True)
                except Exception as e:  # noqa: BLE001
                    ext_problems[f"{preset}:molecule"] = f"{type(e).__name__}: {str(e)[:60]}"
                    break
                ctx.count(["oracle-1pct-ext", preset, atnums, alphas], nontrivial=len(atnums) >= 2, tag=f"extension:1pct:{preset}")
                if err > worst_ext.get(preset, (-1.0,))[0]:
                    worst_ext[preset] = (err, atnums, alphas)
    not_default = {p: [z for z in ELEMENTS if z not in v] for p, v in constructible.items() if len(v) < len(ELEMENTS)}
    ctx.extra["end_to_end_exploration"] = {
        "label": "exploration (no theorem): |integral - charge| / charge of sums of normalised Gaussians on preset grids "
                 "with the default radial grids (rgrid=None), over the (preset, element) combinations for which such a grid "
                 "exists; worst relative error per preset in this run",
        "elements_sampled": ELEMENTS,
        "worst_relative_error": {p: {"error": v[0], "atnums": v[1], "alphas": v[2]} for p, v in worst.items()},
        "no_default_rgrid_grid_for": not_default,
        "extension_label": "extension (outside the clause): shell-count presets with the default radial transform of the element "
                           "applied to UniformInteger(n), n = the number of radial points the preset prescribes",
        "extension_worst_relative_error": {p: {"error": v[0], "atnums": v[1], "alphas": v[2]} for p, v in worst_ext.items()},
        "extension_not_buildable": ext_problems,
    }
    if not_default:
        ctx.info("scope of the 1 % clause: MolGrid.from_preset(preset, rgrid=None) is rejected (ValueError: radial grid size does "
                 "not match) for the presets that prescribe their own number of radial shells — "
                 + ", ".join(f"{p} (Z in {z})" if len(z) < len(ELEMENTS) else p for p, z in sorted(not_default.items()))
                 + "; no preset grid with the default radial grids exists there, the clause is sampled on the others "
                   "and these are sampled with a radial grid of the prescribed size (extension)")
    over = {p: v[0] for p, v in worst_ext.items() if v[0] > 0.01}
    if over:
        ctx.info(f"extension (outside the clause): relative error above 1 % with prescribed-size Power/UniformInteger radial grids: {over}")


def oracle(ctx: Ctx, budget: str):
    mg, ag, bg, bk, od = _mods()
    _oracle_structure(ctx, budget, mg, ag, bk, od)
    _oracle_fanout(ctx, budget, mg, ag, bk, od)
    _oracle_default_rgrid(ctx, budget, mg)
    _oracle_end_to_end(ctx, budget, mg, ag)

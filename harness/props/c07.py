"""C07 — a molecular grid is the weighted concatenation of its atomic grids."""
import copy
import importlib
import io
import math
import types

import numpy as np

from ..common import Ctx, Tokens, close, driver_batch, f2b, fmat, fvec, vec

LEVEL = "proof"
LEVEL_TEXT = (
    "Lean theorems, for every number of atoms, all atomic grids (any point type, values in any commutative semiring), "
    "callable or array atom-in-molecule weights, store on and off: after a successful MolGrid(...) the index table has "
    "natoms+1 entries, starts at 0, is monotone, ends at the size, and points[indices[k]:indices[k+1]], "
    "atweights[indices[k]:indices[k+1]], atcoords[k] are atom k's points, weights, centre (molgrid_slices); "
    "weights = atweights*aim_weights point by point (weights_spec; wrong array size / type rejected: aim_array_size; "
    "one-element callable result broadcast: weights_broadcast); integrate(f) = sum over atoms of the atomic-grid integral of "
    "(aim*f) on that atom's segment (integral_decomposes); the construction with store=False is the one with store=True with "
    "the atgrids attribute forgotten, same exception otherwise, hence equal points, weights, atweights, aim_weights, "
    "atcoords, indices, integrals (init_store_false, store_independent); get_atomic_grid(k) returns atom k's points, raw "
    "atomic weights and centre in both modes, rejects negative and too large indices identically "
    "(getAtomicGrid_spec/_errors/_store_independent). __getitem__: points and centre are store-independent "
    "(getItem_store_independent_partial), the weights handed back are not — raw atomic weights when stored, aim-weighted "
    "otherwise (getItem_spec); the full-strength statement is kept as getItem_store_independent_full and its negation is "
    "proved at a witness (getItem_store_independent_fails_at), as is the negative-index behaviour "
    "(getItem_negative_index_fails_at); save() needs store=True (save_needs_store). Fan-out: atom i receives the single "
    "value / i-th list entry / atnums[i]-keyed dict entry / default for atnums[i] (fanout_spec); the isinstance chains of "
    "from_preset, from_pruned and the None test of from_size, regenerated from the source by an AST translator, are "
    "equal to that hand model (gen_selection_eq_model); loop headers, AtomGrid call arguments, pre-loop statements are "
    "pinned as text (call_sites_pinned); therefore from_preset / from_size / from_pruned = MolGrid(atnums, [AtomGrid... "
    "built by hand with the same arguments], aim_weights or BeckeWeights(order=3), store) exception for exception "
    "(fromPreset_/fromSize_/fromPruned_eq_hand_built, prunedSectors_spec, radiusAtom_spec, defaultRgrid_spec, "
    "defaultRgrid_table_ok). Round 2: MolGrid.__init__ (zero-initialised arrays, the enumerate loop with its item and slice "
    "assignments, the callable / ndarray / else dispatch of the aim weights with its size guard, super().__init__), "
    "get_atomic_grid and __getitem__ are translated statement by statement from the current source into Lean do-blocks over "
    "hand-written NumPy list primitives, and proved equal to the hand model for all inputs, exceptions included "
    "(init_loop_step, init_loop_spec = the loop invariant, gen_init_eq_model, gen_init_overwrites_zeros, "
    "gen_getAtomicGrid_eq_model, gen_getItem_eq_model); molgrid_slices and the per-atom statements assume what "
    "Grid.__init__ guarantees for every grid object, len(points) = len(weights) of each atomic grid (a duck-typed object with "
    "one point and several weights is broadcast by NumPy, not rejected: modelled, AtGrid.segPoints; molgrid_shape needs no "
    "assumption). AtomGrid and BeckeWeights are given components (C05, C06). "
    "Round 3: MolGrid.interpolate and its inner interpolate_low are translated statement by statement and proved equal to the hand "
    "model for all inputs (gen_interpolate_eq_model, gen_interpolate_low_eq_model; the defaults deriv=0, deriv_spherical=False, "
    "only_radial_derivs=False: interpolate_low_defaults); after MolGrid(..., store=True), for values f of the grid's size, atom k "
    "interpolates (f * aim_weights)[indices[k]:indices[k+1]] on its stored grid and the callable handed back evaluates the atomic "
    "interpolants in order and adds them — entry by entry the sum over the atoms when the shapes agree (interpolate_sum_over_atoms, "
    "sumInterp_same_shape); ValueError without stored grids (interpolate_needs_store); AtomGrid.interpolate is a given component (C09). "
    "_generate_default_rgrid is translated statement by statement and every row (rmin, rmax, npt) of _DEFAULT_POWER_RTRANSFORM_PARAMS is "
    "carried as the exact decimal of its literal text: the generated function is the table look-up followed by "
    "PowerRTransform(rmin*angstrom/bohr, rmax*angstrom/bohr).transform_1d_grid(UniformInteger(npt)), ValueError off the table "
    "(gen_defaultRgrid_eq_model, generate_default_rgrid_spec, defaultRgridParams_npt); for every Z of the table, kernel-decided on the exact "
    "decimals: 0 < rmin, rmin*npt^2 <= rmax, 34 <= npt, keys H-La and Hf-Pb once each (defaultRgrid_rows_ok), hence over the reals for all "
    "positive unit constants: 0 < a < b, exponent p = ln(b/a)/ln(npt) >= 2, first point a, last point b, points a(x+1)^p strictly "
    "increasing, weights p a (x+1)^(p-1) positive (defaultRgrid_clause). The defaults of the three classmethod signatures are generated "
    "definitions (signature_defaults_pinned, fromPruned_default_sectors), the statements of save are pinned as text (save_site_pinned). "
    "Round 6, over the generated text: the statements of the three preludes that re-bind aim_weights are generated definitions (fromX_aim) equal "
    "to the hand model, so every constructor hands a callable, an array or any other non-None object on unchanged and uses BeckeWeights(order=3) "
    "exactly for None (gen_aim_eq_model, aim_passed_through_every_route); after the generated __init__ with any aim array — no sign, range or "
    "normalisation assumption, no order on the value type — aim_weights is the given array, atweights the concatenation and weights their "
    "entry-by-entry product, and with a callable aim_weights is what it returned for this grid's (points, atcoords, atnums, indices) "
    "(gen_init_weights_any_aim_array / _callable; element-wise post-processing such as np.clip and a branch on len(atgrids) inside the "
    "aim-weights dispatch are carried by the translator, so such a rewrite changes the generated definition instead of being refused); a "
    "one-atom molecule is the general formula at n = 1, the callable evaluated on the atom's points (gen_init_one_atom). "
    "Exploration only (labelled, no theorem): the end-to-end clause — preset grids with the default radial grids integrate "
    "sums of normalised atom-centred Gaussians (exponents 0.3-30, 1-5 atoms >= 1.2 bohr apart) to the total charge within "
    "1 % — is sampled on the implementation, over the (preset, element) combinations for which a preset grid with the default "
    "radial grids exists (the presets that prescribe their own number of radial shells reject the default radial grid: a "
    "rejection, outside the clause; they are sampled with a radial grid of the prescribed size as a labelled extension)."
)
TECHNIQUE = ("[round 3: interpolate / interpolate_low, _generate_default_rgrid and its parameter table (exact decimals), signature defaults "
             "generated from the source, gen = model and clause theorems over them] Lean 4 proof over a hand model (concatenation / slices / decomposition / store independence / fan-out) + AST "
             "translator for the per-atom selection code and (statement by statement) for __init__, get_atomic_grid, "
             "__getitem__, with gen = model theorems + differential correspondence (generated and hand model vs "
             "implementation on small arrays; constructor-built vs hand-built grids bit for bit) + sampled end-to-end "
             "integration (exploration)")
GEN = ["molgrid"]
LEAN_MODULES = ["GridVerif.Props.C07", "GridVerif.Props.C07.Interp", "GridVerif.Props.C07.DefaultRgrid", "GridVerif.Props.C07.Defaults", "GridVerif.Props.C07.GenInit", "GridVerif.Props.C07.AimRoute"]
THEOREMS = [
    "GridVerif.C07.molgrid_shape",
    "GridVerif.C07.molgrid_slices",
    "GridVerif.C07.weights_spec",
    "GridVerif.C07.aim_array_size",
    "GridVerif.C07.weights_broadcast",
    "GridVerif.C07.integral_decomposes",
    "GridVerif.C07.init_store_false",
    "GridVerif.C07.store_independent",
    "GridVerif.C07.getAtomicGrid_spec",
    "GridVerif.C07.getAtomicGrid_errors",
    "GridVerif.C07.getAtomicGrid_store_independent",
    "GridVerif.C07.getItem_spec",
    "GridVerif.C07.getItem_store_independent_partial",
    "GridVerif.C07.getItem_store_independent_fails_at",
    "GridVerif.C07.getItem_negative_index_fails_at",
    "GridVerif.C07.save_needs_store",
    "GridVerif.C07.fanout_spec",
    "GridVerif.C07.gen_selection_eq_model",
    "GridVerif.C07.call_sites_pinned",
    "GridVerif.C07.fromPreset_eq_hand_built",
    "GridVerif.C07.fromSize_eq_hand_built",
    "GridVerif.C07.prunedSectors_spec",
    "GridVerif.C07.radiusAtom_spec",
    "GridVerif.C07.fromPruned_eq_hand_built",
    "GridVerif.C07.defaultRgrid_spec",
    "GridVerif.C07.defaultRgrid_table_ok",
    # round 2: the constructor and the accessors as generated code (Gen.MolGrid.init_loop / init / getAtomicGrid / getItem)
    "GridVerif.C07.init_loop_step",
    "GridVerif.C07.init_loop_spec",
    "GridVerif.C07.gen_init_eq_model",
    "GridVerif.C07.gen_init_overwrites_zeros",
    "GridVerif.C07.gen_getAtomicGrid_eq_model",
    "GridVerif.C07.gen_getItem_eq_model",
    # round 3: interpolate / interpolate_low, the default radial grids (function and table), signature defaults, save
    "GridVerif.C07.gen_interpolate_low_eq_model",
    "GridVerif.C07.interpolate_low_defaults",
    "GridVerif.C07.gen_interpolate_eq_model",
    "GridVerif.C07.interpolate_needs_store",
    "GridVerif.C07.interpolate_sum_over_atoms",
    "GridVerif.C07.sumInterp_same_shape",
    "GridVerif.C07.defaultRgridParams_npt",
    "GridVerif.C07.gen_defaultRgrid_eq_model",
    "GridVerif.C07.defaultRgrid_rows_ok",
    "GridVerif.C07.defaultRgrid_clause",
    "GridVerif.C07.generate_default_rgrid_spec",
    "GridVerif.C07.signature_defaults_pinned",
    "GridVerif.C07.fromPruned_default_sectors",
    "GridVerif.C07.save_site_pinned",
    # round 6: clauses over the generated definitions that only the generators guarded before
    "GridVerif.C07.gen_aim_eq_model",
    "GridVerif.C07.aim_passed_through_every_route",
    "GridVerif.C07.gen_init_weights_any_aim_array",
    "GridVerif.C07.gen_init_weights_any_aim_callable",
    "GridVerif.C07.gen_init_one_atom",
]
RULE = (
    "correspondence (a) model vs implementation on random small per-atom arrays (1-4 atoms, 0-4 points each, "
    "array / wrong-size array / list / callable aim weights incl. a one-element and a too short callable result): "
    "MolGrid.__init__ attributes, get_atomic_grid and __getitem__ for every index in -natoms-2..natoms+1 and both values "
    "of store, integrate incl. wrong shape, save keys; (b) the model (running the regenerated selection code) decides "
    "which radial grid / preset / radius / sector lists every atom receives or which exception is raised, the harness "
    "builds the AtomGrids by hand accordingly and compares MolGrid(atnums, hand-built, aim, store) with "
    "MolGrid.from_preset / from_size / from_pruned bit for bit (points, weights, atweights, aim_weights, indices, "
    "atcoords; identity of the radial grid objects when stored). Non-trivial = at least 2 atoms and (for (a)) a "
    "non-constant aim weight or a callable, (for (b)) a list or dict argument, a default radial grid, or an exception path. "
    "Oracle (implementation only): index table / segments / weights / integral decomposition with random f / store "
    "independence of attributes, integrals, get_atomic_grid and __getitem__ / fan-out equality against grids built by hand / "
    "default radial grid against rmin*(i+1)^p. EXPLORATION (no theorem): the 1 % clause is sampled over the (preset, element) "
    "combinations for which MolGrid.from_preset(preset, rgrid=None) yields a grid (coarse..insane; sg_1 for Z <= 18) — presets "
    "x 1-5 atoms >= 1.2 bohr apart x exponents 0.3-30 (end points always included) x random charges and rotation seeds. "
    "EXTENSION (outside the clause, never a violation, recorded in coverage.end_to_end_exploration): the shell-count presets "
    "(sg_0, sg_2, sg_3, g1..g7, sg_1 for Z > 18), for which the default radial grid is rejected, are sampled with the "
    "element's default PowerRTransform applied to UniformInteger(n), n = the number of radial points the preset prescribes. "
    "ROUND 2: (a) runs both the generated constructor / accessors (Gen.MolGrid.init, getAtomicGrid, getItem: the text translated "
    "from the current source) and the hand model against the implementation, includes duck-typed atomic grids whose number of "
    "points differs from their number of weights (one point: broadcast by NumPy; else ValueError), aim weights given or returned "
    "as int64 / int32 / float32 / bool / non-contiguous / read-only arrays or lists (weights must be the float64 product, the "
    "given object must be kept unmodified), atnums as list / int32 / float arrays. Oracle additions (implementation vs grids "
    "built by hand from float64 / int64 data, bit for bit; every replay snippet is the oracle itself): input kinds and call "
    "paths of from_preset / from_size / from_pruned one axis at a time and in random combinations (atnums as int32 / uint8 / "
    "list / tuple / float; atcoords as list / float32 / non-contiguous / read-only / Fortran order; the radial grid as one "
    "object, list, list of the same object, list of equal copies, dict keyed by int or np.int64, None; presets as str / list / "
    "dict, upper / mixed case names; rotate 0 / True / False / large / np.int64 / np.int32; store; aim default / explicit Becke / "
    "array; positional / keyword / defaults; radius float / np.float64 / np.float32 / int / list / array / tuple; d_sectors, "
    "s_sectors, both; sizes 1 .. 5810, np.int64 size), both values of store compared, stored radial grid objects compared by "
    "identity, caller's arrays compared before / after; input classes the library rejects consistently are labelled branches "
    "(coverage.input_kinds), not failures; aim weights kinds on MolGrid(...) with integrate(f1, f2, ...), int / bool / float32 / "
    "non-contiguous / read-only integrands, np.int64 / int32 / uint8 indices of get_atomic_grid / __getitem__; every preset "
    "name on elements at the edges of the preset and default-radial-grid tables (Z = 1, 2, 18, 19, 20, 36, 37, 54, 55, 57, 58, "
    "72, 82, 83, 86): MolGrid.from_preset and AtomGrid.from_preset by hand must accept / reject together and agree; call "
    "histories (the same constructors with overlapping arguments in different orders, reversed molecules, shared rgrid / "
    "coordinate objects): every call vs the hand-built grid at that moment, vs the first call with the same arguments, and vs "
    "the same construction alone in a fresh interpreter (hash). oracle_at turns a correspondence disagreement into a property "
    "evaluation at that input. "
    "ROUND 3: correspondence — MolGrid.interpolate(f)(points[, deriv[, deriv_spherical[, only_radial_derivs]]]) on duck-typed atoms with a "
    "synthetic interpolate (the same function in the driver): generated text and hand model vs implementation incl. wrong-size / one-element "
    "f and aim (NumPy broadcasting of `*`), one-value atoms answering (1,) / (3,) arrays (broadcasting and rejection of `+=`), deriv > 3, "
    "store=False, 0-3 optional arguments (generated defaults); the generated signature defaults vs inspect.signature and vs calls leaving the "
    "arguments out (hand-built with the driver's values); the generated _generate_default_rgrid on recording components and every generated "
    "table row (Float value and exact decimal) vs the implementation for Z = 0..99; small-array cases with weights / aim weights / values "
    "scaled by 1e-300 .. 1e12 and points translated by 2^20. Oracle — class 10: every ordered pair of "
    "__getitem__, get_atomic_grid, atgrids, indices, aim_weights, atweights, get_localgrid, points, weights, integrate, atcoords, size on one "
    "new object (a, b, a) for both values of store against the same call on a new object and against independent data; interleaved call "
    "sequences with alternating indices / radii / integrands; query - weights setter - query; class 9: the grid handed out by "
    "get_atomic_grid / __getitem__ / get_localgrid re-weighted and moved by the caller through its setters (and in place where it is the "
    "caller's own stored AtomGrid or a copy) — molecular arrays and integrals unchanged, second answer = first answer; constructor arguments "
    "edited in place afterwards; the alias table of the pinned tree is recorded (coverage.handed_out_alias_table); class 12: every element "
    "whose default-radial-grid row is extreme (min / max rmin, rmax, npt, rmax/rmin, exponent; all rmin within 100x of the smallest: Se, Br) "
    "or at an edge of the table, as one-atom molecules and pairs, all three constructors with rgrid=None vs grids built by hand and vs an "
    "independent closed-form radial grid, aim weights of a one-atom molecule = 1, 1 % Gaussian integral; radial grids with a zero radius, a "
    "single shell, radii 1e-300 .. 1e12, an atom on a grid point of another, centres at the origin / 2^10 / 2^20 away; class 8: aim weights "
    "and integrands over 1e-300 .. 1e150 (results relative to their scale), constructors under exactly representable translations 2^10 .. 2^20 "
    "(hand-built equality bit for bit, atomic weights and index table unchanged, points / aim weights / integrals within rounding of the "
    "shift); class 7: both sides of every guard (atcoords.ndim 0 / 1 / 2 / 3, natoms vs centres -1 / 0 / +1, aim array size -1 / 0 / +1, "
    "get_atomic_grid -1 / 0 / n-1 / n, integrate size -1 / 0 / +1, default radial grid at Z = 0, 1, 57, 58, 71, 72, 82, 83), end-to-end samples "
    "at exactly 1.2 bohr and at exponents within 1 % of 0.3 and 30; class 11: fresh-interpreter first calls with store=True; class 13 does "
    "not apply (no solver). interpolate on real AtomGrids: mg.interpolate(f)(points, ...) = sum over atoms of "
    "AtomGrid.interpolate((aim*f)[segment])(points, ...) for several derivative options and amplitudes 1e-12 .. 1e12. "
    "ROUND 4 (harness/props/c07_r4.py; corr and oracle run as independent crash-proof parts: an exception of one part never hides the others, an "
    "exception raised inside the library on an input of the quantifier is a failure `<key>:raises` with a replay): in every run molecules with "
    "4, 8 and one of 5-7 atoms (all of 4-8 in the thorough tier) of different sizes through MolGrid(...) with BeckeWeights, from_preset, from_size, "
    "from_pruned by degrees and by sizes, both values of store, default / explicit / observing aim-weights callable: AFTER the construction the "
    "index table against running sums computed by the harness, every get_atomic_grid(k) / mg[k] / segment against the hand-built atomic grid, "
    "aim_weights against BeckeWeights on pristine copies, the integral decomposition and interpolate (1, 2 or 4 points, three derivative options) "
    "on the hand-made segments, a second construction from the same argument objects, the first grid unchanged; class 14: radial grids holding "
    "int64 / int32 / uint8 / float32 / float16 / bool / read-only / strided / negative-stride / view arrays handed to every constructor and atomic "
    "grids holding such (and Fortran-ordered, longdouble) arrays handed to MolGrid(...) vs the float64 computation on the same numbers, dtype "
    "included; function values and query points of these kinds for interpolate / integrate; class 15: omitted vs None vs the default spelled out "
    "for rgrid / aim_weights / rotate / store / s_sectors, positional vs keyword for every parameter of the four constructors, get_atomic_grid, "
    "interpolate and its callable, d_sectors and s_sectors both given (valid, other and integer degrees: the sizes win); class 16: atnums / "
    "atcoords / radius as views into larger arrays with guard bytes, one inner sector list for every atom, one radial grid object, nine calls "
    "over the four constructors incl. the same one three times, each vs pristine-copy references, earlier grids unchanged; one aim array for "
    "three grids, one function-value array and one point array for three rounds of integrate / interpolate; class 17: aim-weights callables "
    "returning complex128 / complex64 / longdouble / float32 / float16 / int64 / bool / lists / 0-d array / Python float, complex, int / NumPy bool "
    "and a kind changing from call to call (weights = atweights * returned values exactly, integrals of real and complex f, real / imaginary "
    "parts), complex and longdouble function values for integrate / interpolate (MolGrid = sum over atoms; linearity where the atomic layer is "
    "linear); class 18: 19 rejected constructor calls and 14 rejected requests on one object, in random order, each followed by accepted calls "
    "compared with the answers before any rejection / on a new object, arguments unchanged; class 19: atom pairs H-H, H-Cs, O-H, H-He, Cl-Li "
    "1e-6 .. 1e9 bohr apart with the default radial grids (structure, aim weights finite in [0, 1], 1 % Gaussian integral on 'fine': measured "
    "envelope 0.4 %), radial grids next to the singular end of BeckeRTransform / HandyModRTransform (radii to 4e3 bohr) and a 1e-9 .. 1e-6 bohr "
    "interval through every route; class 20: atoms of pairwise different sizes, 1 / 2 / 4 / 5 query points, molecules with 1 .. 8 atoms in the "
    "small-array and fan-out correspondence. "
    "ROUND 5 (harness/props/c07_r5.py): class 21 — grids of 1025 / 4097 / 20001 / 31234 / 65537 points (two of them per quick run; 2^19 + 1 and "
    "2^20 + 7 in the thorough tier) split over 1-7 LocalGrid atoms of unequal sizes, 17-65 atoms of 1-3 points, Becke weights on ~5000 points of "
    "3 atoms and on 11-17 atoms of 1-5 points (chunks of one or two points), interpolate at 1025 / 1031 (thorough 4097, 20001) evaluation points: "
    "index table, concatenation, per-element probes around every boundary of the index table and of 2^k / 10^k, aim weights atom by atom on "
    "pristine copies, integrate against fsum and against the atomic integrals, integrate(f, g), local grid by brute force, interpolation against "
    "the two parts of a split and against single-point evaluation; class 22 — reversed / shuffled radial grids and the ones MultiExpRTransform / "
    "BeckeRTransform make of Gauss-Legendre / Gauss-Chebyshev nodes (in the order the library produces and sorted) through every route: hand-built "
    "equality, and (rotate=0) the same set of (point, atomic weight, aim weight) and the same integral as with ascending radial points; permuted "
    "atoms (per-atom grids, aim weights, integral permuted); shuffled / reversed / sorted evaluation points of the interpolant; class 23 — atcoords, "
    "radius, aim weights, function values, evaluation points and local-grid centres given directly as longdouble / float32 / float16 / int64 / "
    "int32 arrays: against the float64 answer, argument unchanged, second call with the same object equal to the first (consistent rejections "
    "recorded in coverage.input_kinds); class 25 — atcoords / atnums / radius arrays, sector lists, preset list, radial grids (list, dict, single) "
    "changed in place between calls of the five constructor routes, the aim array, function values, evaluation points, centre array and the list "
    "of atomic grids changed in place between MolGrid(...) / integrate / interpolate / get_localgrid calls: every answer against the call on "
    "fresh copies of the new contents; classes 26 and 24 — two grids differing in one hidden dependency (store, radial grid, a node at r = 0, "
    "Becke order, array vs Becke, degree, radial grid under from_preset) alive together in both orders: answers (arrays, integral, per-atom "
    "grids, local grid, interpolation) against those taken before the other existed, a rebuilt twin, the opposite order and the instance alone "
    "in a fresh interpreter; default radial grids of elements with different numbers of points requested in both orders against the closed form. "
    "Elements without a tabulated Bragg-Slater radius (He, Ne, Ar, Kr, Xe, At, Rn) in molecules of 2-4 atoms, alone and mixed with H / C / O / F, "
    "default weights and BeckeWeights(order=k), preset / from_size / MolGrid(...) routes: aim_weights at probe points of every atom (incl. the point "
    "nearest to each nucleus) against a plain scalar-loop Becke formula with the documented fallback radius (Z-1, then Z-2), weights = atweights * "
    "aim_weights, and for the default order the charge of normalised Gaussians (exponents 10-30) on every nucleus on coarse / medium presets within "
    "1 % (measured on the pinned tree: <= 0.17 %)"
)
TRUSTED_BASE = [
    "Lean 4.33 kernel; axioms propext, Classical.choice, Quot.sound only (audited per theorem)",
    "hand model Model/MolGrid.lean of MolGrid.__init__/get_atomic_grid/__getitem__/integrate/save and of the loops of "
    "from_preset/from_size/from_pruned, tied by correspondence",
    "translator harness/translate/molgrid.py (isinstance chains -> pattern matching on PyArg; call sites as text; "
    "__init__ / get_atomic_grid / __getitem__ statement by statement over the primitives npZeros, npSum, pySetItem, "
    "pySetSlice, pyForEnum, pyGet, pySlice, mulBroadcast, mkLocalGrid of Model/MolGrid.lean, which are hand-written)",
    "NumPy slice assignment / slicing / broadcasting, Python list/dict indexing, zip/enumerate as modelled",
    "round 3 primitives of Model/MolGrid.lean (hand-written): npMul1 (1-D `*` with broadcasting), NdArr / npIAdd (`+=` with NumPy's in-place "
    "broadcasting rule), pyForRange, pyForEach, pySliceFrom, subInterpolate (an AtomGrid has .interpolate, a LocalGrid has not), Dec.val "
    "(a decimal literal as mantissa / 10^scale; at Float within 2 ulp of Python's reading), pyDictIn / pyDictGet; scipy.constants.angstrom and "
    "value('atomic unit of length') enter the generated _generate_default_rgrid as parameters (positive reals in the theorem, SciPy's values "
    "in the correspondence)",
]
ASSUMPTIONS = [
    "AtomGrid (from_preset, from_pruned, __init__) and BeckeWeights are given components (C05, C06): abstract "
    "functions in the model; an atomic grid is its (points, weights, center) with len(points) = len(weights) "
    "(Grid.__init__)",
    "an aim-weight callable is a function of (points, atcoords, atnums, indices) (no hidden state); theorems about the "
    "weights assume it returns one value per grid point (the constructor enforces this for arrays only)",
    "atcoords.ndim != 2 is rejected before the modelled part (checked on a malformed stream)",
    "the 1 % end-to-end clause is exploration: sampled, not proved",
    "AtomGrid.interpolate, UniformInteger, PowerRTransform.transform_1d_grid are given components (C09, C01, C03/C04): abstract functions in "
    "the generated interpolate / _generate_default_rgrid; defaultRgrid_clause states the closed form of the power transform "
    "(points a (x+1)^p, p = ln(b/a)/ln(npt)) as C03 proves it for PowerRTransform",
]

KEY_GETITEM = "molgrid.MolGrid.__getitem__:store"

PRESETS_ALL = ["coarse", "medium", "fine", "veryfine", "ultrafine", "insane", "sg_0", "sg_1", "sg_2", "sg_3",
               "g1", "g2", "g3", "g4", "g5", "g6", "g7"]
ELEMENTS = [1, 6, 7, 8, 9, 15, 16, 17]



# ------------------------------------------------------------------------------------------
# round 4: crash-proof parts.  Every part of corr / oracle runs through `_part`; an exception of one part never hides what the
# others find.  An exception raised *inside the library* (a frame of src/grid in the traceback) on inputs of the property's
# quantifier is a failure of its own ("<key>:raises", with a replay snippet that turns it into an AssertionError); an exception of
# the harness / driver / translator is kept and re-raised after all parts have run.
# ------------------------------------------------------------------------------------------
WRAP_HEAD = "try:\n"
WRAP_TAIL = ("\nexcept AssertionError:\n    raise\nexcept Exception as _e:\n"
             "    raise AssertionError(f'{_KEY}:raises :: ' + type(_e).__name__ + ': ' + str(_e)[:300])\n")


def _from_library(exc) -> bool:
    import traceback
    from ..common import SRC
    root = str(SRC)
    return any(str(fr.filename).startswith(root) for fr in traceback.extract_tb(exc.__traceback__))


def _wrapped(code: str, key: str) -> str:
    """the snippet with every non-assertion exception turned into an AssertionError (for the replay)"""
    body = "\n".join("    " + ln for ln in code.split("\n"))
    return f"_KEY = {key!r}\n" + WRAP_HEAD + body + WRAP_TAIL


def _deferred(ctx):
    if not hasattr(ctx, "_c07_deferred"):
        ctx._c07_deferred = []
    return ctx._c07_deferred


def _exec_snippet(ctx, code, key, witness, filename="<c07>"):
    """exec a replay snippet (the snippet is the oracle). -> (namespace or None if it failed / crashed)"""
    ns = {"__name__": "c07_snippet"}
    try:
        exec(compile(code, filename, "exec"), ns)
        return ns
    except AssertionError as e:
        k, _, what = str(e).partition(" :: ")
        ctx.fail("oracle", k.strip() if what else key, (what or str(e))[:500], witness=witness, snippet=code)
    except Exception as e:  # noqa: BLE001
        if _from_library(e):
            ctx.fail("oracle", key + ":raises", f"the library raises {type(e).__name__}: {str(e)[:300]} on an input of the property's quantifier",
                     witness=witness, snippet=_wrapped(code, key))
        else:
            import traceback
            _deferred(ctx).append((key, e, traceback.format_exc()[-1500:]))
            ctx.info(f"harness exception in a snippet of {key} (kept, re-raised after all parts): {type(e).__name__}: {str(e)[:200]}")
    return None


def _part(ctx, stage, name, fn):
    """run one independent part of corr / oracle"""
    from ..common import DriverError
    try:
        fn()
    except DriverError as e:
        _deferred(ctx).append((name, e, str(e)[-1500:]))
        ctx.info(f"{stage} part {name}: driver unusable ({str(e)[:200]}); the implementation-only parts still run")
    except Exception as e:  # noqa: BLE001
        import traceback
        if _from_library(e) and stage == "oracle":
            ctx.fail("oracle", f"molgrid:{name}:raises", f"the library raises {type(e).__name__}: {str(e)[:300]} inside the oracle part {name} "
                     "(inputs of the property's quantifier)", witness=traceback.format_exc()[-1500:])
        else:
            _deferred(ctx).append((name, e, traceback.format_exc()[-1500:]))
            ctx.info(f"{stage} part {name} raised {type(e).__name__}: {str(e)[:200]} (kept, re-raised after all parts)")


def _reraise(ctx, stage):
    d = _deferred(ctx)
    if d:
        name, e, tb = d[0]
        ctx._c07_deferred = []
        from ..common import DriverError
        if isinstance(e, DriverError):
            raise e
        raise RuntimeError(f"{stage}: {len(d)} part(s) crashed in the harness; first: {name}: {type(e).__name__}: {e}\n{tb}") from e


def _mods():
    mg = importlib.import_module("grid.molgrid")
    ag = importlib.import_module("grid.atomgrid")
    bg = importlib.import_module("grid.basegrid")
    bk = importlib.import_module("grid.becke")
    od = importlib.import_module("grid.onedgrid")
    return mg, ag, bg, bk, od


def _tag(e):
    return {ValueError: "value-error", TypeError: "type-error", IndexError: "index-error",
            KeyError: "key-error"}.get(type(e), "exc:" + type(e).__name__)


def _beq(a, b):
    """bit-for-bit equality of two float arrays (nan == nan)."""
    a = np.asarray(a, dtype=float)
    b = np.asarray(b, dtype=float)
    return a.shape == b.shape and np.array_equal(a.view(np.uint64) if a.size else a, b.view(np.uint64) if b.size else b)


# ------------------------------------------------------------------------------------------
# (a) model vs implementation on small arrays
# ------------------------------------------------------------------------------------------
def _fmat3(rows):
    rows = [list(r) for r in rows]
    return " ".join([str(len(rows)), "3"] + [f2b(x) for r in rows for x in r])


# always-run edge cases of the constructor: (points per atom, aim kind, length of the aim array / callable result or None).
# Thresholds of the size guard and of NumPy's broadcasting: empty grids, one-point grids, lengths size-1, size, size+1, 1.
FORCED_SMALL = [
    ([0], "arrbad", 1), ([0], "arr", None), ([0, 0], "arrbad", 1), ([0, 0], "arrbad", 2), ([0], "cb1", None), ([0], "cbarr", 2),
    ([1], "arrbad", 2), ([1], "arrbad", 0), ([1], "cbarr", 2), ([1], "cbarr", 0), ([1], "cb1", None), ([1, 0], "cbarr", 3),
    ([2], "arrbad", 1), ([2], "arrbad", 3), ([2], "cb1", None), ([2], "cbarr", 1), ([2], "cbarr", 3), ([1, 0, 2], "arrbad", 1),
    ([1, 1], "arrbad", 1), ([3, 0, 1], "arr", None), ([0, 2, 0], "cbZ", None), ([2, 2], "cbshort", None), ([1], "cbshort", None),
    ([], "arr", None), ([], "cbZ", None), ([], "other", None), ([1, 2], "other", None),
]


def _small_case(ctx: Ctx, bg, forced=None):
    rng = ctx.rng
    n = rng.choice([0, 1, 1, 1, 2, 2, 2, 2, 3, 3, 3, 4, 4, 5, 6, 8]) if forced is None else len(forced[0])    # round 4: up to 8 atoms
    grids, parts = [], []
    duck = False
    mag = None
    if forced is None and rng.random() < 0.15:
        mag = (rng.choice([1e-300, 1e-50, 1e-12, 1e12]), rng.choice([0.0, 2.0 ** 20]))
    for ia in range(n):
        k = rng.choice([0, 1, 1, 2, 2, 3, 4]) if forced is None else forced[0][ia]
        kp = k
        if forced is None and rng.random() < 0.06:
            # a duck-typed "atomic grid" whose number of points differs from its number of weights (a Grid object cannot
            # be built like that): NumPy broadcasts a single point over the segment and rejects everything else
            kp = rng.choice([x for x in (0, 1, 1, 1, 2, 3) if x != k])
            duck = True
        pts = np.array([[rng.uniform(-3, 3) for _ in range(3)] for _ in range(kp)], dtype=float).reshape(kp, 3)
        w = np.array([rng.choice([rng.uniform(0.01, 2.0), rng.uniform(-1, 1)]) for _ in range(k)], dtype=float)
        c = np.array([rng.uniform(-2, 2) for _ in range(3)])
        if mag is not None:
            # round 3, class 8: weights over 24 orders of magnitude and far below machine epsilon, centres 2^20 away
            w = w * mag[0]
            pts, c = pts + mag[1], c + mag[1]
        if kp == k:
            grids.append(bg.LocalGrid(pts, w, c))
        else:
            grids.append(types.SimpleNamespace(points=pts, weights=w, center=c, size=w.size))
        parts.append(f"{_fmat3(pts)} {fvec(w)} {fvec(c)}")
    size = sum(g.size for g in grids)
    atnums = [rng.choice(ELEMENTS) for _ in range(n)]
    kind = rng.choice(["arr", "arr", "arr", "arr1", "arrbad", "other", "cbZ", "cbZ", "cb1", "cbshort", "arrk", "arrk", "cbarr", "cbarr"])
    aimvals = None
    if forced is not None:
        kind = forced[1]
    if kind == "arr":
        a = np.array([rng.uniform(0, 1) for _ in range(size)])
        if mag is not None:
            a = a * rng.choice([1.0, 1e-300, 1e12])
            if size:
                a[rng.randrange(size)] = rng.choice([0.0, 5e-324, 1e-300])
        aim, aimtok = a, "arr " + fvec(a)
    elif kind in ("arrk", "cbarr"):
        # the same numbers in another dtype / container / memory layout: the model gets their float64 values
        sub = rng.choice(["int64", "int32", "float32", "bool", "noncontig", "readonly"] + (["list", "badlen"] if kind == "cbarr" else []))
        m = size if sub != "badlen" else size + rng.choice([1, 2])
        if forced is not None and forced[2] is not None:
            sub, m = "len", forced[2]
        if sub in ("int64", "int32"):
            vals = np.array([rng.randrange(0, 4) for _ in range(m)], dtype=float)
        elif sub == "bool":
            vals = np.array([rng.randrange(0, 2) for _ in range(m)], dtype=float)
        else:
            vals = np.array([rng.uniform(0, 1) for _ in range(m)]).astype(np.float32).astype(float)
        if sub in ("int64", "int32", "float32", "bool"):
            obj = vals.astype(sub)
        elif sub == "noncontig":
            obj = np.repeat(vals, 2)[::2]
        elif sub == "readonly":
            obj = vals.copy()
            obj.setflags(write=False)
        elif sub == "list":
            obj = vals.tolist()
        else:
            obj = vals.copy()
        if kind == "arrk":
            aim, aimtok = obj, "arr " + fvec(vals)
        else:
            aim, aimtok = (lambda p, c, z, i, obj=obj: obj), "cbarr " + fvec(vals)
        kind = f"{kind}:{sub}"
        aimvals = (obj, copy.deepcopy(obj))
    elif kind == "arr1":
        a = np.ones(size)
        aim, aimtok = a, "arr " + fvec(a)
    elif kind == "arrbad":
        m = max(0, size + rng.choice([-1, 1, 2])) if forced is None else forced[2]
        a = np.array([rng.uniform(0, 1) for _ in range(m)])
        aim, aimtok = a, "arr " + fvec(a)
    elif kind == "other":
        aim, aimtok = [0.5] * size, "other"
    elif kind == "cbZ":
        def aim(points, atcoords, nums, indices):
            out = np.zeros(len(points))
            for k in range(len(indices) - 1):
                out[indices[k]:indices[k + 1]] = 1.0 / (1.0 + float(nums[k]))
            return out
        aimtok = "cbZ"
    elif kind == "cb1":
        c1 = rng.uniform(0.1, 0.9)
        aim, aimtok = (lambda p, c, z, i, c1=c1: np.array([c1])), "cb1 " + f2b(c1)
    else:
        aim, aimtok = (lambda p, c, z, i: np.ones(max(len(p) - 1, 0))), "cbshort"
    base_kind = kind.split(":")[0]
    if base_kind in ("arr", "arr1", "arrbad"):
        aimspec = ("array", [float(x) for x in aim])
    elif base_kind in ("arrk", "cbarr"):
        aimspec = ("array" if base_kind == "arrk" else "callable", [float(x) for x in np.asarray(aimvals[1], dtype=float)])
    elif base_kind == "cb1":
        aimspec = ("callable", [float(c1)])
    else:
        aimspec = ({"cbZ": "cbZ", "cbshort": "callable-short", "other": "other"}[base_kind], None)
    body = f"{aimtok} {vec(atnums)} {n} " + " ".join(parts)
    atk = rng.choice(["int64", "int64", "int32", "list", "float64"])
    if mag is not None:
        kind = kind + ":mag"
    return dict(n=n, grids=grids, atnums=atnums, aim=aim, kind=kind, size=size, body=body, duck=duck, aimvals=aimvals, atk=atk, aimspec=aimspec,
                mag=mag)


def _impl_init(mg, case, store):
    atk = case.get("atk", "int64")
    atnums = list(case["atnums"]) if atk == "list" else np.array(case["atnums"], dtype=atk)   # only the callable sees them
    try:
        m = mg.MolGrid(atnums, case["grids"], case["aim"], store=store)
    except Exception as e:  # noqa: BLE001
        return _tag(e), None
    return "ok", m


def _cmp_sub(tok: Tokens, g, is_stored_obj):
    """compare the model's `ok isAtom points weights center` with the object handed back"""
    is_atom = tok.nat()
    pts = tok.fmat()
    w = tok.fvec()
    c = tok.fvec()
    if bool(is_atom) != bool(is_stored_obj):
        return "type (stored AtomGrid object vs LocalGrid)"
    if not _beq(np.array(pts).reshape(len(pts), 3), g.points):
        return "points"
    if not _beq(w, g.weights):
        return "weights"
    if not _beq(c, g.center):
        return "center"
    return None


def _corr_small(ctx: Ctx, mg, bg):
    ncase = ctx.n(140, 2500)
    cases = [_small_case(ctx, bg, forced=f) for f in FORCED_SMALL] + [_small_case(ctx, bg) for _ in range(ncase)]
    lines, meta = [], []
    for ci, case in enumerate(cases):
        for store in (False, True):
            spec = f"{int(store)} {case['body']}"
            n = case["n"]
            # "" = the generated constructor / accessors (Gen.MolGrid.*, translated from the current source),
            # "h" = the hand model the theorems are stated about
            for pre in ("", "h"):
                lines.append(f"C07.{pre}init " + spec)
                meta.append((ci, store, pre + "init", None))
                for idx in range(-n - 2, n + 2):
                    for which in ("atomic", "item"):
                        lines.append(f"C07.{pre}get {which} {idx} {spec}")
                        meta.append((ci, store, pre + which, idx))
            f = np.array([ctx.rng.uniform(-2, 2) for _ in range(case["size"])])
            if case.get("mag") is not None:
                f = f * ctx.rng.choice([1.0, 1e-12, 1e12, 1e150])
            lines.append(f"C07.integrate {fvec(f)} {spec}")
            meta.append((ci, store, "integrate", f))
            fb = np.ones(case["size"] + 1)
            lines.append(f"C07.integrate {fvec(fb)} {spec}")
            meta.append((ci, store, "integrate", fb))
    answers = driver_batch(lines)
    built = {}
    for (ci, store, op, arg), ans in zip(meta, answers):
        case = cases[ci]
        side = "gen"
        if op in ("hinit", "hatomic", "hitem"):
            op, side = op[1:], "hand"
        if (ci, store) not in built:
            built[(ci, store)] = _impl_init(mg, case, store)
        status, m = built[(ci, store)]
        nontriv = case["n"] >= 2 and case["kind"].split(":")[0] in ("arr", "cbZ", "cb1", "arrk", "cbarr")
        canon = [op, side, int(store), case["kind"], case["atnums"], [g.size for g in case["grids"]],
                 [len(g.points) for g in case["grids"]], arg if not isinstance(arg, np.ndarray) else len(arg)]
        wit = {"op": op, "model_side": side, "store": store, "aim": case["kind"], "atnums": case["atnums"],
               "sizes": [g.size for g in case["grids"]], "npoints": [len(g.points) for g in case["grids"]],
               "grids": [[g.points, g.weights, g.center] for g in case["grids"]], "aimspec": case["aimspec"], "arg": arg,
               "model": ans[:300]}
        dk = ":duck" if case["duck"] else ""
        mdl = "generated model (Gen.MolGrid)" if side == "gen" else "hand model"
        if op == "init":
            ctx.count(canon, nontrivial=nontriv, tag=f"init:{side}:{case['kind']}{dk}:" + ("ok" if status == "ok" else status))
            if status != "ok":
                if ans != status:
                    ctx.fail("corr", "init:error", f"MolGrid(...) raised {status}, {mdl} answers {ans[:60]}", witness=wit)
                continue
            if not ans.startswith("ok "):
                ctx.fail("corr", "init:error", f"MolGrid(...) succeeded, {mdl} answers {ans}", witness=wit)
                continue
            t = Tokens(ans)
            t.tok()
            ind = t.vec(int)
            pts = t.fmat()
            w, atw, aimw = t.fvec(), t.fvec(), t.fvec()
            atc = t.fmat()
            stored = t.nat()
            bad = None
            if ind != [int(x) for x in m.indices]:
                bad = f"indices {ind} vs {list(m.indices)}"
            elif not _beq(np.array(pts).reshape(len(pts), 3), m.points):
                bad = "points"
            elif not _beq(w, m.weights):
                bad = f"weights {w} vs {m.weights.tolist()}"
            elif not _beq(atw, m.atweights):
                bad = "atweights"
            elif not _beq(aimw, np.asarray(m.aim_weights, dtype=float)):
                bad = "aim_weights"
            elif not _beq(np.array(atc).reshape(len(atc), 3), m.atcoords):
                bad = "atcoords"
            elif bool(stored) != (m.atgrids is not None):
                bad = "atgrids stored / not stored"
            elif m.size != len(w):
                bad = "size"
            elif m.weights.dtype != np.float64:
                bad = f"dtype of weights is {m.weights.dtype}"
            elif case["aimvals"] is not None and not (
                    m.aim_weights is case["aimvals"][0] and type(case["aimvals"][0]) is type(case["aimvals"][1])
                    and np.array_equal(np.asarray(case["aimvals"][0]), np.asarray(case["aimvals"][1]))
                    and getattr(case["aimvals"][0], "dtype", None) == getattr(case["aimvals"][1], "dtype", None)):
                bad = "aim-object modified or replaced (the given / returned aim weights must be kept as they are)"
            if bad:
                ctx.fail("corr", "init:" + bad.split()[0], f"MolGrid.__init__ vs {mdl}: {bad}", witness=wit)
            continue
        if status != "ok":
            # every operation of the model on a failed construction repeats the constructor's error
            if ans != status:
                ctx.fail("corr", f"{op}:after-error", f"constructor raised {status}, {mdl} op answers {ans[:60]}", witness=wit)
            continue
        if op in ("atomic", "item"):
            try:
                g = m.get_atomic_grid(arg) if op == "atomic" else m[arg]
                impl = "ok"
            except Exception as e:  # noqa: BLE001
                impl, g = _tag(e), None
            branch = "neg" if arg < 0 else ("in" if arg < case["n"] else "beyond")
            ctx.count(canon, nontrivial=nontriv, tag=f"{op}:{side}:store={int(store)}:{branch}:{impl if impl != 'ok' else 'ok'}")
            if impl != "ok":
                if ans != impl:
                    ctx.fail("corr", f"{op}:error", f"{op}({arg}) store={store}: implementation {impl}, {mdl} {ans[:60]}", witness=wit)
                continue
            if not ans.startswith("ok "):
                ctx.fail("corr", f"{op}:error", f"{op}({arg}) store={store}: implementation returned a grid, {mdl} {ans}", witness=wit)
                continue
            t = Tokens(ans)
            t.tok()
            bad = _cmp_sub(t, g, any(g is a for a in case["grids"]))
            if bad:
                ctx.fail("corr", f"{op}:{bad.split()[0]}", f"{op}({arg}) store={store}: {bad} differ between implementation and {mdl}", witness=wit)
            continue
        if op == "integrate":
            try:
                val = float(m.integrate(arg))
                impl = "ok"
            except Exception as e:  # noqa: BLE001
                impl = _tag(e)
            ctx.count(canon, nontrivial=nontriv, tag=f"integrate:{impl}")
            if impl != "ok":
                if ans != impl:
                    ctx.fail("corr", "integrate:error", f"integrate: implementation {impl}, {mdl} {ans[:60]}", witness=wit)
                continue
            if not ans.startswith("ok "):
                ctx.fail("corr", "integrate:error", f"integrate: implementation {val}, {mdl} {ans}", witness=wit)
                continue
            t = Tokens(ans)
            t.tok()
            mv = t.flt()
            scale = float(np.sum(np.abs(m.weights * arg))) if len(arg) == m.size else 1.0
            if not close(val, mv, rtol=1e-13, atol=1e-300, scale=max(scale, 1e-300)):
                ctx.fail("corr", "integrate:value", f"integrate: implementation {val!r}, {mdl} {mv!r}", witness=wit)


# ------------------------------------------------------------------------------------------
# (b) fan-out: constructor-built vs hand-built according to the model's selection
# ------------------------------------------------------------------------------------------
class Pool:
    def __init__(self, mg, od):
        self.rg = {k + 1: od.GaussLaguerre(n) for k, n in enumerate((4, 5, 6, 7))}
        self.mg = mg
        self._dflt = {}
        self.presets = {1: "coarse", 2: "medium", 3: "fine", 4: "veryfine"}
        self.radii = {1: 0.7, 2: 1.0, 3: 1.4, 4: 2.1}
        self.rsec = [[], [0.5], [0.5, 1.0], [0.4, 0.9, 1.6]]
        self.dsec = [[5], [3, 7], [3, 5, 9], [3, 5, 7, 11]]
        self.ssec = [[14], [6, 26], [6, 14, 38], [6, 14, 26, 50]]
        self.sizes = [6, 14, 26, 38]

    def rgrid(self, ident):
        if ident >= 1000:
            if ident not in self._dflt:
                self._dflt[ident] = self.mg._generate_default_rgrid(ident - 1000)
            return self._dflt[ident]
        return self.rg[ident]


def _arg(ctx, ids_fn, n, atnums, allow_none, py_of, errors=0.2, plain=("obj", "list", "dict")):
    """-> (token string, python object, kind). ids_fn() draws an identifier; `errors` = share of the
    short-list / missing-key / unsupported-type variants."""
    rng = ctx.rng
    if rng.random() < errors:
        kind = rng.choice(["listshort", "dictmiss", "other"])
    else:
        kind = rng.choice(list(plain) + ["listlong"] + (["none", "none"] if allow_none else []))
    if kind == "obj":
        i = ids_fn()
        return f"obj {i}", py_of(i), kind
    if kind in ("list", "listshort", "listlong"):
        m = {"list": n, "listshort": max(0, n - 1), "listlong": n + 1}[kind]
        ids = [ids_fn() for _ in range(m)]
        return "list " + vec(ids), [py_of(i) for i in ids], kind
    if kind in ("dict", "dictmiss"):
        keys = sorted(set(atnums))
        if kind == "dictmiss":
            drop = rng.choice(keys)
            keys = [k for k in keys if k != drop] + [99]
        d = {k: ids_fn() for k in keys}
        flat = [x for k, v in d.items() for x in (k, v)]
        return "dict " + vec(flat), {k: py_of(v) for k, v in d.items()}, kind
    if kind == "none":
        return "none", None, kind
    bad = rng.choice([(1, 2), 3.5, {1, 2}])
    return "other", bad, kind


def _mol(ctx, n):
    """n centres at least 1.2 bohr apart"""
    pts = []
    while len(pts) < n:
        p = np.array([ctx.rng.uniform(-2.5, 2.5) for _ in range(3)])
        if all(np.linalg.norm(p - q) >= 1.2 for q in pts):
            pts.append(p)
    return np.array(pts).reshape(n, 3)


def _aim_choice(ctx, bk):
    r = ctx.rng.random()
    if r < 0.4:
        return None, "default"
    if r < 0.7:
        return bk.BeckeWeights(order=ctx.rng.choice([2, 3])), "becke"
    return "array", "array"


def _compare_molgrids(ctx, name, got, ref, wit):
    for attr in ("indices", "points", "weights", "atweights", "aim_weights", "atcoords"):
        a, b = getattr(got, attr), getattr(ref, attr)
        if attr == "indices":
            same = list(map(int, a)) == list(map(int, b))
        else:
            same = _beq(a, b)
        if not same:
            dev = float(np.max(np.abs(np.asarray(a, float) - np.asarray(b, float)))) if np.shape(a) == np.shape(b) else "shape"
            ctx.fail("corr", f"{name}:{attr}", f"MolGrid.{name}(...) and the hand-built MolGrid differ in {attr} (max dev {dev})", witness=wit)
            return False
    return True


def _run_fanout(ctx, name, mg, ag, bk, pool, line, call, hand, atnums, atcoords, store, aimkind, aim, nontriv, canon, ans):
    """call(aim) -> MolGrid via the convenience constructor; hand(sel) -> AtomGrid built by hand from one atom's
    model selection; ans = model answer."""
    wit = {"constructor": name, "line": line, "model": ans[:200], "atnums": atnums, "coords": atcoords, "store": store, "canon": canon}
    # aim weights as an array need the size: take it from a first construction with Becke weights
    def build(a):
        try:
            return "ok", call(a)
        except Exception as e:  # noqa: BLE001
            return _tag(e), None
    if aimkind == "array":
        st0, g0 = build(None)
        if st0 == "ok":
            aim = np.array([ctx.rng.uniform(0, 1) for _ in range(g0.size)])
        else:
            aim = None
    status, got = build(aim)
    width = {"from_preset": 4, "from_size": 2, "from_pruned": 6}[name]
    t = Tokens(ans)
    head = t.tok()
    if head == "ok":
        t.vec(int)  # the model's index table of the recording grids (not used)
        model_err = None
    else:
        model_err = head
        t.nat()  # number of atoms built before the exception
    flat = t.vec(int)
    sels = [flat[i:i + width] for i in range(0, len(flat), width)]
    # build by hand what the model says was built (all atoms, or those before the model's exception);
    # the real AtomGrid constructor may raise earlier than the abstract one of the model
    hand_grids, herr = [], None
    for sel in sels:
        try:
            hand_grids.append(hand(sel))
        except Exception as e:  # noqa: BLE001
            herr = _tag(e)
            break
    if herr is not None:
        tag_branch = "atomgrid-" + herr
        if status != herr:
            ctx.fail("corr", f"{name}:error", f"hand-built AtomGrid raises {herr}, MolGrid.{name} gives {status}", witness=wit)
    elif model_err is not None:
        tag_branch = model_err
        if status != model_err:
            ctx.fail("corr", f"{name}:error", f"MolGrid.{name}: {status}, model (regenerated selection code): {model_err}", witness=wit)
    else:
        tag_branch = "ok"
        try:
            ref = mg.MolGrid(np.array(atnums), hand_grids, aim if aim is not None else bk.BeckeWeights(order=3), store=store)
            rst = "ok"
        except Exception as e:  # noqa: BLE001
            rst, ref = _tag(e), None
        if rst != status:
            ctx.fail("corr", f"{name}:error", f"hand-built MolGrid: {rst}, MolGrid.{name}: {status}", witness=wit)
        elif rst == "ok":
            if _compare_molgrids(ctx, name, got, ref, wit) and store:
                for i, (a, b, sel) in enumerate(zip(got.atgrids, hand_grids, sels)):
                    rid = sel[{"from_preset": 2, "from_size": 0, "from_pruned": 0}[name]]
                    same = (a.rgrid is b.rgrid) if rid < 1000 else (_beq(a.rgrid.points, b.rgrid.points) and _beq(a.rgrid.weights, b.rgrid.weights))
                    if not same:
                        ctx.fail("corr", f"{name}:rgrid-identity", f"atom {i} did not receive the selected radial grid object", witness=wit)
                        break
            if (got.atgrids is not None) != store:
                ctx.fail("corr", f"{name}:store", "atgrids attribute does not follow `store`", witness=wit)
        else:
            tag_branch = "molgrid-" + rst
    ctx.count(canon, nontrivial=nontriv, tag=f"{name}:{tag_branch}")


def _corr_fanout(ctx: Ctx, mg, ag, bk, od):
    pool = Pool(mg, od)
    rng = ctx.rng
    jobs = []
    # ---------------- from_preset
    for _ in range(ctx.n(160, 2000)):
        n = rng.choice([1, 2, 2, 3, 3, 4])
        atnums = [rng.choice(ELEMENTS + ([58] if rng.random() < 0.1 else [])) for _ in range(n)]
        nc = n if rng.random() < 0.93 else n + rng.choice([-1, 1])
        if nc < 1:
            nc = n
        atcoords = _mol(ctx, nc)
        ptok, ppy, pk = _arg(ctx, lambda: rng.choice([1, 2, 3, 4]), n, atnums, False, lambda i: pool.presets[i])
        rtok, rpy, rk = _arg(ctx, lambda: rng.choice([1, 2, 3, 4]), n, atnums, True, pool.rgrid)
        rotate = rng.choice([0, 37, rng.randrange(1, 10 ** 6)])
        store = rng.random() < 0.5
        aim, aimkind = _aim_choice(ctx, bk)
        line = f"C07.preset {vec(atnums)} {nc} {ptok} {rtok}"

        def call(a, atnums=atnums, atcoords=atcoords, ppy=ppy, rpy=rpy, rotate=rotate, store=store):
            return mg.MolGrid.from_preset(np.array(atnums), atcoords, ppy, rpy, a, rotate=rotate, store=store)

        def hand(sel, atcoords=atcoords, rotate=rotate):
            z, gd, rad, c = sel
            return ag.AtomGrid.from_preset(atnum=z, preset=pool.presets[gd], rgrid=pool.rgrid(rad), center=atcoords[c], rotate=rotate)

        nontriv = n >= 2 and not (pk == "obj" and rk == "obj")
        jobs.append(("from_preset", line, call, hand, atnums, atcoords, store, aimkind, aim, nontriv,
                     ["from_preset", atnums, nc, ptok, rtok, rotate, int(store), aimkind]))
    # ---------------- from_size
    for _ in range(ctx.n(80, 1000)):
        n = rng.choice([1, 2, 2, 3, 4, 5, 8])
        atnums = [rng.choice(ELEMENTS + ([58] if rng.random() < 0.1 else [])) for _ in range(n)]
        nc = n if rng.random() < 0.8 else max(1, n + rng.choice([-1, 1]))
        atcoords = _mol(ctx, nc)
        rtok, rpy, rk = _arg(ctx, lambda: rng.choice([1, 2, 3, 4]), n, atnums, True, pool.rgrid, errors=0.1,
                             plain=("obj", "obj", "obj", "obj", "list", "dict"))
        size = rng.choice(pool.sizes)
        rotate = rng.choice([0, 37, rng.randrange(1, 10 ** 6)])
        store = rng.random() < 0.5
        aim, aimkind = _aim_choice(ctx, bk)
        if nc != n and aimkind != "array":
            # Becke weights need as many numbers as centres; the zip truncation is observable with array weights
            aimkind = "array"
        line = f"C07.size {vec(atnums)} {nc} {rtok}"

        def call(a, atnums=atnums, atcoords=atcoords, rpy=rpy, rotate=rotate, store=store, size=size, n=n, nc=nc):
            if a is None and n != nc:
                a = lambda p, c, z, i: np.ones(len(p))  # noqa: E731
            return mg.MolGrid.from_size(np.array(atnums), atcoords, size, rpy, a, rotate=rotate, store=store)

        def hand(sel, atcoords=atcoords, rotate=rotate, size=size):
            rad, c = sel
            return ag.AtomGrid(pool.rgrid(rad), degrees=None, sizes=[size], center=atcoords[c], rotate=rotate)

        nontriv = n >= 2 and rk != "obj"
        jobs.append(("from_size", line, call, hand, atnums, atcoords, store, aimkind, aim, nontriv,
                     ["from_size", atnums, nc, rtok, size, rotate, int(store), aimkind]))
    # ---------------- from_pruned
    for _ in range(ctx.n(200, 2500)):
        n = rng.choice([1, 2, 2, 3, 3, 4, 6])
        atnums = [rng.choice(ELEMENTS + ([58] if rng.random() < 0.05 else [])) for _ in range(n)]
        nc = n if rng.random() < 0.96 else max(1, n + rng.choice([-1, 1]))
        atcoords = _mol(ctx, nc)
        rtok, rpy, rk = _arg(ctx, lambda: rng.choice([1, 2, 3, 4]), n, atnums, True, pool.rgrid, errors=0.1)
        nr = nc if rng.random() < 0.93 else max(0, nc + rng.choice([-1, 1]))
        rs_ids = [rng.randrange(4) for _ in range(nr)]
        r_sectors = [pool.rsec[i] for i in rs_ids]
        rk2 = rng.choice(["float", "float", "float", "list", "list", "list", "npfloat", "array", "array"] + (["listshort", "other"] if rng.random() < 0.3 else []))
        if rk2 in ("float", "npfloat"):
            rid = rng.choice([1, 2, 3, 4])
            radius = pool.radii[rid] if rk2 == "float" else np.float64(pool.radii[rid])
            radtok, rad_of = f"float {rid}", (lambda i, rid=rid: pool.radii[rid])
        elif rk2 in ("list", "listshort", "array"):
            m = nc if rk2 != "listshort" else max(0, nc - 1)
            rl = [rng.choice([1, 2, 3, 4]) for _ in range(m)]
            radius = [pool.radii[i] for i in rl]
            if rk2 == "array":
                radius = np.array(radius)
            radtok, rad_of = "list " + vec(rl), (lambda i: pool.radii[i])
        else:
            radius, radtok, rad_of = 1, "other", None
        dk = rng.choice(["list"] * 12 + ["int", "listbadlen", "mismatch"])
        if dk == "int":
            d_sectors, dtok = rng.choice([50, np.int64(30)]), "int 50"
            d_of = lambda i, d_sectors=d_sectors: d_sectors  # noqa: E731
        else:
            m = nr if dk != "listbadlen" else nr + 1
            if dk == "mismatch":
                d_sectors = [pool.dsec[rng.randrange(4)] for _ in range(m)]
            else:
                d_sectors = [pool.dsec[len(r_sectors[i])] if i < nr else [5] for i in range(m)]
            dtok = "list " + vec(range(m))
            d_of = lambda i, d_sectors=d_sectors: d_sectors[i]  # noqa: E731
        sk = rng.choice(["none"] * 8 + ["list"] * 5 + ["int", "listbadlen"])
        if sk == "none":
            s_sectors, stok, s_of = None, "none", None
        elif sk == "int":
            s_sectors, stok, s_of = 26, "int", None
        else:
            m = nr if sk == "list" else nr + 1
            s_sectors = [pool.ssec[len(r_sectors[i])] if i < nr else [6] for i in range(m)]
            stok = "list " + vec(range(m))
            s_of = lambda i, s_sectors=s_sectors: s_sectors[i]  # noqa: E731
        rotate = rng.choice([0, 37, rng.randrange(1, 10 ** 6)])
        store = rng.random() < 0.5
        aim, aimkind = _aim_choice(ctx, bk)
        line = f"C07.pruned {vec(atnums)} {nc} {radtok} {nr} {dtok} {stok} {rtok}"

        def call(a, atnums=atnums, atcoords=atcoords, radius=radius, r_sectors=r_sectors, d_sectors=d_sectors,
                 s_sectors=s_sectors, rpy=rpy, rotate=rotate, store=store):
            return mg.MolGrid.from_pruned(np.array(atnums), atcoords, radius, r_sectors, d_sectors,
                                          s_sectors=s_sectors, rgrid=rpy, aim_weights=a, rotate=rotate, store=store)

        def hand(sel, atcoords=atcoords, rotate=rotate, r_sectors=r_sectors, rad_of=rad_of, d_of=d_of, s_of=s_of):
            rad, ra, rs, ds, ss, c = sel
            return ag.AtomGrid.from_pruned(pool.rgrid(rad), rad_of(ra), r_sectors=r_sectors[rs],
                                           d_sectors=None if ds == 0 else d_of(ds - 1),
                                           s_sectors=None if ss == 0 else s_of(ss - 1),
                                           center=atcoords[c], rotate=rotate)

        nontriv = n >= 2 and (rk != "obj" or rk2 in ("list", "array") or sk == "list")
        jobs.append(("from_pruned", line, call, hand, atnums, atcoords, store, aimkind, aim, nontriv,
                     ["from_pruned", atnums, nc, radtok, rs_ids, dk, sk, rtok, rotate, int(store), aimkind]))
    answers = driver_batch([j[1] for j in jobs])
    for j, ans in zip(jobs, answers):
        name, line, call, hand, atnums, atcoords, store, aimkind, aim, nontriv, canon = j
        _run_fanout(ctx, name, mg, ag, bk, pool, line, call, hand, atnums, atcoords, store, aimkind, aim, nontriv, canon, ans)
    # malformed stream: atcoords.ndim != 2 is rejected before the modelled part
    for ctor in ("from_preset", "from_pruned"):
        try:
            if ctor == "from_preset":
                mg.MolGrid.from_preset(np.array([1]), np.zeros(3), "coarse", pool.rg[1])
            else:
                mg.MolGrid.from_pruned(np.array([1]), np.zeros(3), 1.0, [[]], [[5]], rgrid=pool.rg[1])
            r = "ok"
        except Exception as e:  # noqa: BLE001
            r = _tag(e)
        ctx.count([ctor, "ndim1"], nontrivial=False, tag="malformed")
        if r != "value-error":
            ctx.fail("corr", f"{ctor}:malformed", f"1-D atcoords not rejected with ValueError: {r}")
    # _generate_default_rgrid: domain and size against the regenerated table
    zs = list(range(0, 100))
    ans = driver_batch([f"C07.defaultRgrid {z}" for z in zs])
    for z, a in zip(zs, ans):
        try:
            impl = f"ok {mg._generate_default_rgrid(z).size}"
        except Exception as e:  # noqa: BLE001
            impl = _tag(e)
        ctx.count(["defaultRgrid", z], nontrivial=False, tag="defaultRgrid:" + impl.split()[0])
        if impl != a:
            ctx.fail("corr", "defaultRgrid", f"_generate_default_rgrid({z}): implementation {impl}, model {a}")


def _corr_save(ctx: Ctx, mg, ag, od):
    rg = od.GaussLaguerre(4)
    for n in (1, 2, 3):
        ats = [ag.AtomGrid(rg, degrees=[3], center=np.array([0.0, 0.0, 2.0 * i])) for i in range(n)]
        aim = np.ones(sum(a.size for a in ats))
        for store in (False, True):
            buf = io.BytesIO()
            try:
                m = mg.MolGrid(np.array([1] * n), ats, aim, store=store)
                m.save(buf)
                buf.seek(0)
                with np.load(buf) as z:
                    impl = "ok " + " ".join([str(len(z.files))] + list(z.files))
            except Exception as e:  # noqa: BLE001
                impl = _tag(e)
            parts = " ".join(f"{_fmat3(a.points)} {fvec(a.weights)} {fvec(a.center)}" for a in ats)
            ans = driver_batch([f"C07.savekeys {int(store)} arr {fvec(aim)} {vec([1] * n)} {n} {parts}"])[0]
            ctx.count(["save", n, int(store)], nontrivial=False, tag="save:" + impl.split()[0])
            if ans != impl:
                ctx.fail("corr", "save", f"MolGrid.save keys, store={store}: implementation {impl[:120]}, model {ans[:120]}")


def corr(ctx: Ctx):
    mg, ag, bg, bk, od = _mods()
    from . import c07_ext
    parts = [
        ("small", lambda: _corr_small(ctx, mg, bg)),
        ("fanout", lambda: _corr_fanout(ctx, mg, ag, bk, od)),
        ("save", lambda: _corr_save(ctx, mg, ag, od)),
        ("interp", lambda: c07_ext.corr_interp(ctx, mg)),
        ("defaults", lambda: c07_ext.corr_defaults(ctx, mg, ag, bk, od)),
        ("default-rgrid", lambda: c07_ext.corr_default_rgrid(ctx, mg)),
        ("aim-route", lambda: c07_ext.corr_aim_route(ctx, mg, ag, bk, od)),
    ]
    for name, fn in parts:
        _part(ctx, "corr", name, fn)
    _reraise(ctx, "corr")


# ------------------------------------------------------------------------------------------
# oracle: the property on the implementation
# ------------------------------------------------------------------------------------------
SNIPPET_GETITEM = """import warnings; warnings.filterwarnings('ignore')
import numpy as np
from grid.molgrid import MolGrid
from grid.atomgrid import AtomGrid
from grid.becke import BeckeWeights
from grid.onedgrid import GaussLaguerre
rg = GaussLaguerre(6)
coords = np.array([[0.0, 0.0, -0.7], [0.0, 0.0, 0.7]])
ats = [AtomGrid(rg, degrees=[5], center=c) for c in coords]
a = MolGrid(np.array([1, 1]), ats, BeckeWeights(order=3), store=True)
b = MolGrid(np.array([1, 1]), ats, BeckeWeights(order=3), store=False)
f = np.exp(-((a[0].points - coords[0]) ** 2).sum(axis=1))
ia, ib = a[0].integrate(f), b[0].integrate(f)
assert np.array_equal(a[0].weights, b[0].weights), (
    f'mg[0].weights depend on store: max difference {np.max(np.abs(a[0].weights - b[0].weights)):.3g}; '
    f'mg[0].integrate(f) = {ia!r} (store=True) vs {ib!r} (store=False)')
"""

def _atom_segments(m):
    return [(int(m.indices[k]), int(m.indices[k + 1])) for k in range(len(m.indices) - 1)]


SNIPPET_STRUCT = """import warnings; warnings.filterwarnings('ignore')
import math
import numpy as np
from grid.molgrid import MolGrid
from grid.atomgrid import AtomGrid
from grid.becke import BeckeWeights
from grid.onedgrid import GaussLaguerre
atnums = {atnums!r}; coords = np.array({coords!r}); nrad = {nrad!r}; degs = {degs!r}; rots = {rots!r}
use_arr, seed = {use_arr!r}, {seed!r}
n = len(atnums); rs = np.random.default_rng(seed)
def beq(x, y):
    x, y = np.asarray(x, float), np.asarray(y, float)
    return x.shape == y.shape and np.array_equal(x, y)
try:
    ats = [AtomGrid(GaussLaguerre(nrad[i]), degrees=[degs[i]], center=coords[i], rotate=rots[i]) for i in range(n)]
    size = sum(g.size for g in ats)
    aim = rs.uniform(0, 1, size) if use_arr else BeckeWeights(order=3)
    f = rs.uniform(-1, 1, size)
    a = MolGrid(np.array(atnums), ats, aim, store=True)
    b = MolGrid(np.array(atnums), ats, aim, store=False)
    ind = [int(x) for x in a.indices]
    seg = [(ind[k], ind[k + 1]) for k in range(len(ind) - 1)]
    # clause 1: concatenation in order, index table
    assert len(ind) == n + 1 and ind[0] == 0 and ind[-1] == a.size == size and all(s <= e for s, e in seg), (
        f'molgrid.MolGrid.__init__:indices :: index table {{ind}} is not 0 = i0 <= ... <= iM = size {{size}}')
    for k, (s, e) in enumerate(seg):
        assert beq(a.points[s:e], ats[k].points) and beq(a.atweights[s:e], ats[k].weights) and beq(a.atcoords[k], ats[k].center), (
            f'molgrid.MolGrid.__init__:segments :: points/atweights[{{s}}:{{e}}] of the molecular grid are not atomic grid {{k}}')
    # clause 2: weights = atomic weights x atom-in-molecule weights
    aimw = np.asarray(a.aim_weights, float)
    assert aimw.shape == (size,) and np.allclose(a.weights, a.atweights * aimw, rtol=1e-15, atol=0), (
        'molgrid.MolGrid.__init__:weights :: weights != atweights * aim_weights')
    # clause 3: the molecular integral is the sum of the atomic integrals of aim*f
    total = float(a.integrate(f))
    parts = math.fsum(float(ats[k].integrate(aimw[s:e] * f[s:e])) for k, (s, e) in enumerate(seg))
    assert abs(total - parts) <= 1e-12 * float(np.sum(np.abs(a.weights * f))), (
        f'molgrid.MolGrid.integrate:decomposition :: integrate(f) = {{total!r}} but the atomic integrals of aim*f sum to {{parts!r}}')
    # clause 4: nothing depends on store
    for attr in ('points', 'weights', 'atweights', 'aim_weights', 'atcoords', 'indices'):
        assert np.array_equal(np.asarray(getattr(a, attr)), np.asarray(getattr(b, attr))), (
            f'molgrid.MolGrid.__init__:store :: {{attr}} depends on store')
    assert a.integrate(f) == b.integrate(f), 'molgrid.MolGrid.integrate:store :: the integral depends on store'
    for k in range(n):
        ga, gb = a.get_atomic_grid(k), b.get_atomic_grid(k)
        assert ga is ats[k], f'molgrid.MolGrid.get_atomic_grid:store-branch :: get_atomic_grid({{k}}) with store=True is not atomic grid {{k}}'
        assert beq(gb.points, ats[k].points) and beq(gb.weights, ats[k].weights) and beq(gb.center, ats[k].center), (
            f'molgrid.MolGrid.get_atomic_grid:content :: get_atomic_grid({{k}}) with store=False is not atomic grid {{k}}')
        assert beq(ga.points, gb.points) and beq(ga.weights, gb.weights) and beq(ga.center, gb.center), (
            f'molgrid.MolGrid.get_atomic_grid:store :: get_atomic_grid({{k}}) depends on store')
        ia, ib = a[k], b[k]
        assert beq(ia.points, ib.points) and beq(ia.center, ib.center) and beq(ia.points, ats[k].points), (
            f'molgrid.MolGrid.__getitem__:points :: points / centre of mg[{{k}}] depend on store or are not those of atom {{k}}')
        assert beq(ib.weights, ats[k].weights * aimw[seg[k][0]:seg[k][1]]) and ia is ats[k], (
            f'molgrid.MolGrid.__getitem__:content :: mg[{{k}}] is neither the stored AtomGrid nor the aim-weighted segment')
    for bad in (-1, -n - 3):
        for g in (a, b):
            try:
                g.get_atomic_grid(bad); ok = True
            except ValueError:
                ok = False
            assert not ok, f'molgrid.MolGrid.get_atomic_grid:negative :: get_atomic_grid({{bad}}) not rejected'
except AssertionError:
    raise
except Exception as e:
    raise AssertionError(f'molgrid.MolGrid:raises :: {{type(e).__name__}}: {{e}} on admissible atomic grids')
"""


def _oracle_structure(ctx: Ctx, budget, mg, ag, bk, od):
    rng = ctx.rng
    reps = 14 if budget == "small" else 150
    for rep in range(reps):
        n = rng.choice([1, 2, 2, 3, 3, 4, 5])
        atnums = [rng.choice(ELEMENTS) for _ in range(n)]
        coords = _mol(ctx, n).tolist()
        params = dict(atnums=atnums, coords=coords, nrad=[rng.choice([4, 5, 6, 8]) for _ in range(n)],
                      degs=[rng.choice([3, 5, 7, 9]) for _ in range(n)], rots=[rng.choice([0, 37, rng.randrange(10 ** 6)]) for _ in range(n)],
                      use_arr=rng.random() < 0.4, seed=rng.randrange(2 ** 31))
        code = SNIPPET_STRUCT.format(**params)
        ctx.count(["oracle-structure", atnums, params["nrad"], params["degs"], params["use_arr"]], nontrivial=n >= 2, tag="oracle:structure")
        _exec_snippet(ctx, code, "molgrid.MolGrid", params, "<c07-structure>")  # the replay snippet itself is the oracle
    # the known store dependence of __getitem__ (KNOWN_FINDINGS): replayed on every run
    rg = od.GaussLaguerre(6)
    coords = np.array([[0.0, 0.0, -0.7], [0.0, 0.0, 0.7]])
    ats = [ag.AtomGrid(rg, degrees=[5], center=c) for c in coords]
    a = mg.MolGrid(np.array([1, 1]), ats, bk.BeckeWeights(order=3), store=True)
    b = mg.MolGrid(np.array([1, 1]), ats, bk.BeckeWeights(order=3), store=False)
    fk = np.exp(-((ats[0].points - coords[0]) ** 2).sum(axis=1))
    if not _beq(a[0].weights, b[0].weights):
        ctx.fail("oracle", KEY_GETITEM,
                 f"the per-atom grid handed back by mg[0] depends on store: weights differ by up to "
                 f"{float(np.max(np.abs(a[0].weights - b[0].weights))):.3g} (raw atomic weights when stored, aim-weighted otherwise); "
                 f"integral of exp(-|r-R_0|^2) on mg[0] = {float(a[0].integrate(fk))!r} (store=True) vs {float(b[0].integrate(fk))!r} (store=False)",
                 witness={"atnums": [1, 1], "coords": coords, "rgrid": "GaussLaguerre(6)", "degrees": [5], "aim": "BeckeWeights(order=3)"},
                 snippet=SNIPPET_GETITEM)
    try:
        na, nb = a[-1].size, b[-1].size
    except Exception as e:  # noqa: BLE001
        na = nb = None
        ctx.info(f"mg[-1] raises {type(e).__name__}")
    if na != nb:
        ctx.info(f"mg[-1]: {na} points with store=True, {nb} with store=False (no sign check in __getitem__; "
                 f"get_atomic_grid rejects negative indices) — same call site as {KEY_GETITEM}")
        ctx.fail("oracle", KEY_GETITEM, f"mg[-1] has {na} points with store=True and {nb} with store=False", snippet=SNIPPET_GETITEM)


SNIPPET_FANOUT = """import warnings; warnings.filterwarnings('ignore')
import numpy as np
from grid.molgrid import MolGrid, _generate_default_rgrid
from grid.atomgrid import AtomGrid
from grid.becke import BeckeWeights
from grid.onedgrid import GaussLaguerre
which, form, pform, rotate, store = {which!r}, {form!r}, {pform!r}, {rotate!r}, {store!r}
atnums = np.array({atnums!r}); coords = np.array({coords!r}); n = len(atnums)
elems = sorted(set(atnums.tolist()))
# per-atom choice, then the argument in the requested form (single / list / dict keyed by atomic number / None = default)
rg_of = {{z: (_generate_default_rgrid(z) if form == 'none' else GaussLaguerre(4 + k % 4)) for k, z in enumerate(elems)}}
pr_of = {{z: ['coarse', 'medium', 'fine'][k % 3] for k, z in enumerate(elems)}}
if form == 'single': rg_of = {{z: rg_of[elems[0]] for z in elems}}
if pform == 'single': pr_of = {{z: pr_of[elems[0]] for z in elems}}
per_rg = [rg_of[z] for z in atnums.tolist()]; per_pr = [pr_of[z] for z in atnums.tolist()]
rgrid = None if form == 'none' else (per_rg[0] if form == 'single' else (per_rg if form == 'list' else rg_of))
preset = per_pr[0] if pform == 'single' else (per_pr if pform == 'list' else pr_of)
rs = [[0.5, 1.0][: i % 3] for i in range(n)]; ds = [[3, 5, 7][: len(r) + 1] for r in rs]; radius = [0.8 + 0.3 * i for i in range(n)]
try:
    if which == 'from_preset':
        got = MolGrid.from_preset(atnums, coords, preset, rgrid, rotate=rotate, store=store)
        hand = [AtomGrid.from_preset(atnum=z, preset=per_pr[i], rgrid=per_rg[i], center=coords[i], rotate=rotate) for i, z in enumerate(atnums)]
    elif which == 'from_pruned':
        got = MolGrid.from_pruned(atnums, coords, radius, rs, ds, rgrid=rgrid, rotate=rotate, store=store)
        hand = [AtomGrid.from_pruned(per_rg[i], radius[i], r_sectors=rs[i], d_sectors=ds[i], center=coords[i], rotate=rotate) for i in range(n)]
    else:
        got = MolGrid.from_size(atnums, coords, 26, None if form == 'none' else per_rg[0], rotate=rotate, store=store)
        hand = [AtomGrid(per_rg[i] if form == 'none' else per_rg[0], degrees=None, sizes=[26], center=coords[i], rotate=rotate) for i in range(n)]
except Exception as e:
    raise AssertionError(f'MolGrid.{{which}} raises {{type(e).__name__}}: {{e}} for arguments the atomic grids accept')
ref = MolGrid(atnums, hand, BeckeWeights(order=3), store=store)
for attr in ('indices', 'points', 'weights', 'atweights'):
    x, y = np.asarray(getattr(got, attr), float), np.asarray(getattr(ref, attr), float)
    assert x.shape == y.shape and np.allclose(x, y, rtol=1e-14, atol=1e-14), f'MolGrid.{{which}} differs in {{attr}} from the grid built by hand with the same arguments'
"""


def _oracle_fanout(ctx: Ctx, budget, mg, ag, bk, od):
    """fan-out equality against the plain reading: atom i gets arg / arg[i] / arg[atnums[i]]"""
    rng = ctx.rng
    reps = 16 if budget == "small" else 150
    for _ in range(reps):
        n = rng.choice([2, 3, 4])
        atnums = [rng.choice(ELEMENTS) for _ in range(n)]
        coords = _mol(ctx, n).tolist()
        which = rng.choice(["from_preset", "from_preset", "from_pruned", "from_pruned", "from_size"])
        form = rng.choice(["single", "none"]) if which == "from_size" else rng.choice(["single", "list", "dict", "dict", "none"])
        pform = rng.choice(["single", "list", "dict"])
        rotate = rng.choice([0, 37, rng.randrange(10 ** 6)])
        store = rng.random() < 0.5
        wit = {"constructor": which, "atnums": atnums, "coords": coords, "rgrid": form, "preset": pform, "rotate": rotate, "store": store}
        code = SNIPPET_FANOUT.format(which=which, form=form, pform=pform, rotate=rotate, store=store, atnums=atnums, coords=coords)
        ctx.count(["oracle-fanout", which, atnums, form, pform, rotate], nontrivial=True, tag=f"oracle:fanout:{which}")
        _exec_snippet(ctx, code, f"molgrid.MolGrid.{which}:fanout", wit, "<c07-fanout>")  # the replay snippet itself is the oracle


def _default_rgrid_reference(z, table):
    rmin, rmax, npt = table[z]
    a0 = 0.529177210903  # bohr in angstrom (CODATA 2018); newer CODATA values differ by < 1e-9 relative
    rmin, rmax = rmin / a0, rmax / a0
    power = (math.log(rmax) - math.log(rmin)) / math.log(npt)
    pts = np.array([rmin * (i + 1) ** power for i in range(npt)])
    wts = np.array([power * rmin * (i + 1) ** (power - 1) for i in range(npt)])
    return pts, wts


def _oracle_default_rgrid(ctx: Ctx, budget, mg):
    utils = importlib.import_module("grid.utils")
    table = utils._DEFAULT_POWER_RTRANSFORM_PARAMS
    zs = list(table)    # round 3: every element on every run (68 small grids)
    for z in zs:
        g = mg._generate_default_rgrid(z)
        pts, wts = _default_rgrid_reference(z, table)
        ctx.count(["oracle-default-rgrid", z], nontrivial=False, tag="oracle:default-rgrid")
        if g.size != len(pts) or not np.allclose(g.points, pts, rtol=1e-8, atol=0) or not np.allclose(g.weights, wts, rtol=1e-8, atol=0):
            ctx.fail("oracle", f"molgrid._generate_default_rgrid:Z={z}",
                     f"default radial grid of Z={z} is not rmin*(i+1)^p, p = ln(rmax/rmin)/ln(npt), in bohr")


def _prescribed_rgrid(mg, ag, preset, z, cache):
    """EXTENSION: the default radial transform of element z (PowerRTransform(rmin, rmax) of the default table) applied to
    a UniformInteger rule with the number of radial points the shell-count preset prescribes for z."""
    key = (preset, z)
    if key not in cache:
        utils = importlib.import_module("grid.utils")
        od = importlib.import_module("grid.onedgrid")
        rt = importlib.import_module("grid.rtransform")
        import scipy.constants as sc
        rmin, rmax, _ = utils._DEFAULT_POWER_RTRANSFORM_PARAMS[z]
        conv = sc.angstrom / sc.value("atomic unit of length")
        npt = int(ag._get_rgrid_size(preset, atnums=int(z))[0])
        cache[key] = rt.PowerRTransform(rmin * conv, rmax * conv).transform_1d_grid(od.UniformInteger(npt))
    return cache[key]


def _oracle_end_to_end(ctx: Ctx, budget, mg, ag):
    """EXPLORATION (no theorem): the 1 % clause sampled over the (preset, element) combinations for which a preset grid
    with the default radial grid exists; EXTENSION: shell-count presets with a radial grid of the prescribed size."""
    rng = ctx.rng
    quick = budget == "small" and not ctx.thorough
    worst, worst_ext = {}, {}
    constructible, ext_problems = {}, {}
    for preset in PRESETS_ALL:
        ok = []
        for z in ELEMENTS:
            try:
                mg.MolGrid.from_preset(np.array([z]), np.zeros((1, 3)), preset)
                ok.append(z)
            except (ValueError, KeyError, IndexError):
                pass
        constructible[preset] = ok
    heavy = ["veryfine", "ultrafine", "insane", "sg_2", "sg_3", "g4", "g5", "g6", "g7"]
    keep = set(rng.sample(heavy, 2)) if quick else set(heavy)
    per = 4 if quick else 40
    cache = {}

    def sample(preset, elems, extension):
        n = rng.choice([1, 2, 3, 4, 5])
        atnums = [rng.choice(elems) for _ in range(n)]
        coords = _mol(ctx, n)
        if n >= 2 and rng.random() < 0.3:
            # round 3, class 7: the closest pair exactly at / within 1 % of the 1.2 bohr of the quantifier
            ax = rng.randrange(3)
            coords[1] = coords[0]
            coords[1, ax] += rng.choice([1.2, 1.2 * 1.01])
            for k in range(2, n):
                while min(np.linalg.norm(coords[k] - coords[j]) for j in range(k)) < 1.2:
                    coords[k] = np.array([rng.uniform(-2.5, 2.5) for _ in range(3)])
        # ... and exponents at / within 1 % of the ends 0.3 and 30 of the quantifier
        alphas = [rng.choice([0.3, 30.0, 0.3 * 1.01, 30.0 / 1.01, 10 ** rng.uniform(math.log10(0.3), math.log10(30.0))]) for _ in range(n)]
        charges = [rng.choice([1.0, rng.uniform(0.2, 3.0)]) for _ in range(n)]
        rotate = rng.choice([0, 37, rng.randrange(10 ** 6)])
        if extension:
            rgrid = {z: _prescribed_rgrid(mg, ag, preset, z, cache) for z in set(atnums)}
            g = mg.MolGrid.from_preset(np.array(atnums), coords, preset, rgrid, rotate=rotate)
        else:
            g = mg.MolGrid.from_preset(np.array(atnums), coords, preset, rotate=rotate)
        f = np.zeros(g.size)
        for c, al, q in zip(coords, alphas, charges):
            f += q * (al / math.pi) ** 1.5 * np.exp(-al * ((g.points - c) ** 2).sum(axis=1))
        total = sum(charges)
        err = abs(float(g.integrate(f)) - total) / total
        return err, atnums, coords, alphas, charges

    for preset in PRESETS_ALL:
        if preset in heavy and preset not in keep:
            continue
        elems = constructible[preset]
        if elems:
            for _ in range(per):
                try:
                    err, atnums, coords, alphas, charges = sample(preset, elems, False)
                except Exception as e:  # noqa: BLE001
                    ctx.fail("oracle", f"molgrid.MolGrid.from_preset:1pct:{preset}",
                             f"[exploration] preset {preset} with the default radial grids: construction / integration raises "
                             f"{type(e).__name__}: {str(e)[:120]} for elements that construct one by one")
                    break
                ctx.count(["oracle-1pct", preset, atnums, alphas], nontrivial=len(atnums) >= 2, tag=f"exploration:1pct:{preset}")
                if err > worst.get(preset, (-1.0,))[0]:
                    worst[preset] = (err, atnums, alphas)
                if err > 0.01:
                    ctx.fail("oracle", f"molgrid.MolGrid.from_preset:1pct:{preset}",
                             f"[exploration] preset {preset} with the default radial grids: a sum of normalised Gaussians integrates "
                             f"{err:.3%} off its total charge",
                             witness={"preset": preset, "atnums": atnums, "coords": coords, "alphas": alphas, "charges": charges})
        missing = [z for z in ELEMENTS if z not in elems]
        if missing and preset in ("sg_0", "sg_1", "sg_2", "sg_3", "g1", "g2", "g3", "g4", "g5", "g6", "g7"):
            # EXTENSION: radial grid of the prescribed size
            usable = []
            for z in missing:
                try:
                    mg.MolGrid.from_preset(np.array([z]), np.zeros((1, 3)), preset, _prescribed_rgrid(mg, ag, preset, z, cache))
                    usable.append(z)
                except Exception as e:  # noqa: BLE001  (shipped-table problems are C05's subject)
                    ext_problems[f"{preset}:Z={z}"] = f"{type(e).__name__}: {str(e)[:60]}"
            for _ in range(per if usable else 0):
                try:
                    err, atnums, coords, alphas, charges = sample(preset, usable, True)
                except Exception as e:  # noqa: BLE001
                    ext_problems[f"{preset}:molecule"] = f"{type(e).__name__}: {str(e)[:60]}"
                    break
                ctx.count(["oracle-1pct-ext", preset, atnums, alphas], nontrivial=len(atnums) >= 2, tag=f"extension:1pct:{preset}")
                if err > worst_ext.get(preset, (-1.0,))[0]:
                    worst_ext[preset] = (err, atnums, alphas)
    not_default = {p: [z for z in ELEMENTS if z not in v] for p, v in constructible.items() if len(v) < len(ELEMENTS)}
    ctx.extra["end_to_end_exploration"] = {
        "label": "exploration (no theorem): |integral - charge| / charge of sums of normalised Gaussians on preset grids "
                 "with the default radial grids (rgrid=None), over the (preset, element) combinations for which such a grid "
                 "exists; worst relative error per preset in this run",
        "elements_sampled": ELEMENTS,
        "worst_relative_error": {p: {"error": v[0], "atnums": v[1], "alphas": v[2]} for p, v in worst.items()},
        "no_default_rgrid_grid_for": not_default,
        "extension_label": "extension (outside the clause): shell-count presets with the default radial transform of the element "
                           "applied to UniformInteger(n), n = the number of radial points the preset prescribes",
        "extension_worst_relative_error": {p: {"error": v[0], "atnums": v[1], "alphas": v[2]} for p, v in worst_ext.items()},
        "extension_not_buildable": ext_problems,
    }
    if not_default:
        ctx.info("scope of the 1 % clause: MolGrid.from_preset(preset, rgrid=None) is rejected (ValueError: radial grid size does "
                 "not match) for the presets that prescribe their own number of radial shells — "
                 + ", ".join(f"{p} (Z in {z})" if len(z) < len(ELEMENTS) else p for p, z in sorted(not_default.items()))
                 + "; no preset grid with the default radial grids exists there, the clause is sampled on the others "
                   "and these are sampled with a radial grid of the prescribed size (extension)")
    over = {p: v[0] for p, v in worst_ext.items() if v[0] > 0.01}
    if over:
        ctx.info(f"extension (outside the clause): relative error above 1 % with prescribed-size Power/UniformInteger radial grids: {over}")


# ------------------------------------------------------------------------------------------
# round 2: input kinds, call paths, call histories — the implementation against grids built by hand in float64
# (the replay snippets themselves are the oracles: PRELUDE + "P = {...}" + BODY is exec'd)
# ------------------------------------------------------------------------------------------
KINDS_PRELUDE = r"""import warnings; warnings.filterwarnings('ignore')
import copy, hashlib, math, os, subprocess, sys
import numpy as np
from grid.molgrid import MolGrid, _generate_default_rgrid
from grid.atomgrid import AtomGrid
from grid.becke import BeckeWeights
from grid.onedgrid import GaussLaguerre, UniformInteger
from grid.rtransform import PowerRTransform
ATTRS = ('indices', 'points', 'weights', 'atweights', 'aim_weights', 'atcoords')
REJECTED = None
NOTES = []
def same(key, a, b, what, attrs=ATTRS):
    for t in attrs:
        x, y = np.asarray(getattr(a, t), dtype=float), np.asarray(getattr(b, t), dtype=float)
        assert x.shape == y.shape and np.array_equal(x, y, equal_nan=True), (
            f'{key} :: {what}: {t} differs' + (f' (shapes {x.shape} / {y.shape})' if x.shape != y.shape else f' (max deviation {np.nanmax(np.abs(x - y)):.3g})'))
def digest(m):
    h = hashlib.sha256()
    for t in ATTRS:
        h.update(np.ascontiguousarray(np.asarray(getattr(m, t), dtype=float)).tobytes())
    return h.hexdigest()
def as_kind(a, kind):
    # the same numbers in another container / dtype / memory layout
    a = np.asarray(a)
    if kind in ('float64', 'int64'): return np.array(a, dtype=kind)
    if kind in ('int32', 'uint8', 'float32', 'bool'): return np.array(a).astype(kind)
    if kind == 'list': return a.tolist()
    if kind == 'tuple': return tuple(a.tolist())
    if kind == 'noncontig':
        b = np.repeat(np.array(a), 2, axis=0)[::2]
        assert not b.flags['C_CONTIGUOUS'] or b.size <= 1
        return b
    if kind == 'readonly':
        b = np.array(a); b.setflags(write=False); return b
    if kind == 'fortran': return np.asfortranarray(np.array(a))
    raise KeyError(kind)
def unchanged(key, obj, snap, what):
    ok = type(obj) is type(snap) and (np.array_equal(np.asarray(obj), np.asarray(snap)) if not isinstance(obj, dict) else list(obj) == list(snap))
    if isinstance(obj, np.ndarray):
        ok = ok and obj.dtype == snap.dtype and obj.shape == snap.shape
    assert ok, f'{key} :: the caller\'s {what} was modified by the call'
"""

# -- constructor argument kinds / call paths ------------------------------------------------
KINDS_BODY = r"""
ctor, n, KEY = P['ctor'], len(P['atnums']), P['key']
atn64 = np.array(P['atnums'], dtype=np.int64)
co64 = np.array(P['coords'], dtype=float)
rot = P['rotate']
if isinstance(rot, str):
    rot_ref = int(rot.split(':')[1]); rotate = getattr(np, rot.split(':')[0])(rot_ref)
else:
    rotate, rot_ref = rot, int(rot)
store = P['store']
elems = sorted(set(P['atnums']))
def key_of(z, form): return np.int64(z) if form.endswith('npint64') else int(z)
# ---- radial grids: canonical per-atom objects and the argument in the requested form
R0 = GaussLaguerre(P['nrad'][0])
form = P['rgrid_form']
rg_el = {z: GaussLaguerre(P['nrad'][k % len(P['nrad'])]) for k, z in enumerate(elems)}
if form == 'single': per_rg, rgrid = [R0] * n, R0
elif form == 'list': per_rg = [GaussLaguerre(P['nrad'][i % len(P['nrad'])]) for i in range(n)]; rgrid = list(per_rg)
elif form == 'list-same-object': per_rg = [R0] * n; rgrid = [R0] * n
elif form == 'list-copies': rgrid = [copy.deepcopy(R0) for _ in range(n)]; per_rg = [R0] * n
elif form.startswith('dict'): per_rg = [rg_el[z] for z in P['atnums']]; rgrid = {key_of(z, form): rg_el[z] for z in elems}
elif form == 'none': per_rg = [_generate_default_rgrid(z) for z in P['atnums']]; rgrid = None
else: raise KeyError(form)
given_rg = per_rg if form != 'list-copies' else rgrid
# ---- presets
names = ['coarse', 'medium', 'fine']
pr_el = {z: names[k % 3] for k, z in enumerate(elems)}
pform = P.get('preset_form', 'single')
per_pr = [names[P.get('preset0', 0) % 3]] * n if pform == 'single' else ([names[i % 3] for i in range(n)] if pform == 'list' else [pr_el[z] for z in P['atnums']])
case = {'lower': str.lower, 'upper': str.upper, 'title': str.title}[P.get('preset_case', 'lower')]
preset = case(per_pr[0]) if pform == 'single' else ([case(x) for x in per_pr] if pform == 'list' else {key_of(z, pform): case(pr_el[z]) for z in elems})
# ---- pruning sectors
rs = [[0.5, 1.0][: i % 3] for i in range(n)]
ds = [[3, 5, 7][: len(r) + 1] for r in rs]
ss = [[6, 14, 26][: len(r) + 1] for r in rs]
rk = P.get('radius_kind', 'list')
rad_ref = [1.5] * n if rk in ('float', 'np.float64', 'np.float32') else ([1.0] * n if rk == 'int' else [0.75 + 0.25 * i for i in range(n)])
radius = {'float': 1.5, 'np.float64': np.float64(1.5), 'np.float32': np.float32(1.5), 'int': 1, 'list': list(rad_ref),
          'array': np.array(rad_ref), 'tuple': tuple(rad_ref)}[rk]
dk = P.get('d_kind', 'd')
use_s = dk != 'd'
d_arg = ds if dk in ('d', 'both') else ('junk' if dk == 'both-junk' else None)
s_arg = ss if use_s else None
# ---- atomic numbers / coordinates in the requested kind
atnums = as_kind(atn64, P['atnums_kind'])
coords = as_kind(co64, P['coords_kind'])
size = P.get('size', 14)
size_arg = np.int64(size) if P.get('size_kind') == 'np.int64' else size
def hand(i):
    if ctor == 'from_preset':
        return AtomGrid.from_preset(atnum=int(atn64[i]), preset=per_pr[i], rgrid=per_rg[i], center=co64[i], rotate=rot_ref)
    if ctor == 'from_size':
        return AtomGrid(per_rg[i], degrees=None, sizes=[size], center=co64[i], rotate=rot_ref)
    return AtomGrid.from_pruned(per_rg[i], rad_ref[i], r_sectors=rs[i], d_sectors=None if use_s else ds[i],
                                s_sectors=ss[i] if use_s else None, center=co64[i], rotate=rot_ref)
hand_grids = [hand(i) for i in range(n)]
total = sum(g.size for g in hand_grids)
aimk = P['aim']
A = np.random.default_rng(P['seed']).uniform(0, 1, total)
aim = {'default': None, 'becke': BeckeWeights(order=3), 'array': A}[aimk]
ref = MolGrid(atn64, hand_grids, A.copy() if aimk == 'array' else BeckeWeights(order=3), store=store)
snaps = [copy.deepcopy(x) for x in (atnums, coords, A)]
def call():
    kw = P['call'] == 'kw'
    if P['call'] == 'defaults':
        # aim_weights, rotate (and store) left to their defaults: None -> BeckeWeights(order=3), 37, False
        extra = {'store': True} if store else {}
        if ctor == 'from_preset': return MolGrid.from_preset(atnums, coords, preset, rgrid, **extra)
        if ctor == 'from_size': return MolGrid.from_size(atnums, coords, size_arg, rgrid, **extra)
        return MolGrid.from_pruned(atnums, coords, radius, rs, ds, rgrid=rgrid, **extra)
    if ctor == 'from_preset':
        if kw: return MolGrid.from_preset(atnums=atnums, atcoords=coords, preset=preset, rgrid=rgrid, aim_weights=aim, rotate=rotate, store=store)
        return MolGrid.from_preset(atnums, coords, preset, rgrid, aim, rotate, store)
    if ctor == 'from_size':
        if kw: return MolGrid.from_size(atnums=atnums, atcoords=coords, size=size_arg, rgrid=rgrid, aim_weights=aim, rotate=rotate, store=store)
        return MolGrid.from_size(atnums, coords, size_arg, rgrid, aim, rotate, store)
    d_kw = {} if d_arg is None else {'d_sectors': d_arg}
    if kw: return MolGrid.from_pruned(atnums=atnums, atcoords=coords, radius=radius, r_sectors=rs, s_sectors=s_arg, rgrid=rgrid, aim_weights=aim, rotate=rotate, store=store, **d_kw)
    if d_arg is None: return MolGrid.from_pruned(atnums, coords, radius, rs, s_sectors=s_arg, rgrid=rgrid, aim_weights=aim, rotate=rotate, store=store)
    return MolGrid.from_pruned(atnums, coords, radius, rs, d_arg, s_sectors=s_arg, rgrid=rgrid, aim_weights=aim, rotate=rotate, store=store)
what = f"MolGrid.{ctor} with " + ", ".join(f"{k}={P[k]!r}" for k in P['axes'])
try:
    got = call()
except Exception as e:
    REJECTED = type(e).__name__
    assert P['reject_ok'], f'{KEY} :: {what} raises {REJECTED}: {str(e)[:120]}, although the atomic grids are built by hand from the same data'
else:
    same(KEY, got, ref, what + ' vs MolGrid(atnums, [grids built by hand, float64 / int64 data], aim, store)')
    assert (got.atgrids is not None) == bool(store), f'{KEY} :: {what}: the atgrids attribute does not follow store'
    if store:
        for i in range(n):
            assert np.array_equal(got.atgrids[i].points, hand_grids[i].points) and np.array_equal(got.atgrids[i].weights, hand_grids[i].weights), (
                f'{KEY} :: {what}: stored atomic grid {i} is not the grid built by hand')
            if form != 'none':
                assert got.atgrids[i].rgrid is given_rg[i], f'{KEY} :: {what}: stored atomic grid {i} does not hold the radial grid object given for it'
    for obj, snap, nm in zip((atnums, coords, A), snaps, ('atnums', 'atcoords', 'aim_weights array')):
        unchanged(KEY, obj, snap, nm)
    # both values of store give the same grid
    other = None
    try:
        store = not store
        other = call()
    finally:
        store = not store
    same(KEY, got, other, what + f': store={store} vs store={not store}')
"""

# -- aim weights kinds, integrate, index kinds, keyword construction -------------------------------
AIM_BODY = r"""
KEY = P['key']
atn = np.array(P['atnums']); co = np.array(P['coords'], dtype=float); n = len(atn)
ats = [AtomGrid(GaussLaguerre(P['nrad'][i]), degrees=[P['degs'][i]], center=co[i], rotate=P['rots'][i]) for i in range(n)]
size = sum(g.size for g in ats)
rs = np.random.default_rng(P['seed'])
route, kind = P['aim_kind'].split(':')
if kind in ('int64', 'int32', 'uint8'): base = rs.integers(0, 4, size).astype(float)
elif kind == 'bool': base = rs.integers(0, 2, size).astype(float)
else:
    base = rs.uniform(0, 1, size).astype(np.float32).astype(float)   # representable in float32
    if size >= 3: base[0], base[size // 2], base[-1] = 0.0, 2.0 ** -40, 1.0   # the end points of [0, 1] and a tiny weight
obj = as_kind(base, kind)
snap = copy.deepcopy(obj)
atw = np.concatenate([g.weights for g in ats])
ref_w = atw * base
what = f'aim weights given as {route} ' + ('returning ' if route == 'callable' else '') + f'a {kind} ' + ('array' if kind not in ('list', 'tuple') else '')
aim = obj if route == 'array' else (lambda points, atcoords, atnums, indices: obj)
store = P['store']
try:
    m = MolGrid(atn, ats, aim, store=store) if P['call'] == 'pos' else MolGrid(atnums=atn, atgrids=ats, aim_weights=aim, store=store)
except Exception as e:
    REJECTED = type(e).__name__
    assert P['reject_ok'], f'{KEY} :: MolGrid(...) with {what} raises {REJECTED}: {str(e)[:120]}'
else:
    assert m.weights.dtype == np.float64 and m.weights.shape == (size,) and np.array_equal(m.weights, ref_w), (
        f'{KEY} :: {what}: weights are not the float64 product atweights * aim_weights (max deviation '
        f'{np.max(np.abs(np.asarray(m.weights, float).reshape(-1)[:size] - ref_w)) if np.size(m.weights) == size else "shape"})')
    assert np.array_equal(np.asarray(m.aim_weights, dtype=float), base), f'{KEY} :: {what}: aim_weights attribute does not hold the given values'
    assert m.aim_weights is obj, f'{KEY} :: {what}: aim_weights attribute is not the given / returned object'
    unchanged(KEY, obj, snap, 'aim weights (' + what + ')')
    assert np.array_equal(m.atweights, atw) and np.array_equal(m.points, np.concatenate([g.points for g in ats])), f'{KEY} :: {what}: points / atweights are not the concatenation'
    # ---- integrate: several arrays at once, other dtypes / layouts
    ind = [int(x) for x in m.indices]
    f1 = rs.uniform(-1, 1, size); f2 = rs.uniform(-1, 1, size)
    fi = rs.integers(-3, 4, size); fb = rs.integers(0, 2, size).astype(bool)
    for nm, arrs in (('f', (f1,)), ('f1, f2', (f1, f2)), ('f1, f2, f1', (f1, f2, f1)), ('int64 array', (fi,)), ('bool array', (fb,)),
                     ('float32 array', (f1.astype(np.float32),)), ('non-contiguous array', (as_kind(f1, 'noncontig'),)),
                     ('read-only array', (as_kind(f1, 'readonly'),)), ('f, int array, bool array', (f2, fi, fb))):
        prod = np.ones(size)
        for a in arrs: prod = prod * np.asarray(a, dtype=float)
        want = math.fsum((ref_w * prod).tolist())
        gotv = float(m.integrate(*arrs))
        scale = math.fsum(np.abs(ref_w * prod).tolist())
        assert abs(gotv - want) <= 1e-12 * scale + 1e-300, f'{KEY} :: integrate({nm}) = {gotv!r}, but sum(weights * product) = {want!r}'
        parts = math.fsum(float(ats[k].integrate(base[ind[k]:ind[k + 1]] * prod[ind[k]:ind[k + 1]])) for k in range(n))
        assert abs(gotv - parts) <= 1e-12 * scale + 1e-300, f'{KEY} :: integrate({nm}) = {gotv!r}, but the atomic integrals of aim*f sum to {parts!r}'
    # ---- index kinds
    for k in range(n):
        for ik in ('int64', 'int32', 'uint8'):
            ix = getattr(np, ik)(k)
            for nm, f in (('get_atomic_grid', m.get_atomic_grid), ('__getitem__', m.__getitem__)):
                a, b = f(k), f(ix)
                assert np.array_equal(a.points, b.points) and np.array_equal(a.weights, b.weights) and np.array_equal(a.center, b.center) and type(a) is type(b), (
                    f'{KEY} :: {nm}(np.{ik}({k})) differs from {nm}({k}) (store={store})')
        g = m.get_atomic_grid(np.int64(k))
        assert np.array_equal(g.points, ats[k].points) and np.array_equal(g.weights, ats[k].weights), f'{KEY} :: get_atomic_grid(np.int64({k})) is not atomic grid {k}'
    for bad in (np.int64(-1), np.int32(-n)):
        try:
            m.get_atomic_grid(bad); ok = True
        except ValueError:
            ok = False
        assert not ok, f'{KEY} :: get_atomic_grid({bad!r}) is not rejected'
"""

# -- every preset name x elements at the edges of the tables ------------------------------------------
PRESET_BODY = r"""
from grid.atomgrid import _get_rgrid_size
KEY = P['key']
zs = P['atnums']; co = np.array(P['coords'], dtype=float); n = len(zs)
name = {'lower': str.lower, 'upper': str.upper, 'title': str.title}[P['case']](P['preset'])
def rg_for(z):
    if P['rgrid'] == 'default':
        return _generate_default_rgrid(z)
    npt = int(_get_rgrid_size(P['preset'], atnums=int(z))[0]) if P['rgrid'] == 'prescribed' else P['rgrid']
    return PowerRTransform(1e-3, 12.0).transform_1d_grid(UniformInteger(npt))
ones = lambda points, atcoords, atnums, indices: np.ones(len(points))
hand, herr = [], None
for i, z in enumerate(zs):
    try:
        rg = rg_for(z)
        hand.append(AtomGrid.from_preset(atnum=z, preset=name, rgrid=rg, center=co[i], rotate=P['rotate']))
    except Exception as e:
        herr = type(e).__name__
        break
rgs = None
if P['rgrid'] != 'default':
    try:
        rgs = {z: rg_for(z) for z in set(zs)}
    except Exception:
        rgs = 'unavailable'
what = f"MolGrid.from_preset(atnums={zs}, preset={name!r}, rgrid={'None' if P['rgrid'] == 'default' else P['rgrid']})"
if rgs == 'unavailable':
    REJECTED = 'no-prescribed-size:' + str(herr)
else:
    try:
        got = MolGrid.from_preset(np.array(zs), co, name, rgs, ones, rotate=P['rotate'], store=P['store'])
        gerr = None
    except Exception as e:
        gerr = type(e).__name__
    assert gerr == herr, f'{KEY} :: {what}: ' + (f'raises {gerr}' if gerr else 'succeeds') + ', building the atomic grids by hand with AtomGrid.from_preset ' + (f'raises {herr}' if herr else 'succeeds')
    if gerr is not None:
        REJECTED = gerr
    else:
        ref = MolGrid(np.array(zs), hand, ones, store=P['store'])
        same(KEY, got, ref, what + ' vs the grid built by hand')
"""

# -- call histories: state carried between calls, shared argument objects, fresh-process reference --------------
HISTORY_BODY = r"""
KEY = P['key']
R0 = GaussLaguerre(P['nrad'])
mols = [(np.array(z), np.array(c, dtype=float)) for z, c in P['mols']]
aims = {}
def build(step, how):
    mi, ctor, opt, store = step
    atn, co = mols[mi]; n = len(atn)
    if ctor == 'from_preset':
        name = ['coarse', 'medium', 'fine'][opt % 3]
        if how == 'ctor': return MolGrid.from_preset(atn, co, name, R0, aims.get((mi, ctor, opt)), rotate=P['rotate'], store=store)
        gs = [AtomGrid.from_preset(atnum=int(atn[i]), preset=name, rgrid=R0, center=co[i], rotate=P['rotate']) for i in range(n)]
    elif ctor == 'from_size':
        size = [6, 14, 26][opt % 3]
        if how == 'ctor': return MolGrid.from_size(atn, co, size, R0, aims.get((mi, ctor, opt)), rotate=P['rotate'], store=store)
        gs = [AtomGrid(R0, degrees=None, sizes=[size], center=co[i], rotate=P['rotate']) for i in range(n)]
    else:
        rsec = [[0.5, 1.0][: (i + opt) % 3] for i in range(n)]; dsec = [[3, 5, 7][: len(r) + 1] for r in rsec]
        if how == 'ctor': return MolGrid.from_pruned(atn, co, 1.25, rsec, dsec, rgrid=R0, aim_weights=aims.get((mi, ctor, opt)), rotate=P['rotate'], store=store)
        gs = [AtomGrid.from_pruned(R0, 1.25, r_sectors=rsec[i], d_sectors=dsec[i], center=co[i], rotate=P['rotate']) for i in range(n)]
    a = aims.get((mi, ctor, opt))
    return MolGrid(atn, gs, a if a is not None else BeckeWeights(order=3), store=store)
first, DIGESTS = {}, {}
snap_mols = copy.deepcopy(mols); snap_r = (R0.points.copy(), R0.weights.copy())
for k, step in enumerate(P['steps']):
    mi, ctor, opt, store = step
    sk = (mi, ctor, opt)
    if P['array_aim'] and sk not in aims:
        sz = build((mi, ctor, opt, False), 'hand').size
        aims[sk] = np.random.default_rng(P['seed'] + 1000 * mi + 10 * opt + len(ctor)).uniform(0, 1, sz)
    got = build(step, 'ctor')
    ref = build(step, 'hand')
    what = f'call {k} of the history {P["steps"]} (molecule {mi}: {mols[mi][0].tolist()}, MolGrid.{ctor}, option {opt}, store={store})'
    same(KEY, got, ref, what + ' vs the grid built by hand at that moment')
    if sk in first:
        same(KEY, got, first[sk], what + ' vs the first call with the same arguments')
    else:
        first[sk] = got
    DIGESTS[repr(sk)] = digest(got)
for (a, b), (c, d) in zip(mols, snap_mols):
    assert np.array_equal(a, c) and np.array_equal(b, d), f'{KEY} :: the shared atnums / atcoords arrays were modified during the history'
assert np.array_equal(R0.points, snap_r[0]) and np.array_equal(R0.weights, snap_r[1]), f'{KEY} :: the shared radial grid was modified during the history'
# the same constructions, each alone in a fresh interpreter
procs = []
for sk in P['fresh']:
    code = P['prelude'] + 'P = ' + repr(dict(P, steps=[list(sk) + [bool(len(procs) % 2 == 0)]], fresh=[], prelude='')) + P['body'] + "\nprint('DIGEST', DIGESTS[repr(tuple(P['steps'][0][:3]))])\n"
    env = dict(os.environ, PYTHONPATH=os.pathsep.join(p for p in sys.path if p))
    procs.append((sk, subprocess.Popen([sys.executable, '-c', code], stdout=subprocess.PIPE, stderr=subprocess.PIPE, text=True, env=env, cwd='/')))
for sk, pr in procs:
    out, err = pr.communicate(timeout=600)
    lines = [ln.split()[1] for ln in out.splitlines() if ln.startswith('DIGEST ')]
    if pr.returncode != 0 or len(lines) != 1:
        NOTES.append(f'fresh interpreter for {sk} failed: {err.strip().splitlines()[-1][:200] if err.strip() else out[:100]}')
        continue
    assert lines[0] == DIGESTS[repr(tuple(sk))], (
        f'{KEY} :: MolGrid.{sk[1]} (molecule {mols[sk[0]][0].tolist()}, option {sk[2]}) built after the history {P["steps"]} differs from the same '
        'construction alone in a fresh interpreter (points / weights / atweights / aim_weights / indices / atcoords compared by hash)')
"""


EXPECT_REJECT = {
    # (constructor or '*', axis, variant) -> what the pinned tree answers: consistent rejections of an input class
    # (labelled branches, reported as information; everything not listed here must be accepted and equal the reference)
    ("from_pruned", "atnums_kind", "list"): "AttributeError",     # atnums.size
    ("from_pruned", "atnums_kind", "tuple"): "AttributeError",
    ("from_preset", "atnums_kind", "float64"): "KeyError",       # AtomGrid.from_preset formats '<atnum>_rad' with 1.0
    ("from_preset", "coords_kind", "list"): "AttributeError",     # atcoords.ndim
    ("from_pruned", "coords_kind", "list"): "AttributeError",
    ("*", "rotate", "int64:5"): "ValueError",                     # AtomGrid._generate_atomic_grid: isinstance(rotate, int)
    ("*", "rotate", "int32:5"): "ValueError",
    ("from_preset", "preset_case", "upper"): "FileNotFoundError",  # preset names are file names, case-sensitive
    ("from_preset", "preset_case", "title"): "FileNotFoundError",
    ("from_pruned", "radius_kind", "np.float32"): "IndexError",   # only float / np.float64 are repeated per atom
    ("from_pruned", "radius_kind", "int"): "TypeError",
}
KIND_AXES = {
    "atnums_kind": ["int64", "int32", "uint8", "list", "tuple", "float64"],
    "coords_kind": ["float64", "list", "float32", "noncontig", "readonly", "fortran"],
    "rgrid_form": ["single", "list", "list-same-object", "list-copies", "dict-int", "dict-npint64", "none"],
    "rotate": [37, 0, True, False, 12345, "int64:5", "int32:5"],
    "store": [False, True],
    "aim": ["default", "becke", "array"],
    "call": ["pos", "kw", "defaults"],
}
KIND_AXES_CTOR = {
    "from_preset": {"preset_form": ["single", "list", "dict-int", "dict-npint64"], "preset_case": ["lower", "upper", "title"]},
    "from_size": {"rgrid_form": ["single", "none"], "size": [14, 6, 26, 1, 5810], "size_kind": ["int", "np.int64"]},
    "from_pruned": {"radius_kind": ["list", "float", "np.float64", "array", "tuple", "np.float32", "int"],
                    "d_kind": ["d", "s", "both", "both-junk"]},
}
EDGE_ELEMENTS = [1, 2, 18, 19, 20, 36, 37, 54, 55, 57, 58, 72, 82, 83, 86]
SHELL_PRESETS = ["sg_0", "sg_1", "sg_2", "sg_3", "g1", "g2", "g3", "g4", "g5", "g6", "g7"]


def _lattice_mol(ctx, n, step=0.125, box=2.5, dmin=1.2):
    """n centres >= dmin apart with coordinates on a 1/8 lattice (exactly representable in float32)"""
    pts = []
    while len(pts) < n:
        p = np.array([round(ctx.rng.uniform(-box, box) / step) * step for _ in range(3)])
        if all(np.linalg.norm(p - q) >= dmin for q in pts):
            pts.append(p)
    return [list(map(float, p)) for p in pts]


def _run_snippet(ctx, body, P, tag, nontrivial=True):
    """exec PRELUDE + P + body (the replay snippet is the oracle). -> (namespace or None)"""
    code = KINDS_PRELUDE + "P = " + repr(P) + "\n" + body
    wit = {k: v for k, v in P.items() if k not in ("prelude", "body")}
    nfail = len(ctx.failures)
    ns = _exec_snippet(ctx, code, P["key"], wit, "<c07-kinds>")
    if ns is None:
        ctx.count([tag, wit], nontrivial=nontrivial, tag=tag + (":FAIL" if len(ctx.failures) > nfail else ":CRASH"))
        return None
    rej = ns.get("REJECTED")
    ctx.count([tag, wit], nontrivial=nontrivial, tag=tag + (f":rejected:{rej}" if rej else ":ok"))
    for note in ns.get("NOTES", []):
        if note not in ctx.infos:
            ctx.info(note)
    return ns


def _kinds_params(ctx, ctor, overrides, axes):
    rng = ctx.rng
    n = rng.choice([2, 2, 3, 3, 4])
    atnums = [rng.choice(ELEMENTS) for _ in range(n)]
    if len(set(atnums)) == 1:
        atnums[-1] = rng.choice([z for z in ELEMENTS if z != atnums[0]])
    P = dict(ctor=ctor, atnums=atnums, coords=_lattice_mol(ctx, n), nrad=[rng.choice([4, 5, 6]), rng.choice([4, 5, 7]), 6],
             atnums_kind="int64", coords_kind="float64", rgrid_form="single", rotate=rng.choice([37, 37, 0, rng.randrange(1, 10 ** 6)]),
             store=rng.random() < 0.5, aim=rng.choice(["default", "array"]), call="pos", seed=rng.randrange(2 ** 31),
             preset_form="single", preset_case="lower", preset0=rng.randrange(3), radius_kind="list", d_kind="d", size=14, size_kind="int")
    P.update(overrides)
    if P["call"] == "defaults":
        P.update(rotate=37, aim="default", d_kind="d")
    if ctor == "from_size" and P["rgrid_form"] not in ("single", "none"):
        P["rgrid_form"] = "single"
    if P["size"] == 5810:
        P["nrad"] = [4, 4, 4]
    P["axes"] = list(axes)
    rej = [EXPECT_REJECT.get((c, a, P[a] if not isinstance(P[a], (list, dict)) else None)) for a in axes for c in (ctor, "*")]
    P["reject_ok"] = any(rej)
    P["key"] = f"molgrid.MolGrid.{ctor}:kinds:" + ("+".join(axes) if axes else "baseline")
    return P


def _oracle_kinds(ctx: Ctx, budget):
    """classes 2, 3, 4, 6 of the round-2 guide for the three convenience constructors: one axis at a time from a random
    baseline, then random combinations; every accepted input must give the grid built by hand from float64 / int64 data"""
    rng = ctx.rng
    large = budget == "large" or ctx.thorough
    seen_rej = {}
    for ctor in ("from_preset", "from_size", "from_pruned"):
        axes = dict(KIND_AXES)
        axes.update(KIND_AXES_CTOR[ctor])
        cases = [({}, [])]
        for axis, variants in axes.items():
            for v in variants[1:] if axis not in ("size",) else variants[1:]:
                cases.append(({axis: v}, [axis]))
        # explicit pairs: the dtype of atnums decides the type of the dict key `atnums[i]` (np.int64 / np.int32 / np.uint8 / int)
        if ctor != "from_size":
            for ak in ("int32", "uint8", "list"):
                for rf in ("dict-int", "dict-npint64"):
                    if (ctor, "atnums_kind", ak) in EXPECT_REJECT:
                        continue
                    cases.append(({"atnums_kind": ak, "rgrid_form": rf}, ["atnums_kind", "rgrid_form"]))
                    if ctor == "from_preset":
                        cases.append(({"atnums_kind": ak, "preset_form": rf}, ["atnums_kind", "preset_form"]))
        else:
            for ak in ("int32", "uint8", "list", "tuple", "float64"):       # _generate_default_rgrid: `atnum in dict`, `int(atnum)`
                cases.append(({"atnums_kind": ak, "rgrid_form": "none"}, ["atnums_kind", "rgrid_form"]))
        for _ in range(120 if large else 8):
            chosen = rng.sample(sorted(axes), rng.choice([2, 2, 3]))
            cases.append(({a: rng.choice(axes[a]) for a in chosen}, chosen))
        for ov, ax in cases:
            P = _kinds_params(ctx, ctor, ov, ax)
            ns = _run_snippet(ctx, KINDS_BODY, P, f"oracle:kinds:{ctor}:" + ",".join(f"{a}={P[a]}" for a in ax))
            if ns is not None and ns.get("REJECTED"):
                seen_rej.setdefault((ctor, tuple((a, str(P[a])) for a in ax), ns["REJECTED"]), 0)
            elif ns is not None and P["reject_ok"] and len(ax) == 1:
                ctx.info(f"MolGrid.{ctor} now accepts {ax[0]}={P[ax[0]]!r} (listed as a rejected input class) and gives the reference grid")
    if seen_rej:
        single = sorted({f"{c}({a[0][0]}={a[0][1]}): {e}" for (c, a, e) in seen_rej if len(a) == 1})
        ctx.info("input classes rejected consistently by the convenience constructors (labelled branches, not failures): " + "; ".join(single))
    ctx.extra.setdefault("input_kinds", {})["rejected_classes"] = sorted(
        {f"{c}:{','.join(f'{k}={v}' for k, v in a)}:{e}" for (c, a, e) in seen_rej})


def _oracle_aim_kinds(ctx: Ctx, budget):
    rng = ctx.rng
    large = budget == "large" or ctx.thorough
    kinds = ["float64", "int64", "int32", "uint8", "float32", "bool", "noncontig", "readonly"]
    todo = [f"array:{k}" for k in kinds] + [f"callable:{k}" for k in kinds + ["list", "tuple"]]
    for rep in range(4 if large else 1):
        for ak in todo:
            n = rng.choice([1, 2, 2, 3, 4])
            P = dict(key="molgrid.MolGrid.__init__:aim-kinds:" + ak.split(":")[0], atnums=[rng.choice(ELEMENTS) for _ in range(n)], coords=_lattice_mol(ctx, n),
                     nrad=[rng.choice([3, 4, 5]) for _ in range(n)], degs=[rng.choice([3, 5, 7]) for _ in range(n)],
                     rots=[rng.choice([0, 37, rng.randrange(10 ** 6)]) for _ in range(n)], seed=rng.randrange(2 ** 31), aim_kind=ak,
                     store=rng.random() < 0.5, call=rng.choice(["pos", "kw"]), reject_ok=False)
            _run_snippet(ctx, AIM_BODY, P, f"oracle:aim-kinds:{ak}", nontrivial=n >= 2)


def _oracle_presets(ctx: Ctx, budget):
    """every preset name (and its upper / mixed case spellings) on elements at the edges of the preset tables and of the
    default-radial-grid table: MolGrid.from_preset and AtomGrid.from_preset by hand accept / reject together and agree"""
    rng = ctx.rng
    large = budget == "large" or ctx.thorough
    rejected = {}
    for preset in PRESETS_ALL:
        modes = ["prescribed"] if preset in SHELL_PRESETS else [rng.choice([7, 9])]
        modes.append("default")
        heavy = preset in ("veryfine", "ultrafine", "insane", "sg_2", "sg_3", "g4", "g5", "g6", "g7")
        if ctx.thorough:
            pairs = [[z, rng.choice(EDGE_ELEMENTS)] for z in (rng.sample(EDGE_ELEMENTS, 5) if heavy else EDGE_ELEMENTS)]
        elif large:
            pairs = [rng.sample(EDGE_ELEMENTS, 2) for _ in range(2 if heavy else 4)]
        else:
            pairs = [rng.sample(EDGE_ELEMENTS, 2)]
            if preset in ("sg_1",):
                pairs.append([18, 19])
        for zs in pairs:
            for mode in modes:
                if mode == "default" and not large and preset in ("veryfine", "ultrafine", "insane") and rng.random() < 0.7:
                    continue
                cases = ["lower"] + (["upper", "title"] if (large or rng.random() < 0.3) and mode != "default" else [])
                for case in cases:
                    if case != "lower" and str.upper(preset) == preset:
                        continue
                    P = dict(key=f"molgrid.MolGrid.from_preset:preset-table:{preset}", preset=preset, case=case, atnums=zs,
                             coords=_lattice_mol(ctx, 2, dmin=2.0), rgrid=mode, rotate=rng.choice([0, 37]), store=rng.random() < 0.5)
                    ns = _run_snippet(ctx, PRESET_BODY, P, f"oracle:presets:{preset}:{case}:{'default-rgrid' if mode == 'default' else 'given-rgrid'}")
                    if ns is not None and ns.get("REJECTED"):
                        rejected.setdefault(f"{preset if case == 'lower' else {'upper': preset.upper(), 'title': preset.title()}[case]}"
                                            f"/{'rgrid=None' if mode == 'default' else 'rgrid given'}", set()).add(f"Z={zs}: {ns['REJECTED']}")
    ctx.extra.setdefault("input_kinds", {})["preset_rejections_consistent_with_hand_built"] = {k: sorted(v)[:6] for k, v in sorted(rejected.items())}


def _oracle_history(ctx: Ctx, budget):
    """class 1 (state carried between calls) and class 3 (shared argument objects): the constructors called several times
    with overlapping arguments in different orders; every call against the grid built by hand at that moment, repeated calls
    against the first one, and finally against the same construction alone in a fresh interpreter"""
    rng = ctx.rng
    large = budget == "large" or ctx.thorough
    for rep in range(6 if large else 2):
        mols = []
        base = [rng.choice(ELEMENTS) for _ in range(rng.choice([2, 3]))]
        co = _lattice_mol(ctx, len(base))
        mols.append((base, co))
        mols.append((base[::-1], co))                       # same centres, elements reversed
        mols.append((base, co[::-1]))                       # same elements, centres reversed
        other = [rng.choice(ELEMENTS) for _ in range(2)]
        mols.append((other, _lattice_mol(ctx, 2)))
        pool = [(mi, c, o) for mi in range(len(mols)) for c in ("from_preset", "from_size", "from_pruned") for o in (0, 1)]
        picks = rng.sample(pool, 4)
        steps = [list(p) + [rng.random() < 0.5] for p in picks]
        steps += [list(p) + [rng.random() < 0.5] for p in rng.sample(picks, 3)]   # repeats, other order
        steps += [list(picks[0]) + [True], list(picks[0]) + [False]]
        rng.shuffle(steps)
        fresh = [list(p) for p in rng.sample(picks, 2 if rep == 0 or large else 1)]
        P = dict(key="molgrid.MolGrid:history", nrad=rng.choice([4, 5, 6]), mols=mols, steps=steps, rotate=rng.choice([0, 37, rng.randrange(1, 10 ** 6)]),
                 array_aim=rep % 2 == 1, seed=rng.randrange(2 ** 31), fresh=fresh, prelude=KINDS_PRELUDE, body=HISTORY_BODY)
        _run_snippet(ctx, HISTORY_BODY, P, f"oracle:history:{'array-aim' if P['array_aim'] else 'becke'}")


AT_BODY = r"""
from grid.basegrid import LocalGrid
ats = [LocalGrid(np.array(p, dtype=float).reshape(-1, 3), np.array(w, dtype=float), np.array(c, dtype=float)) for p, w, c in P['grids']]
atnums = np.array(P['atnums']); n = len(ats); size = sum(g.size for g in ats)
route, vals = P['aim']
if route == 'array': aim = np.array(vals, dtype=float)
elif route == 'callable': aim = (lambda points, atcoords, atnums, indices: np.array(vals, dtype=float))
else:
    def aim(points, atcoords, nums, indices):
        out = np.zeros(len(points))
        for k in range(len(indices) - 1):
            out[indices[k]:indices[k + 1]] = 1.0 / (1.0 + float(nums[k]))
        return out
try:
    a = MolGrid(atnums, ats, aim, store=True); b = MolGrid(atnums, ats, aim, store=False)
except Exception as e:
    raise AssertionError(f'molgrid.MolGrid:raises :: {type(e).__name__}: {e} on admissible atomic grids and aim weights (input of a correspondence disagreement)')
ind = [int(x) for x in a.indices]; seg = [(ind[k], ind[k + 1]) for k in range(len(ind) - 1)]
assert len(ind) == n + 1 and ind[0] == 0 and ind[-1] == a.size == size and all(s <= e for s, e in seg), (
    f'molgrid.MolGrid.__init__:indices :: index table {ind} is not 0 = i0 <= ... <= iM = size {size}')
for k, (s, e) in enumerate(seg):
    assert np.array_equal(a.points[s:e], ats[k].points) and np.array_equal(a.atweights[s:e], ats[k].weights) and np.array_equal(a.atcoords[k], ats[k].center) and e - s == ats[k].size, (
        f'molgrid.MolGrid.__init__:segments :: points/atweights[{s}:{e}] of the molecular grid are not atomic grid {k}')
aimw = np.asarray(a.aim_weights, dtype=float)
assert aimw.shape == (size,) and np.array_equal(a.weights, a.atweights * aimw), 'molgrid.MolGrid.__init__:weights :: weights != atweights * aim_weights'
f = np.random.default_rng(0).uniform(-1, 1, size)
total = float(a.integrate(f)) if size else 0.0
parts = math.fsum(float(ats[k].integrate(aimw[s:e] * f[s:e])) for k, (s, e) in enumerate(seg) if e > s)
assert abs(total - parts) <= 1e-12 * float(np.sum(np.abs(a.weights * f))) + 1e-300, (
    f'molgrid.MolGrid.integrate:decomposition :: integrate(f) = {total!r} but the atomic integrals of aim*f sum to {parts!r}')
for t in ATTRS:
    assert np.array_equal(np.asarray(getattr(a, t)), np.asarray(getattr(b, t))), f'molgrid.MolGrid.__init__:store :: {t} depends on store'
for k in range(n):
    ga, gb = a.get_atomic_grid(k), b.get_atomic_grid(k)
    assert ga is ats[k], f'molgrid.MolGrid.get_atomic_grid:store-branch :: get_atomic_grid({k}) with store=True is not atomic grid {k}'
    assert np.array_equal(gb.points, ats[k].points) and np.array_equal(gb.weights, ats[k].weights) and np.array_equal(gb.center, ats[k].center), (
        f'molgrid.MolGrid.get_atomic_grid:content :: get_atomic_grid({k}) with store=False is not atomic grid {k}')
    ia, ib = a[k], b[k]
    assert ia is ats[k] and np.array_equal(ib.points, ats[k].points) and np.array_equal(ib.center, ats[k].center) and np.array_equal(
        ib.weights, ats[k].weights * aimw[seg[k][0]:seg[k][1]]), (
        f'molgrid.MolGrid.__getitem__:content :: mg[{k}] is neither the stored AtomGrid nor the aim-weighted segment of atom {k}')
for bad in (-1, -n - 3):
    for g in (a, b):
        try:
            g.get_atomic_grid(bad); ok = True
        except ValueError:
            ok = False
        assert not ok, f'molgrid.MolGrid.get_atomic_grid:negative :: get_atomic_grid({bad}) not rejected'
"""


def oracle_at(ctx: Ctx, failure):
    """Evaluate the property itself at an input on which model and implementation disagreed."""
    w = failure.witness or {}
    if not isinstance(w, dict):
        return
    if w.get("op") == "interpolate":
        from . import c07_ext
        c07_ext.oracle_at_interp(ctx, w)
        return
    if "grids" in w and "aimspec" in w:
        # a small-array case of the correspondence: admissible if every atomic grid is a Grid (as many points as weights),
        # there is at least one atom, and the aim weights have the grid's size
        grids = w["grids"]
        size = sum(len(g[1]) for g in grids)
        route, vals = w["aimspec"]
        admissible = (len(grids) >= 1 and all(len(g[0]) == len(g[1]) for g in grids)
                      and (route == "cbZ" or (route in ("array", "callable") and vals is not None and len(vals) == size)))
        if not admissible:
            ctx.info(f"oracle_at: the correspondence disagreed on an input outside the property's quantifier ({failure.key}: "
                     f"points/weights {w.get('npoints')}/{w.get('sizes')}, aim {w.get('aim')}); no property evaluation there")
            return
        P = dict(key="molgrid.MolGrid", grids=grids, atnums=w["atnums"], aim=[route, vals])
        _run_snippet(ctx, AT_BODY, P, "oracle-at:structure")
        return
    if "constructor" in w and "canon" in w:
        name, canon = w["constructor"], w["canon"]
        atnums, coords = w.get("atnums"), w.get("coords")
        if name not in ("from_preset", "from_size", "from_pruned") or not atnums or len(atnums) != len(coords):
            return
        toks = [t for t in canon if isinstance(t, str)]
        forms = {"obj": "single", "list": "list", "dict": "dict-int", "none": "none"}
        def form_of(tok):
            return forms.get(tok.split()[0]) if tok.split() and tok.split()[0] in forms and (tok.split()[0] != "list" or int(tok.split()[1]) == len(atnums)) else None
        rtok = {"from_preset": 4, "from_size": 3, "from_pruned": 7}[name]
        rf = form_of(str(canon[rtok]))
        ov = dict(atnums=[int(z) for z in atnums], coords=[list(map(float, c)) for c in coords], store=bool(w.get("store")),
                  rgrid_form=rf or "single", aim="default")
        if any(z not in ELEMENTS for z in ov["atnums"]):
            return
        if name == "from_preset":
            ov["preset_form"] = form_of(str(canon[3])) or "single"
        rot = [c for c in canon if isinstance(c, int) and not isinstance(c, bool)]
        P = _kinds_params(ctx, name, ov, ["rgrid_form"] + (["preset_form"] if name == "from_preset" else []))
        P["key"] = f"molgrid.MolGrid.{name}:fanout"
        P["reject_ok"] = False
        _run_snippet(ctx, KINDS_BODY, P, f"oracle-at:fanout:{name}")


def oracle(ctx: Ctx, budget: str):
    mg, ag, bg, bk, od = _mods()
    from . import c07_ext, c07_r4, c07_r5
    parts = [
        ("structure", lambda: _oracle_structure(ctx, budget, mg, ag, bk, od)),
        ("fanout", lambda: _oracle_fanout(ctx, budget, mg, ag, bk, od)),
        ("default-rgrid", lambda: _oracle_default_rgrid(ctx, budget, mg)),
        ("kinds", lambda: _oracle_kinds(ctx, budget)),
        ("aim-kinds", lambda: _oracle_aim_kinds(ctx, budget)),
        ("presets", lambda: _oracle_presets(ctx, budget)),
        ("history", lambda: _oracle_history(ctx, budget)),
    ]
    parts += [("r3:" + nm, (lambda fn=fn: fn(ctx, budget))) for nm, fn in c07_ext.ORACLE_PARTS]
    parts += [("r4:" + nm, (lambda fn=fn: fn(ctx, budget))) for nm, fn in c07_r4.ORACLE_PARTS]
    parts += [("r5:" + nm, (lambda fn=fn: fn(ctx, budget))) for nm, fn in c07_r5.ORACLE_PARTS]
    parts.append(("end-to-end", lambda: _oracle_end_to_end(ctx, budget, mg, ag)))
    for name, fn in parts:
        _part(ctx, "oracle", name, fn)
    _reraise(ctx, "oracle")
